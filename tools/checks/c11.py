"""C11 — streamable HTTP session ids (DESIGN.md sections 5.6, 6 "C11", 9 lead 8; pattern P2).

model     HttpSess.tla / HttpSessMC.tla: state machine of the handler's session table (owner, refs, idle timer with
          the fired-but-not-yet-run window, graceful close while a tool runs, stateless mode) and of its environment
          (the configured EventStore entering / leaving the fault modes nopurge and down), checked exhaustively
          by TLC on bounded configurations (+ reachability witnesses)
generate  (a) transition cover (tools/graphwalk.py) of the settled, reduced state graph dumped by TLC; self-loop
          transitions (refused / read-only requests) are woven into the cover paths; the graph of one session x
          store mode is covered edge by edge (every termination path and every request on the terminated id in
          every store mode); (b) TLC -simulate behaviours of the full model, including requests issued at exactly
          the idle deadline (AdvanceTie), without and with store faults
replay    harness/mcp/c11_httpsess_test.go: real StreamableHTTPHandler (+ auth.RequireBearerToken), no sockets,
          testing/synctest virtual time
judge     HttpSessMon.tla (property only -> verdict), HttpSessTrace.tla (strict replay of HttpSess -> drift)
"""
import glob, json, os, random, re, shutil, tempfile, time
from concurrent.futures import ThreadPoolExecutor
import vlib, graphwalk

PID = "C11"
HARNESS = ["mcp/c11_httpsess_test.go"]
WITNESSES = ["NeverTimedOut", "NeverClosing", "NeverTieAdmit", "NeverParked", "NeverForeign", "NeverStale",
             "NeverCbClosing", "NeverFaultDelete", "NeverNoStream"]


def wdir():
    """Private TLC directory (own prefix: other jobs clean /tmp/tlc-* while we run)."""
    d = tempfile.mkdtemp(prefix="c11-")
    vlib._scratch.append(d)
    return d


def cfg_with(name, **consts):
    txt = open(os.path.join(vlib.SPEC, name)).read()
    for k, val in consts.items():
        txt, n = re.subn(r"(?m)^(\s*%s\s*=\s*).*$" % k, r"\g<1>%s" % val, txt)
        if n != 1:
            raise vlib.MachineryError("constant %s not found in %s" % (k, name))
    return txt


def opname(n):
    return n[:-1] if n[-1] in "HC" else n


# --------------------------------------------------------------------------
# model checking


def model_check(v, tier):
    jobs = [("HttpSess_mc_quick.cfg" if tier == "quick" else "HttpSess_mc_thorough.cfg", 4),
            ("HttpSess_mc_stateless.cfg", 1), ("HttpSess_mc_notimeout.cfg", 2)]
    if tier != "quick":
        # three ids without store faults; the store-fault dimension exhaustively with two ids (T=3 and T=4)
        jobs += [("HttpSess_mc_thorough2.cfg", 2), ("HttpSess_mc_quick.cfg", 2)]
    base = open(os.path.join(vlib.SPEC, "HttpSess_mc_quick.cfg")).read().split("INVARIANTS")[0]

    def mc(job):
        cfg, workers = job
        return cfg, vlib.run_tlc("HttpSessMC", cfg, workdir=wdir(), workers=workers, timeout=1500,
                                 heap_gb=4 if tier == "quick" else 12)

    def wit(w):
        txt = base + "INVARIANT %s\nCHECK_DEADLOCK FALSE\n" % w
        return w, vlib.run_tlc("HttpSessMC", "wit.cfg", workdir=wdir(), extra_files={"wit.cfg": txt}, workers=1,
                               timeout=600, heap_gb=2)

    def apa():
        # unbounded in the length of histories: Apalache discharges the inductive invariant HttpSess!IndInv (the seven state
        # invariants of the HttpSess_mc_*.cfg configurations + the shape of table entries and slots) for 3 ids, 3 slow POSTs,
        # 2 parked DELETEs, ANY timeout T (0 = none), stateless or not, every subset of the store fault modes
        # (spec/HttpSessInd.tla: CInit, IndInit).  Base 14 s + step 6 min (17 min on a loaded machine): thorough tier and only
        # on request (VERIF_APALACHE_SLOW=1).  Proved by hand on 2026-09-25.
        return vlib.run_apalache_inductive("HttpSessInd", "CInit", "IndInit", "IndInv", timeout=1500)

    with ThreadPoolExecutor(max_workers=6) as ex:
        fapa = ex.submit(apa) if tier != "quick" and os.environ.get("VERIF_APALACHE_SLOW") else None
        mcs = list(ex.map(mc, jobs))
        wits = list(ex.map(wit, WITNESSES))
        ra = fapa.result() if fapa else None
    if ra:
        v.cov.setdefault("apalache_inductive", []).append(ra)
        if ra["status"] == "refuted":
            raise vlib.MachineryError("HttpSess: IndInv is not inductive (%s)" % ra.get("detail"))
    for cfg, res in mcs:
        vlib.tlc_must_pass(res, cfg)
        v.add_tlc(cfg, res)
        if not res.ok:
            raise vlib.MachineryError("model violates %s in %s: HttpSess no longer satisfies its own invariants\n%s"
                                      % (res.violation, cfg, res.stdout[-3000:]))
    for w, res in wits:
        if res.violation != w:
            raise vlib.MachineryError("vacuity: witness %s not reachable (%s)" % (w, res.error or res.violation))
    v.cov["witnesses_reached"] = len(wits)


# --------------------------------------------------------------------------
# generation


def cover_histories(v, cfg, T, stateless, seed, full, prefix, budget_factor=1.0, fault=False):
    """Transition cover of the dumped graph. full: every edge; otherwise every state-changing edge, with a seeded
    sample of the self-loop edges woven in at the nodes where they are enabled."""
    wd = wdir()
    dot = os.path.join(wd, "g.dot")
    rc = vlib.run_tlc("HttpSessMC", cfg, workdir=wd, timeout=900, heap_gb=4, workers=4,
                      extra_args=["-dump", "dot,actionlabels", dot])
    vlib.tlc_must_pass(rc, cfg)
    if not rc.ok:
        raise vlib.MachineryError("cover model violates %s" % rc.violation)
    v.add_tlc(cfg, rc)
    init, edges = graphwalk.parse_dot(dot)
    os.remove(dot)
    total_all = sum(len(x) for x in edges.values())
    paths, total = graphwalk.cover(init, edges, maxlen=40, seed=seed, skip_selfloops=not full)
    woven = 0
    nself = sum(1 for u in edges for (l, d) in edges[u] if d == u)
    if not full:
        rnd = random.Random(seed * 7919 + 11)
        step = {u: {json.dumps(graphwalk.parse_label(l)): d for (l, d) in edges[u] if d != u} for u in edges}
        loops = {u: [graphwalk.parse_label(l) for (l, d) in edges[u] if d == u] for u in edges}
        for u in loops:
            rnd.shuffle(loops[u])
        budget = int(budget_factor * sum(len(p) for p in paths))
        out = []
        for p in paths:
            cur, q = init[0], []
            for st in p:
                nxt = step[cur].get(json.dumps(st))
                if nxt is None:
                    raise vlib.MachineryError("cover path leaves the graph at %r" % (st,))
                q.append(st)
                cur = nxt
                if budget > 0 and loops[cur] and rnd.random() < 0.75:
                    q.append(loops[cur].pop())
                    budget -= 1
                    woven += 1
            out.append(q)
        paths = out
    v.cov.setdefault("graphs", []).append({"config": cfg, "nodes": len(edges), "edges": total_all,
                                           "state_changing_edges": total_all - nself, "covered_edges": total + woven if not full else total,
                                           "paths": len(paths)})
    return [{"id": "%s%d" % (prefix, i), "timeout": T, "stateless": stateless, "faultstore": fault,
             "ops": [[opname(n), a] for (n, a) in p]} for i, p in enumerate(paths)]


_hist_item = re.compile(r'<<"(\w+)", "(\w*)", (-?\d+), "(\w*)">>')


def sim_histories(v, cfg_txt, T, stateless, num, depth, seed, prefix, fault=False):
    wd = wdir()
    sim = os.path.join(wd, "sim")
    os.makedirs(sim)
    res = vlib.run_tlc("HttpSessMC", "gen.cfg", workdir=wd, extra_files={"gen.cfg": cfg_txt}, workers=1, timeout=900,
                       heap_gb=4, simulate="file=%s/b,num=%d" % (sim, num), depth=depth, seed=seed)
    if res.error or res.violation:
        raise vlib.MachineryError("HttpSess simulation failed: %s %s\n%s" % (res.error, res.violation, res.stdout[-1500:]))
    m = re.search(r"The number of states generated: (\d+)", res.stdout)
    if m:
        res.generated = res.distinct = int(m.group(1))
    v.add_tlc("simulate:" + prefix, res)
    rows, seen = [], set()
    for i, f in enumerate(sorted(glob.glob(os.path.join(sim, "b_*")))):
        txt = open(f).read()
        j = txt.rfind("/\\ hist = <<")
        if j < 0:
            continue
        k = txt.find("\n\n", j)
        ops = []
        for (name, a1, a2, a3) in _hist_item.findall(txt[j:k if k > 0 else None]):
            a2 = int(a2)
            if name == "Post":
                ops.append(["Post", [a1, a2, a3]])
            elif name in ("Get", "Delete"):
                ops.append([name, [a2, a3]])
            elif name == "SetStore":
                ops.append([name, [a1]])
            else:
                ops.append([name, [a2]])
        key = json.dumps(ops)
        if not ops or key in seen:
            continue
        seen.add(key)
        rows.append({"id": "%s%d" % (prefix, i), "timeout": T, "stateless": stateless, "faultstore": fault, "ops": ops})
    shutil.rmtree(sim, ignore_errors=True)
    return rows


# --------------------------------------------------------------------------


def abstract_sig(inv, e):
    cls = {0: "noid", -1: "unknown"}.get(e.get("a2"), "id")
    op = e.get("op")
    st = "@store=%s" % e.get("store") if e.get("store") in ("nopurge", "down") else ""
    if op == "Post":
        return "%s:Post(%s,%s,%s)%s" % (inv, e.get("a1"), cls, e.get("a3"), st)
    if op in ("Get", "Delete"):
        return "%s:%s(%s,%s)%s" % (inv, op, cls, e.get("a3"), st)
    if op in ("Advance", "EndPost", "Close", "Drain"):
        return "%s:%s%s%s" % (inv, op, "@tie" if e.get("pre") else "", st)
    return "%s:%s%s" % (inv, op, st)


def brief(r):
    return [r.get("op"), r.get("a1"), r.get("a2"), r.get("a3"), "t=%s" % r.get("t"), "store=%s" % r.get("store"),
            [[d["m"], d["body"], d["tgt"], d["user"], d["status"], d["sid"]] for d in r.get("done", [])],
            "sess=%s" % r.get("sess")]


def run(tier, seed, replay):
    v = vlib.Verdict(PID, tier, seed)
    v.assumptions = [
        "session ids are identified by the order in which the server issued them; users by the UserID a scripted "
        "TokenVerifier puts into TokenInfo (none = request not routed through auth.RequireBearerToken)",
        "time is virtual (testing/synctest): steps settle instantly, only Advance moves the clock; a request issued "
        "at exactly the idle deadline (tie) and requests issued while a DELETE/Close is still waiting for a running "
        "tool are executed but not judged",
        "'failed initialize' is an initialize refused by a receiving middleware; GET streams are disconnected by the "
        "client as soon as they are established",
        "store faults are those of a scripted EventStore (a MemoryEventStore behind it) switched between steps: nopurge = "
        "SessionClosed (and, by a seeded choice, Append) returns an error, down = Open, Append, After and SessionClosed "
        "return an error; a POST answered 5xx is taken as possible (not certain) activity for the idle timeout",
        "TLC exhaustive results are for the stated small constants (2-3 ids, timeout 2-3 ticks, 2 slow POSTs)"]
    out = vlib.outdir(PID)
    phase, tmark = {}, [time.time()]

    def lap(name):
        phase[name] = round(time.time() - tmark[0], 1)
        tmark[0] = time.time()
    v.cov["phase_s"] = phase
    hist_path = os.path.join(out, "histories.ndjson")
    rep = json.load(open(replay))["replay"] if replay else None
    for stale in glob.glob(os.path.join(out, "violation-*.json")):
        os.remove(stale)  # violation files describe the current run only
    if replay:
        rows = [{"id": "replay", "timeout": rep["timeout"], "stateless": rep["stateless"],
                 "faultstore": bool(rep.get("faultstore")), "ops": rep["ops"]}]
    else:
        # 1. design: exhaustive model check + witnesses (runs while the graphs are generated)
        with ThreadPoolExecutor(max_workers=1) as bg:
            fut = bg.submit(model_check, v, tier)
            # 2. behaviours
            nsim = 600 if tier == "quick" else 4000
            gens = [
                (lambda: cover_histories(v, "HttpSess_cover.cfg", 3, False, seed, False, "cover.", 1.2))
                if tier == "quick" else
                (lambda: cover_histories(v, "HttpSess_cover.cfg", 3, False, seed, True, "cover.")),
                lambda: cover_histories(v, "HttpSess_cover_stateless.cfg", 0, True, seed, True, "stateless."),
                lambda: cover_histories(v, "HttpSess_cover_fault.cfg", 3, False, seed, True, "fault.", fault=True),
            ] + ([] if tier == "quick" else [
                lambda: cover_histories(v, "HttpSess_cover_fault2.cfg", 3, False, seed, False, "fault2.", 1.0, fault=True),
            ]) + [
                lambda: sim_histories(v, cfg_with("HttpSess_gen.cfg"), 3, False, nsim, 35, seed, "sim."),
                lambda: sim_histories(v, cfg_with("HttpSess_gen.cfg", T=0), 0, False, max(20, nsim // 10), 25, seed + 1, "sim0."),
                lambda: sim_histories(v, cfg_with("HttpSess_gen.cfg", T=2, MaxSess=2), 2, False, max(40, nsim // 4), 40, seed + 2, "sim2."),
                lambda: sim_histories(v, cfg_with("HttpSess_gen.cfg", StoreModes='{"nopurge"}'), 3, False, nsim // 4, 35, seed + 3, "simf.", fault=True),
                lambda: sim_histories(v, cfg_with("HttpSess_gen.cfg", T=2, StoreModes='{"nopurge", "down"}'), 2, False, nsim // 4, 35, seed + 4, "simd.", fault=True),
            ]
            with ThreadPoolExecutor(max_workers=6) as ex:
                rows = [r for part in ex.map(lambda g: g(), gens) for r in part]
            lap("generate")
            fut.result()
            lap("model_check_wait")
    vlib.write_ndjson(hist_path, rows)
    by_id = {r["id"]: r for r in rows}
    v.cov["histories"] = len(rows)

    # 3. run on the real code (sharded: every history is independent)
    nshard = 1 if replay else (3 if tier == "quick" else 4)
    shards = [rows[i::nshard] for i in range(nshard)]

    def replay_shard(i):
        hp, op = os.path.join(out, "histories.%d.ndjson" % i), os.path.join(out, "obs.%d.ndjson" % i)
        vlib.write_ndjson(hp, shards[i])
        if os.path.exists(op):
            os.remove(op)
        rc, gout, wall = vlib.go_test("mcp", "^TestVerif_C11$", HARNESS,
                                      env={"VERIF_IN": hp, "VERIF_OUT": op, "VERIF_SEED": seed + 1000 * i}, timeout=1200,
                                      race=(tier == "thorough" and i == 0))  # one shard under the race detector
        vlib.go_must_build(rc, gout, PID)
        got = vlib.read_ndjson(op) if os.path.exists(op) else []
        os.remove(hp)
        if os.path.exists(op):
            os.remove(op)
        return rc, gout, got

    with ThreadPoolExecutor(max_workers=nshard) as ex:
        results = list(ex.map(replay_shard, range(nshard)))
    lap("replay")
    obs = os.path.join(out, "obs.ndjson")
    obs_rows = []
    for i, (rc_go, gout, got) in enumerate(results):
        tr = vlib.split_traces(got)
        if "DATA RACE" in gout:
            m = re.search(r"WARNING: DATA RACE(?:.|\n)*?\n\s+(\S+)\(", gout)
            v.violation("NoRace:%s" % (m.group(1).split("/")[-1] if m else "?"),
                        "data race reported by the race detector while replaying histories", {"output": gout[-3000:]})
            rc_go = 0 if len(tr) == len(shards[i]) else rc_go
        if rc_go != 0:
            # a panic / bubble deadlock inside SDK code while a history was replayed is real-code behaviour
            lines = [l for l in gout.splitlines() if l.startswith("panic:") or "fatal error" in l or "deadlock" in l]
            if not lines:
                raise vlib.MachineryError("C11 harness failed:\n" + gout[-3000:])
            done_ids = [t[0] for t in tr]
            crashed = done_ids[-1] if done_ids else (shards[i][0]["id"] if shards[i] else "?")
            h = by_id.get(crashed, {})
            v.violation("NoPanic:%s" % re.sub(r"0x[0-9a-f]+|\d+", "N", lines[0])[:80],
                        "the harness process died while replaying history %s: %s" % (crashed, lines[0]),
                        {"timeout": h.get("timeout"), "stateless": h.get("stateless"), "faultstore": bool(h.get("faultstore")),
                         "ops": h.get("ops"), "output": gout[-2500:]})
            tr = [t for t in tr if t[0] != crashed]  # judge the complete traces only
            v.cov["histories_not_replayed"] = v.cov.get("histories_not_replayed", 0) + len(shards[i]) - len(tr)
        obs_rows += [r for (_, _, trows) in tr for r in trows]
    vlib.write_ndjson(obs, obs_rows)
    traces = vlib.split_traces(obs_rows)
    nsteps = sum(1 for r in obs_rows if r.get("ev") == "step")
    v.cov["evaluations"] = nsteps
    v.cov["requests"] = sum(len(r.get("issued", [])) for r in obs_rows)
    v.cov["traces_validated_against_impl"] = len(traces)
    distinct, nontrivial, classes = set(), 0, set()
    for tid, start, trows in traces:
        key = vlib.sha([[r.get("op"), r.get("a1"), r.get("a2"), r.get("a3"), r.get("pre")] for r in trows] + [trows[0].get("timeout"), trows[0].get("stateless")])
        for r in trows:
            for d in r.get("done", []):
                classes.add((d["m"], {0: "noid", -1: "unknown"}.get(d["tgt"], "id"), d["status"]))
        if key in distinct:
            continue
        distinct.add(key)
        if any(r.get("closed") for r in trows) or any(d["status"] in (403, 404, 405) for r in trows for d in r.get("done", [])):
            nontrivial += 1
    v.cov["distinct_nontrivial"] = nontrivial
    v.cov["response_classes_seen"] = sorted("%s/%s/%d" % c for c in classes)
    v.cov["tie_steps"] = sum(1 for r in obs_rows if r.get("pre"))
    v.cov["rule"] = ("histories = transition cover of the TLC state graph of the settled session-table model (quick: every "
                     "state-changing edge + a seeded sample of the self-loop edges; thorough: every edge) + stateless cover + every "
                     "edge of the graph of one session x EventStore fault mode (up / nopurge / down; thorough: also the state-changing "
                     "edges of two sessions x fault mode) + "
                     "TLC-simulated behaviours of the full model (incl. requests at exactly the idle deadline; without and with store faults); distinct by "
                     "operation sequence and configuration; non-trivial = a session was terminated or a request was refused "
                     "with 403/404/405")
    for tid, start, trows in traces[:2]:
        v.sample({"trace": tid, "steps": [brief(r) for r in trows[1:7]]})

    # 4. monitor (the verdict) and strict replay (binding / drift), sharded and run side by side
    def monitor_shard(i):
        part = [t for j, t in enumerate(traces) if j % nshard == i]
        prow = [r for (_, _, trows) in part for r in trows]
        if not prow:
            return [], None
        pp = os.path.join(out, "obs_mon.%d.ndjson" % i)
        vlib.write_ndjson(pp, prow)
        res = vlib.run_tlc("HttpSessMon", "HttpSessMon.cfg", workdir=wdir(), extra_files={"obs.ndjson": pp}, workers=1,
                           timeout=1800, heap_gb=6)
        os.remove(pp)
        hwm = [p for p in res.printed if isinstance(p, dict) and "hwm" in p]
        if res.error or hwm or res.violation or not res.ok:
            raise vlib.MachineryError("monitor HttpSessMon did not consume the log (%s %s %s)\n%s"
                                      % (res.error, hwm, res.violation, "\n".join(res.stdout.splitlines()[-30:])))
        # map shard line numbers back to lines of obs.ndjson
        lineno, n = {}, 0
        for (tid, start, trows) in part:
            for off in range(len(trows)):
                n += 1
                lineno[n] = start + off
        return [{"monfail": p["monfail"], "line": lineno[p["line"]]} for p in res.printed
                if isinstance(p, dict) and "monfail" in p], res

    groups = {}
    for tid, start, trows in traces:
        if any(r.get("pre") for r in trows):
            continue
        groups.setdefault((trows[0]["timeout"], trows[0]["stateless"]), []).append((tid, trows))
    gkeys = sorted(groups)

    def strict_group(gi):
        (T, stateless), cur = gkeys[gi], groups[gkeys[gi]]
        cfg_txt = cfg_with("HttpSessTrace.cfg", T=T, Stateless="TRUE" if stateless else "FALSE")
        okc, drifts, runs = 0, [], []
        for attempt in range(6):
            cur_rows = [r for (_, tr) in cur for r in tr]
            if not cur_rows:
                break
            sp = os.path.join(out, "obs_strict.%d.ndjson" % gi)
            vlib.write_ndjson(sp, cur_rows)
            res = vlib.run_tlc("HttpSessTrace", "trace.cfg", workdir=wdir(), workers=1, timeout=1800, heap_gb=6,
                               extra_files={"obs.ndjson": sp, "trace.cfg": cfg_txt})
            os.remove(sp)
            runs.append(("HttpSessTrace[T=%s,stateless=%s]" % (T, stateless), res))
            hwm = [p for p in res.printed if isinstance(p, dict) and "hwm" in p]
            if res.ok and not hwm:
                okc += len(cur)
                break
            if not hwm:
                raise vlib.MachineryError("strict HttpSessTrace failed to run: %s\n%s" % (res.error or res.violation, res.stdout[-2000:]))
            line = hwm[0]["hwm"]
            tr2 = vlib.split_traces(cur_rows)
            tid, start, trows = vlib.trace_of_line(tr2, line)
            drifts.append((tid, "trace %s step %d not explained by HttpSess: %s" % (tid, line - start, json.dumps(brief(cur_rows[line - 1]))[:300])))
            idx = [i for i, (t2, _) in enumerate(cur) if t2 == tid][0]
            okc += idx
            cur = cur[idx + 1:]
        return okc, drifts, runs

    with ThreadPoolExecutor(max_workers=nshard + 2) as ex:
        mon_f = [ex.submit(monitor_shard, i) for i in range(nshard)]
        str_f = [ex.submit(strict_group, gi) for gi in range(len(gkeys))]
        mon_r = [f.result() for f in mon_f]
        str_r = [f.result() for f in str_f]
    fails = sorted([f for (fl, _) in mon_r for f in fl], key=lambda f: f["line"])
    for (_, mres) in mon_r:
        if mres is not None:
            v.add_tlc("HttpSessMon", mres)
    lap("judge")
    bad_traces = set()
    for f in fails:
        tid, start, trows = vlib.trace_of_line(traces, f["line"])
        e = obs_rows[f["line"] - 1]
        upto = f["line"] - start
        h = by_id.get(tid, {})
        if f["monfail"].startswith("Drift."):
            v.drift.append("%s in trace %s at step %d: %s" % (f["monfail"][6:], tid, upto, json.dumps(brief(e))[:300]))
            continue
        bad_traces.add(tid)
        ops = [o for o in h.get("ops", [])]
        # the failing step is the upto-th logged step; AdvanceTie ops are merged into the following step
        cut, logged = 0, 0
        for o in ops:
            cut += 1
            if o[0] != "AdvanceTie":
                logged += 1
                if logged >= upto:
                    break
        v.violation(abstract_sig(f["monfail"], e),
                    "monitor %s failed at step %d of trace %s (timeout=%s stateless=%s): %s"
                    % (f["monfail"], upto, tid, trows[0].get("timeout"), trows[0].get("stateless"), json.dumps(brief(e))[:400]),
                    {"timeout": trows[0].get("timeout"), "stateless": trows[0].get("stateless"),
                     "faultstore": bool(h.get("faultstore")), "ops": ops[:cut],
                     "last_steps": [brief(r) for r in trows[max(1, upto - 5):upto + 1]]})

    strict_ok = 0
    for okc, drifts, runs in str_r:
        strict_ok += okc
        for name, res in runs:
            v.add_tlc(name, res)
        for tid, msg in drifts:
            if tid not in bad_traces:  # a trace that violates the property is reported as such, not as drift
                v.drift.append(msg)
    v.cov["traces_strictly_explained"] = strict_ok
    v.cov["exhaustive"] = False
    return v.finish()
