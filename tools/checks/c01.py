"""C01 — every outgoing call completes exactly once (DESIGN.md section 6, C01)."""
import conncheck, vlib
PID = "C01"

def run(tier, seed, replay):
    return connrun(PID, tier, seed, replay)

def connrun(pid, tier, seed, replay):
    import json
    v = vlib.Verdict(pid, tier, seed)
    import os
    rows = vlib.read_ndjson(os.path.join(vlib.HARNESS, "scenarios", "conn_corner.ndjson"))
    if replay:
        rows = [json.load(open(replay))["replay"]["scenario"]]
    nrand = 0 if replay else (300 if tier == "quick" else 3000)
    obs, orows, gout = conncheck.run_scenarios(pid, rows, seed, nrand)
    traces = conncheck.judge(v, pid, obs, orows, {r["id"]: r for r in rows})
    conncheck.coverage(v, traces)
    for tid, start, trows in traces[:3]:
        v.sample({"trace": tid, "side": trows[0].get("side"), "steps": conncheck.steps_of(trows)})
    return v.finish()
