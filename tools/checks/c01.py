"""C01 — every outgoing call completes exactly once (DESIGN.md section 6, C01)."""
import conncheck, vlib
PID = "C01"

def run(tier, seed, replay):
    return connrun(PID, tier, seed, replay)

def connrun(pid, tier, seed, replay):
    import json
    v = vlib.Verdict(pid, tier, seed)
    import os
    rows = vlib.read_ndjson(os.path.join(vlib.HARNESS, "scenarios", "conn_corner.ndjson"))
    v.assumptions = ["the transport honours Close (Read returns EOF, blocked writes fail) and handlers return when released or cancelled",
                     "seam-level scheduling: the SDK runs to quiescence between environment actions",
                     "Conn.tla exhaustive results are for the stated small constants"]
    wire_replay = None
    if replay:
        rep = json.load(open(replay))["replay"]
        if "pair_steps" in rep:
            conncheck.run_pair(v, pid, tier, seed, rep["pair_steps"])
            return v.finish()
        if "pairsub_steps" in rep:
            import pairsub
            pairsub.run_pairsub(v, pid, tier, seed, rep["pairsub_steps"])
            return v.finish()
        if "corpus_rows" in rep:
            conncheck.repo_corpus(v, pid, tier, rep["corpus_rows"])
            v.cov["distinct_nontrivial"] = 1
            return v.finish()
        if "streamsrv_scenario" in rep:
            from checks import c08
            c08.satellite(v, pid, tier, seed, replay_scn=rep["streamsrv_scenario"])
            v.cov["evaluations"], v.cov["distinct_nontrivial"] = 1, 1
            return v.finish()
        if "httpclose_scenario" in rep:
            import httpclose
            httpclose.satellite(v, pid, tier, seed, replay_scn=rep["httpclose_scenario"])
            v.cov["evaluations"], v.cov["distinct_nontrivial"] = 1, 1
            return v.finish()
        if "ssesat_scenario" in rep:
            import ssesat
            ssesat.satellite(v, pid, tier, seed, replay_scn=rep["ssesat_scenario"])
            v.cov["evaluations"], v.cov["distinct_nontrivial"] = 1, 1
            return v.finish()
        if "fanout_scenario" in rep:
            import fanout
            fanout.satellite(v, pid, tier, seed, replay_scn=rep["fanout_scenario"])
            v.cov["evaluations"], v.cov["distinct_nontrivial"] = 1, 1
            return v.finish()
        if "wire_case" in rep:
            import wirecheck
            wirecheck.run_wire(v, tier, seed, rep["wire_case"], part=pid)
            v.cov["evaluations"], v.cov["distinct_nontrivial"] = 1, 1
            return v.finish()
        rows = [rep["scenario"]]
    else:
        # design level: exhaustive model check of Conn.tla on the config of this property's family
        fam = {"C01": "out", "C02": "in", "C03": "in", "C04": "cancel", "C05": "close" if tier == "quick" else "close2"}[pid]
        res = vlib.run_tlc("ConnMC", "Conn_mc_%s.cfg" % fam, timeout=1500, heap_gb=12)
        vlib.tlc_must_pass(res, fam)
        v.add_tlc("Conn_mc_%s.cfg" % fam, res)
        if not res.ok:
            raise vlib.MachineryError("Conn model violates %s on config %s" % (res.violation, fam))
        if pid in ("C05", "C01"):
            # two endpoints talking to each other: termination of the shutdown protocol (liveness under fairness) with the
            # repaired behaviour; with a repair switched off TLC must find the corresponding historical deadlock
            rp = vlib.run_tlc("ConnPair", "ConnPair_fixed.cfg", timeout=1500, heap_gb=8, workers=8)
            vlib.tlc_must_pass(rp, "ConnPair_fixed")
            v.add_tlc("ConnPair_fixed.cfg (NoStuck, CloseTerminates, CallsComplete, PeerNotices)", rp)
            if not rp.ok:
                raise vlib.MachineryError("ConnPair (repaired design) violates %s" % rp.violation)
            if tier == "thorough" or pid == "C05":
                for wcfg in ("ConnPair_lead9.cfg", "ConnPair_crossing.cfg"):
                    rw = vlib.run_tlc("ConnPair", wcfg, timeout=900, heap_gb=6, workers=4)
                    if rw.violation != "NoStuck":
                        raise vlib.MachineryError("ConnPair witness %s: the model no longer exhibits the historical deadlock (%s)" % (wcfg, rw.violation or rw.error))
        if pid == "C05":
            # persistent senders of notifications (ConnNotify.tla): with the admission rule of the code shutdown
            # terminates (liveness under fairness); with the "not idle" rule TLC must exhibit a Close that never returns
            rn = vlib.run_tlc("ConnNotify", "ConnNotify_code.cfg", timeout=600, heap_gb=4, workers=4)
            vlib.tlc_must_pass(rn, "ConnNotify_code")
            v.add_tlc("ConnNotify_code.cfg (CloseTerminates, SendersLearn, ClosedOnlyWhenIdle)", rn)
            if not rn.ok:
                raise vlib.MachineryError("ConnNotify (admission rule of the code) violates %s" % rn.violation)
            rw = vlib.run_tlc("ConnNotify", "ConnNotify_notidle.cfg", timeout=600, heap_gb=4, workers=4)
            if rw.violation != "CloseTerminates":
                raise vlib.MachineryError("ConnNotify witness: the 'not idle' admission rule no longer breaks termination (%s)" % (rw.violation or rw.error))
            # unbounded in the length of behaviours: Apalache discharges the inductive invariant of ConnNotify.tla
            # (transport closed only when idle AND it stays idle; the epilogue never misses the idle moment) for 4 senders
            ra = vlib.run_apalache_inductive("ConnNotify", "CInit", "IndInit", "IndInv")
            v.cov.setdefault("apalache_inductive", []).append(ra)
            if ra["status"] == "refuted":
                raise vlib.MachineryError("ConnNotify: IndInv is not inductive (%s)" % ra.get("detail"))
            # unbounded in the PARAMETERS as well: the TLAPS proof ConnNotifyProof.tla (Spec => []PInv for every finite set of
            # senders, every MaxCalls, either admission rule; 126 obligations)
            rp2 = vlib.run_tlapm("ConnNotifyProof")
            v.cov["tlaps_proofs"] = [rp2]
            if rp2["status"] == "failed":
                raise vlib.MachineryError("ConnNotifyProof: %s" % rp2.get("detail"))
        # behaviours generated by TLC from the model
        n = 150 if tier == "quick" else 1500
        for cfg, pre in (("ConnGen_a.cfg", "tlcA"), ("ConnGen_b.cfg", "tlcB")):
            sc, gres = conncheck.tlc_scenarios(cfg, n, 90, seed, pre)
            v.add_tlc(cfg + "(simulate)", gres)
            rows += sc
        # the same model at critical-section granularity: TLC dictates the order of the critical sections and the harness
        # replays it in lock step (every updateInFlight call parks at the verif gate, the script releases the one TLC chose)
        ncs = 100 if tier == "quick" else 1200
        for cfg, pre in (("ConnGenCS_a.cfg", "csA"), ("ConnGenCS_b.cfg", "csB")):
            sc, gres = conncheck.tlc_scenarios(cfg, ncs, 150, seed, pre, module="ConnGenCS", csdir=True)
            v.add_tlc(cfg + "(simulate, critical-section level)", gres)
            rows += sc
        v.cov["tlc_generated_scenarios"] = len(rows)
    # the transport satellites are independent of the scripted-transport part: they run side by side with it (own TLC runs,
    # own go test process, own artefact files) and are joined below; an exception in one of them is re-raised there
    bg = {}
    if not replay:
        import threading
        def _spawn(name, fn):
            box = {}
            def run():
                try:
                    box["res"] = fn()
                except BaseException as e:      # noqa: re-raised at the join
                    box["exc"] = e
            th = threading.Thread(target=run, name=name, daemon=True)
            th.start()
            bg[name] = (th, box)
        if pid in ("C02", "C03", "C04"):
            from checks import c08
            _spawn("streamsrv", lambda: c08.satellite(v, pid, tier, seed))
        if pid == "C05":
            import httpclose
            _spawn("httpclose", lambda: httpclose.satellite(v, pid, tier, seed))
        if pid in ("C01", "C02", "C03", "C05"):
            # the legacy HTTP+SSE transport (SSESat.tla): the exhaustive design runs belong to C01 / C05 in the quick tier
            import ssesat
            _spawn("ssesat", lambda: ssesat.satellite(v, pid, tier, seed, design=(tier == "thorough" or pid in ("C01", "C05"))))
        if pid == "C03":
            import fanout
            _spawn("fanout", lambda: fanout.satellite(v, pid, tier, seed))
    def _join(name):
        th, box = bg[name]
        th.join()
        if "exc" in box:
            raise box["exc"]
        return box.get("res")
    nrand = 0 if replay else (300 if tier == "quick" else 3000)
    obs, orows, gout = conncheck.run_scenarios(pid, rows, seed, nrand)
    traces = conncheck.judge(v, pid, obs, orows, {r["id"]: r for r in rows})
    conncheck.coverage(v, traces)
    csst = [r for r in orows if r.get("ev") == "step" and r.get("op") == "cs"]
    v.cov["lockstep_critical_sections_replayed"] = sum(1 for r in csst if r.get("applied"))
    v.cov["lockstep_critical_sections_not_applicable"] = sum(1 for r in csst if not r.get("applied"))
    if not replay:
        conncheck.strict(v, orows)
        if pid in ("C01", "C04", "C05"):
            conncheck.run_pair(v, pid, tier, seed)
            v.cov["rule"] += "; plus every application-level script up to the bound on a real client/server pair (PairEnv.tla)"
        if pid == "C05":
            # a 2026-07-28 client with listen streams (Subscribe, list-changed), failing writes and vanishing peers (PairSub.tla)
            import pairsub
            pairsub.run_pairsub(v, pid, tier, seed)
        if pid == "C05" or (pid == "C01" and tier == "thorough"):
            conncheck.repo_corpus(v, pid, tier)
            v.cov["rule"] += "; plus every critical section of every connection created by the repository's own tests, judged by ConnSnap.tla"
        if pid == "C01":
            import wirecheck
            wrows = wirecheck.run_wire(v, tier, seed, part="C01")
            v.cov["evaluations"] += len(wrows)
            v.cov["distinct_nontrivial"] += len(wrows)
            v.cov["rule"] += "; plus the reply framings enumerated by TLC (Wire.tla: every ordered partition of the responses to 1-3 outstanding calls, optionally with a notification and a call to the SDK side, into single messages and JSON-RPC arrays), each run on a real ClientSession and ServerSession over IOTransport against a raw scripted peer"
        if pid == "C03":
            import wirecheck
            wrows = wirecheck.run_wire(v, tier, seed, only_order=True)
            v.cov["evaluations"] += len(wrows)
            v.cov["rule"] += "; plus every JSON-RPC batch composition enumerated by TLC (Wire.tla, incl. all notification/call batches of 4-6 members), each run byte-level on a real server and judged for in-order handling"
        if pid == "C02":
            import wirecheck
            wrows = wirecheck.run_wire(v, tier, seed)
            v.cov["evaluations"] += len(wrows)
            v.cov["distinct_nontrivial"] += sum(1 for r in wrows if r["c"]["t"] == "batch" or r["c"]["hasId"])
            v.cov["rule"] += "; plus the complete shape table and batch compositions enumerated by TLC (Wire.tla), each run byte-level on a real server"
        if pid in ("C02", "C03", "C04"):
            _join("streamsrv")
            v.cov["rule"] += "; plus the streamable-HTTP server transport: gated races, a transition-cover sample of the StreamSrv.tla seam graph and seeded random scenarios on a real StreamableHTTPHandler, judged by the %s clauses of StreamSrvMon" % pid
        if pid == "C05":
            import httpclose
            htr = _join("httpclose")
            v.cov["evaluations"] += sum(len(httpclose.steps_of_trace(t)) for (_, _, t) in htr)
            v.cov["distinct_nontrivial"] += len(htr)
            v.cov["rule"] += ("; plus the streamable-HTTP shutdown machinery (HttpClose.tla): transition cover of its seam graphs, -simulate "
                              "histories, hand-written races and seeded random scripts on a real Client/StreamableClientTransport against a "
                              "real Server/StreamableHTTPHandler, judged by the C05.Http* clauses of HttpCloseMon")
        if pid in ("C01", "C02", "C03", "C05"):
            # the legacy HTTP+SSE transport (SSESat.tla): the exhaustive design runs belong to C01 / C05 in the quick tier
            _join("ssesat")
            v.cov["rule"] += "; plus the legacy HTTP+SSE transport: transition cover of the SSESat.tla seam graphs, TLC-simulated histories, corner and seeded random scripts on a real SSEHandler + SSEClientTransport pair, judged by the %s.Sse* clauses of SSESatMon" % pid
        if pid == "C03":
            _join("fanout")
            v.cov["rule"] += "; plus the fan-out satellite (Fanout.tla): programs of fan-out notifications (AddRoots/RemoveRoots, ResourceUpdated), per-session notifications (NotifyProgress, Log) and calls executed by one goroutine over 2-3 real sessions, with messages slow to leave and slow notification handlers, judged per session by the C03.Fanout* clauses of FanoutMon"
    for tid, start, trows in traces[:3]:
        v.sample({"trace": tid, "side": trows[0].get("side"), "steps": conncheck.steps_of(trows)})
    return v.finish()
