"""C12 — HTTP preconditions hold before dispatch; the SDK client always satisfies them
(DESIGN.md section 6, C12; pattern P1, two decision tables).

(a) HttpGate:     TLC enumerates abstract POST requests (HttpGate.tla: every request at most K dimensions away from the
                  well-formed request of the handler, plus a coarse all-faults product), checks the code-shaped
                  Expected against the property (leads) and exports the cases; the Go harness runs each against the real
                  StreamableHTTPHandler (stateful, stateless) and SSEHandler; HttpGateMon judges the real outcomes.
(b) HeaderMirror: TLC enumerates (schema shape x value class), checks Agreement on the transcription (leads) and exports
                  the cases; the Go harness drives the real Client / StreamableClientTransport through a wire-faithful
                  in-process RoundTripper into the real stateless handler; HeaderMirrorMon judges the real outcomes.
"""
import collections, json, os, re
import vlib

PID = "C12"
GATE_K = {"quick": 3, "thorough": 5}
GATE_REPS = {"quick": 2, "thorough": 2}
MIRROR_REPS = {"quick": 1, "thorough": 4}
HARNESS = ["mcp/c12_httpgate_test.go"]
DIMS = ["listener", "host", "ctype", "accept", "body", "vhdr", "meta", "mm", "mn", "mp", "msg"]


def gate_sig(e, first, cls, inv):
    o = e["o"]
    if inv == "Sound":
        got = "reached"
    else:
        got = "status=%d" % o["status"] + (",code=%d" % o["code"] if o["code"] else "")
    return "gate:%s=%s:%s" % (first, cls, got)


def mirror_value_name(c):
    return "empty-string" if (c["ty"], c["val"]) == ("string", "empty") else "%s/%s" % (c["ty"], c["val"])


def mirror_sig(e):
    o = e["o"]
    if not o["sibok"] or not o["own"]:
        # a header carries the value of another parameter (or a sibling was refused / altered)
        return "mirror:depth=%d,siblings=%d:%s" % (e["c"]["depth"], e["c"]["nsib"], "crossed" if o["sent"] else "not-sent")
    if not o["sent"]:
        how = "not-sent"
    elif o["code"] == -32020:
        how = "rejected"
    elif o["accepted"] and not o["same"]:
        how = "altered"
    else:
        how = "failed" + (",code=%d" % o["code"] if o["code"] else "")
    return "mirror:value=%s:%s" % (mirror_value_name(e["c"]), how)


def sdk_panic(gout):
    """True when the go test output shows a panic raised from SDK (non-test) code: the first frame below the
    runtime's own that has a source position lies in the module, not in a _test.go / harness file."""
    if "panic:" not in gout:
        return False
    tail = gout.split("panic:", 1)[1]
    for line in tail.splitlines():
        m = re.match(r"^\s+(/\S+\.go):\d+", line)
        if not m:
            continue
        path = m.group(1)
        if "/src/runtime/" in path or "/src/testing/" in path or "/src/internal/" in path:
            continue
        return ("/mcp/" in path or "/internal/" in path or "/jsonrpc" in path) and not path.endswith("_test.go")
    return False


def key(c):
    return json.dumps(c, sort_keys=True)


def run_go(test, cases_path, obs_path, seed, reps, timeout):
    rc, gout, wall = vlib.go_test("mcp", "^%s$" % test, HARNESS, timeout=timeout,
                                  env={"VERIF_IN": cases_path, "VERIF_OUT": obs_path, "VERIF_SEED": seed, "VERIF_REPS": reps})
    vlib.go_must_build(rc, gout, PID)
    return rc, gout, wall


def slim(rows, path, okeys):
    vlib.write_ndjson(path, [{"c": r["c"], "o": {k: r["o"][k] for k in okeys}} for r in rows])


def run(tier, seed, replay):
    v = vlib.Verdict(PID, tier, seed)
    v.assumptions = [
        "requests are handed to handler.ServeHTTP in process (httptest recorder / pipe-backed ResponseWriter); the listener "
        "address is injected through http.LocalAddrContextKey instead of a real socket",
        "'observed by the MCP server' = a receiving middleware or a tool/notification handler of the server saw the message; "
        "absence is decided after testing/synctest.Wait() (everything the request started is durably blocked)",
        "part (b): the RoundTripper serialises the client's request with Request.Write, refuses field values net/http's "
        "Transport refuses, and parses it back with http.ReadRequest, so the server sees what an HTTP/1.1 hop delivers",
        "streamable handlers run with MaxRequestBodyBytes=4096; abstract classes are concretised with seeded variants",
    ]
    out = vlib.outdir(PID)
    rep = json.load(open(replay))["replay"] if replay else None
    if not replay:
        for f in os.listdir(out):  # violation files of earlier runs
            if f.startswith("violation-"):
                os.unlink(os.path.join(out, f))
    do_gate = not rep or rep.get("table") == "gate"
    do_mirror = not rep or rep.get("table") == "mirror"
    nworkers = max(1, min(4, vlib.NCPU))

    # ------------------------------------------------------------------ (a) model + cases
    K = GATE_K[tier]
    cfg = open(os.path.join(vlib.SPEC, "HttpGate.cfg")).read().replace("K = 3", "K = %d" % K)
    res = vlib.run_tlc("HttpGate", "HttpGate_run.cfg", extra_files={"HttpGate_run.cfg": cfg}, workers=nworkers,
                       timeout=900, heap_gb=4 if tier == "quick" else 8)
    vlib.tlc_must_pass(res, "HttpGate")
    if not res.ok:
        raise vlib.MachineryError("HttpGate design check failed: %s\n%s" % (res.violation, res.stdout[-2000:]))
    grow = [p for p in res.printed if isinstance(p, dict) and "gatecase" in p]
    if len({key(p["gatecase"]) for p in grow}) != len(grow) or not grow:
        raise vlib.MachineryError("HttpGate exported %d cases with duplicates or none" % len(grow))
    v.add_tlc("HttpGate(K=%d: tree of partial requests; Expected vs Holds on every leaf)" % K, res)
    # vacuity: every fault is the first fault somewhere, every status / code of the table occurs, every handler is reached
    firsts = collections.Counter(p["first"] for p in grow)
    exps = collections.Counter((p["exp"]["status"], p["exp"]["code"]) for p in grow)
    reach = {p["gatecase"]["kind"] for p in grow if p["exp"]["reach"] == "yes"}
    need_first = {"host", "ctype", "accept", "size", "body", "version", "mirrorver", "mm", "mn", "mp", "none"}
    need_exp = {(403, 0), (415, 0), (413, 0), (400, 0), (400, -32020), (400, -32022), (400, -32602), (200, 0), (202, 0)}
    if need_first - set(firsts) or need_exp - set(exps) or reach != {"stateful", "stateless", "sse"}:
        raise vlib.MachineryError("HttpGate vacuity: missing %s %s %s" % (need_first - set(firsts), need_exp - set(exps), reach))
    gate_leads = {key(p["gatecase"]): p for p in grow if p["lead"]}
    gate_info = {key(p["gatecase"]): p for p in grow}

    # ------------------------------------------------------------------ (b) model + cases
    wd = vlib.scratch("tlc-")
    mres = vlib.run_tlc("HeaderMirror", "HeaderMirror.cfg", workdir=wd, workers=1, timeout=600)
    vlib.tlc_must_pass(mres, "HeaderMirror")
    if not mres.ok:
        raise vlib.MachineryError("HeaderMirror design check failed: " + (mres.violation or mres.stdout[-2000:]))
    minfo = [p for p in mres.printed if isinstance(p, dict) and "cases" in p][0]
    v.add_tlc("HeaderMirror(design: encode/decode facts; Agreement on the transcription -> leads)", mres)
    mcases = vlib.read_ndjson(os.path.join(wd, "mirror_cases.ndjson"))
    mirror_leads = {key(c) for c in vlib.read_ndjson(os.path.join(wd, "mirror_leads.ndjson"))}
    if len(mcases) != minfo["cases"]:
        raise vlib.MachineryError("HeaderMirror exported %d of %d cases" % (len(mcases), minfo["cases"]))
    # decision tables: one "state" per abstract case (the TLC runs above add their own counts)
    v.cov["states"] += len(mcases)
    v.cov["transitions"] += len(mcases)

    gcases = [p["gatecase"] for p in grow]
    greps, mreps = GATE_REPS[tier], MIRROR_REPS[tier]
    if rep:
        greps = mreps = 5
        gcases = [rep["c"]] if do_gate else []
        mcases = [rep["c"]] if do_mirror else []

    # ------------------------------------------------------------------ replay on the real code
    grows, mrows = [], []
    if do_gate:
        gin, gobs = os.path.join(out, "gate_cases.ndjson"), os.path.join(out, "gate_obs.ndjson")
        vlib.write_ndjson(gin, gcases)
        rc, gout, wall = run_go("TestVerif_C12Gate", gin, gobs, seed, greps, 1500)
        if rc != 0:
            if sdk_panic(gout):
                v.violation("gate:panic", "an HTTP handler panicked while serving a generated request", {"table": "gate", "output": gout[-3000:]})
                return v.finish()
            raise vlib.MachineryError("C12 gate harness failed:\n" + gout[-3000:])
        grows = vlib.read_ndjson(gobs)
        if len(grows) != len(gcases) * greps:
            raise vlib.MachineryError("gate harness ran %d of %d requests" % (len(grows), len(gcases) * greps))
    if do_mirror:
        min_, mobs = os.path.join(out, "mirror_cases.ndjson"), os.path.join(out, "mirror_obs.ndjson")
        vlib.write_ndjson(min_, mcases)
        rc, gout, wall = run_go("TestVerif_C12Mirror", min_, mobs, seed, mreps, 1500)
        if rc != 0:
            if sdk_panic(gout):
                v.violation("mirror:panic", "client or server panicked during a generated tools/call", {"table": "mirror", "output": gout[-3000:]})
                return v.finish()
            raise vlib.MachineryError("C12 mirror harness failed:\n" + gout[-3000:])
        mrows = vlib.read_ndjson(mobs)
        if len(mrows) != len(mcases) * mreps:
            raise vlib.MachineryError("mirror harness ran %d of %d calls" % (len(mrows), len(mcases) * mreps))

    # ------------------------------------------------------------------ judge (TLA+ monitors)
    gfail_lines, mfail_lines = set(), set()
    if grows:
        gslim = os.path.join(out, "gate_obs_mon.ndjson")
        slim(grows, gslim, ("status", "code", "reached"))
        fails, r1 = vlib.run_monitor("HttpGateMon", "HttpGateMon.cfg", gslim, timeout=1500, heap_gb=6 if tier == "quick" else 12)
        v.add_tlc("HttpGateMon", r1)
        by_line = collections.defaultdict(dict)
        for f in fails:
            by_line[f["line"]][f["monfail"]] = f
        for line in sorted(by_line):
            e = grows[line - 1]
            fs = by_line[line]
            if "Sound" in fs or "Mandated" in fs:
                inv = "Sound" if "Sound" in fs else "Mandated"
                gfail_lines.add(line)
                what = ("a request violating precondition '%s' was observed by the MCP server" if inv == "Sound"
                        else "a request violating precondition '%s' did not get the mandated status / error") % fs[inv]["first"]
                v.violation(gate_sig(e, fs[inv]["first"], fs[inv]["cls"], inv), what + " (real %s handler: status %d, code %d, reached %s)"
                            % (e["c"]["kind"], e["o"]["status"], e["o"]["code"], e["o"]["reached"]),
                            {"table": "gate", "c": e["c"], "o": e["o"], "conc": e.get("conc")})
            elif "drift" in fs:
                x = gate_info.get(key(e["c"]), {}).get("exp")
                v.drift.append("gate outcome differs from HttpGateDefs!Expected: %s got status=%d code=%d reached=%s, expected %s"
                               % (" ".join("%s=%s" % (d, e["c"][d]) for d in ["kind"] + DIMS), e["o"]["status"], e["o"]["code"], e["o"]["reached"], x))
        # leads of the model must show up on the real code
        failed_cases = {key(grows[l - 1]["c"]) for l in gfail_lines}
        ran = {key(r["c"]) for r in grows}
        for k, p in sorted(gate_leads.items()):
            if k in ran and k not in failed_cases:
                v.drift.append("model lead not reproduced on the real handlers: first=%s cls=%s %s" % (p["first"], p["cls"], k))
    if mrows:
        mslim = os.path.join(out, "mirror_obs_mon.ndjson")
        slim(mrows, mslim, ("accepted", "same", "code", "hdr", "own", "sibok"))
        fails, r2 = vlib.run_monitor("HeaderMirrorMon", "HeaderMirrorMon.cfg", mslim, timeout=900)
        v.add_tlc("HeaderMirrorMon", r2)
        by_line = collections.defaultdict(dict)
        for f in fails:
            by_line[f["line"]][f["monfail"]] = f
        for line in sorted(by_line):
            e = mrows[line - 1]
            if "Agreement" in by_line[line]:
                mfail_lines.add(line)
                v.violation(mirror_sig(e), "the SDK client's own tools/call for a schema-valid %s argument (class %s, annotation depth %d) "
                            "with %d annotated sibling(s) was not accepted unaltered by the SDK server, or a header did not carry its own parameter's value "
                            "(code %d, header form '%s', own=%s, siblings ok=%s)"
                            % (e["c"]["ty"], e["c"]["val"], e["c"]["depth"], e["c"]["nsib"], e["o"]["code"], e["o"]["hdr"], e["o"]["own"], e["o"]["sibok"]),
                            {"table": "mirror", "c": e["c"], "o": e["o"], "conc": e.get("conc")})
            elif "drift" in by_line[line]:
                v.drift.append("mirror outcome differs from HeaderMirrorDefs!Expected: %s got %s" % (key(e["c"]), key(e["o"])))
        failed_cases = {key(mrows[l - 1]["c"]) for l in mfail_lines}
        ran = {key(r["c"]) for r in mrows}
        for k in sorted(mirror_leads):
            if k in ran and k not in failed_cases:
                v.drift.append("model lead not reproduced by the real client/server: " + k)

    # ------------------------------------------------------------------ evidence
    def nondefault(c):
        info = gate_info.get(key(c))
        return bool(info) and (info["first"] != "none" or info["exp"]["reach"] != "yes" or c["body"] != "ok")
    v.cov["traces_validated_against_impl"] = len(grows) + len(mrows)
    v.cov["evaluations"] = len(grows) + len(mrows)
    v.cov["distinct_nontrivial"] = len({key(r["c"]) for r in grows if nondefault(r["c"])}) + \
        len({key(r["c"]) for r in mrows if r["c"]["val"] not in ("ascii", "small", "true")})
    v.cov["rule"] = ("gate: every abstract POST request at most K=%d dimensions (of 11) away from the handler's well-formed request, "
                     "plus the 2^11 default/representative-fault product, on stateful, stateless and SSE handlers, x%d seeded "
                     "concretisations; mirror: complete (depth 1..8 x type x header-name x 0..2 annotated siblings x value class) table x%d seeded "
                     "concretisations; non-trivial = at least one faulty / non-default class (gate) or a value class other than "
                     "plain ASCII / small / true (mirror)" % (K, greps, mreps))
    v.cov["exhaustive"] = False  # the gate product is K-bounded (the mirror table is complete)
    v.cov["gate"] = {"K": K, "cases": len(gcases), "requests": len(grows), "reached": sum(1 for r in grows if r["o"]["reached"]),
                     "first_fault": dict(firsts) if not rep else {}, "model_leads": len(gate_leads),
                     "status": dict(collections.Counter(str(r["o"]["status"]) for r in grows))}
    v.cov["mirror"] = {"cases": len(mcases), "calls": len(mrows), "accepted": sum(1 for r in mrows if r["o"]["accepted"]),
                       "model_leads": len(mirror_leads), "header_forms": dict(collections.Counter(r["o"]["hdr"] for r in mrows)),
                       "exhaustive": not rep}
    for r in (grows[:: max(1, len(grows) // 3)][:3] + mrows[:: max(1, len(mrows) // 3)][:3]):
        v.sample(r)
    return v.finish()
