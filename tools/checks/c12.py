"""C12 — HTTP preconditions hold before dispatch; the SDK client always satisfies them
(DESIGN.md section 6, C12; pattern P1, two decision tables).

(a) HttpGate:     TLC enumerates abstract POST requests (HttpGate.tla: every request at most K dimensions away from the
                  well-formed request of the handler, plus a coarse all-faults product), checks the code-shaped
                  Expected against the property (leads) and exports the cases; the Go harness runs each against the real
                  StreamableHTTPHandler (stateful, stateless) and SSEHandler; HttpGateMon judges the real outcomes.
(b) HeaderMirror: TLC enumerates (schema shape x value class x client-side history), checks the history machine's design
                  facts and Agreement on the transcription (leads) and exports the cases; the Go harness plays each history
                  (ListTools, ttl expiry on the synctest clock, the server replacing / moving the tool, list_changed) on the
                  real Client / StreamableClientTransport and the real stateless handler behind a wire-faithful in-process
                  RoundTripper and then makes the call; HeaderMirrorMon judges the real outcomes.
    HeaderMirrorHist: the history machine as a behaviour spec (listing split into ListSent / ListAnswered / ListDelivered
                  per page, ToolChanged, NotifiedDelivered, the cache's generation counter): TLC enumerates every history of
                  <= MaxLen steps, checks the design facts on each and exports the histories in which something falls inside
                  a listing (the RoundTripper holds the tools/list request / its answer and the list_changed notification
                  until the history says so).  HeaderMirrorHist_coldnobump.cfg ("invalidate leaves the generation alone on
                  an empty cache") must fail: sensitivity witness.
(a) and (b) run side by side (two threads; every TLC / go test is a process of its own).
"""
import collections, concurrent.futures, json, os, re
import vlib

PID = "C12"
GATE_K = {"quick": 3, "thorough": 5}
GATE_REPS = {"quick": 2, "thorough": 2}
MIRROR_REPS = {"quick": 1, "thorough": 1}
MIRROR_BASE_REPS = {"quick": 1, "thorough": 4}     # the baseline history (listed just now) x complete table
MIRROR_HIST = {"quick": (3, "FALSE"), "thorough": (4, "TRUE")}   # HistLen, FullCross
# HeaderMirrorHist: MaxLen (facts on every history), RaceLen / NoticeLen / DriftLen (histories with something inside a listing that
# are exported: informed / informed by notice / any)
RACE = {"quick": (6, 5, 6, 3), "thorough": (8, 7, 8, 4)}
BASELINE = {"ttl": "none", "page": "first", "sub": False, "steps": ["list"]}
HARNESS = ["mcp/c12_httpgate_test.go"]
DIMS = ["listener", "host", "ctype", "accept", "body", "vhdr", "meta", "mm", "mn", "mp", "msg"]


def gate_sig(e, first, cls, inv):
    o = e["o"]
    if inv == "Sound":
        got = "reached"
    else:
        got = "status=%d" % o["status"] + (",code=%d" % o["code"] if o["code"] else "")
    return "gate:%s=%s:%s" % (first, cls, got)


def mirror_value_name(c):
    return "empty-string" if (c["ty"], c["val"]) == ("string", "empty") else "%s/%s" % (c["ty"], c["val"])


def hist_name(h):
    return "%s/%s%s/%s" % (h["ttl"], h["page"], "+sub" if h["sub"] else "", ">".join(h["steps"]) or "-")


def row_of(c):
    return {k: c[k] for k in ("depth", "ty", "val", "hname", "nsib")}


def mirror_how(e):
    o = e["o"]
    if not o["sent"]:
        return "not-sent"
    if o["code"] == -32020:
        return "rejected"
    if o["accepted"] and not o["same"]:
        return "altered"
    if o["accepted"]:
        return "crossed"
    return "failed" + (",code=%d" % o["code"] if o["code"] else "")


def mirror_sig(e, src=None):
    """src: HeaderMirrorDefs!Source of the history when the failure is attributable to the history (the same
    schema / value row is accepted under the baseline history), None otherwise."""
    o = e["o"]
    if src:
        # where the definition the client was given last sits, and which definition the request shows
        return "mirror:history=def@%s-page,%s,%s%s%s:%s,via=%s" % (src["page"], src["age"], src["rev"], ",orphan" if src["orphan"] else "",
                                                               ",told" if src.get("told") else "", mirror_how(e), o["via"])
    if not o["sibok"] or not o["own"]:
        # a header carries the value of another parameter (or a sibling was refused / altered)
        return "mirror:depth=%d,siblings=%d:%s" % (e["c"]["depth"], e["c"]["nsib"], "crossed" if o["sent"] else "not-sent")
    if not o["sent"]:
        how = "not-sent"
    elif o["code"] == -32020:
        how = "rejected"
    elif o["accepted"] and not o["same"]:
        how = "altered"
    else:
        how = "failed" + (",code=%d" % o["code"] if o["code"] else "")
    return "mirror:value=%s:%s" % (mirror_value_name(e["c"]), how)


def sdk_panic(gout):
    """True when the go test output shows a panic raised from SDK (non-test) code: the first frame below the
    runtime's own that has a source position lies in the module, not in a _test.go / harness file."""
    if "panic:" not in gout:
        return False
    tail = gout.split("panic:", 1)[1]
    for line in tail.splitlines():
        m = re.match(r"^\s+(/\S+\.go):\d+", line)
        if not m:
            continue
        path = m.group(1)
        if "/src/runtime/" in path or "/src/testing/" in path or "/src/internal/" in path:
            continue
        return ("/mcp/" in path or "/internal/" in path or "/jsonrpc" in path) and not path.endswith("_test.go")
    return False


def key(c):
    return json.dumps(c, sort_keys=True)


def run_go(test, cases_path, obs_path, seed, reps, timeout):
    rc, gout, wall = vlib.go_test("mcp", "^%s$" % test, HARNESS, timeout=timeout, parallel=4,
                                  env={"VERIF_IN": cases_path, "VERIF_OUT": obs_path, "VERIF_SEED": seed, "VERIF_REPS": reps})
    vlib.go_must_build(rc, gout, PID)
    return rc, gout, wall


def slim(rows, path, okeys):
    vlib.write_ndjson(path, [{"c": r["c"], "o": {k: r["o"][k] for k in okeys}} for r in rows])


class _Stop(Exception):
    """a pipeline found something that ends the run with a violation (an SDK panic)"""
    def __init__(self, sig, desc, obj):
        self.args3 = (sig, desc, obj)


def run(tier, seed, replay):
    v = vlib.Verdict(PID, tier, seed)
    v.assumptions = [
        "requests are handed to handler.ServeHTTP in process (httptest recorder / pipe-backed ResponseWriter); the listener "
        "address is injected through http.LocalAddrContextKey instead of a real socket",
        "'observed by the MCP server' = a receiving middleware or a tool/notification handler of the server saw the message; "
        "absence is decided after testing/synctest.Wait() (everything the request started is durably blocked)",
        "part (b): the RoundTripper serialises the client's request with Request.Write, refuses field values net/http's "
        "Transport refuses, and parses it back with http.ReadRequest, so the server sees what an HTTP/1.1 hop delivers",
        "streamable handlers run with MaxRequestBodyBytes=4096; abstract classes are concretised with seeded variants",
        "part (b) histories: client, server and wire run in one testing/synctest bubble, so a complete ListTools takes no time "
        "(all its pages have the same age), ttlMs (1 s / 2.5 s / 30 s) expires only in 'wait' steps (ttl, ttl+1ms or 3*ttl) and a "
        "'change' / 'shrink' costs 50 ms (the server's 10 ms list_changed debounce); 'change' = the server replaces the tool with "
        "every x-mcp-header renamed, 'shrink' = the server removes the page of tools listed before it",
        "part (b) split listings: the RoundTripper holds a tools/list request of the application's background listing before it "
        "reaches the server ('send' .. 'answer'), holds the complete answer ('answer' .. 'deliver') and keeps the "
        "notifications/tools/list_changed events of the subscriptions/listen stream back until 'notify'; only the two pages the model "
        "follows are held (no cursor; the cursor after the last first-page filler) - pages after the tools' page pass freely and are "
        "not modelled; a step that finds nothing to act on in the real run (possible only when the real cache differs from the "
        "model's) is skipped and noted in conc.history",
        "part (b) scope: Agreement is demanded when the client is Informed: (by answer) it listed the tool, was not told since that "
        "the list changed, and the last tools/list answer it holds for the tool carries the definition the server enforces; or (by "
        "notice) it has handled the list_changed notification for the server's present tool set, the application has then listed the "
        "tools again (a listing started after that notification returned every page) and is not listing at the moment of the call. A "
        "client that never listed the tool, whose cache was cleared by list_changed, or that holds only an outdated definition sends "
        "no usable Mcp-Param-* header (lookupTool: 'nil if no such tool has been seen'; the SDK learns schemas from ListTools only) - "
        "that is modelled (ExpectedSet) and compared as drift, not judged",
    ]
    out = vlib.outdir(PID)
    rep = json.load(open(replay))["replay"] if replay else None
    if not replay:
        for f in os.listdir(out):  # violation files of earlier runs
            if f.startswith("violation-"):
                os.unlink(os.path.join(out, f))
    do_gate = not rep or rep.get("table") == "gate"
    do_mirror = not rep or rep.get("table") == "mirror"
    nworkers = max(1, min(4, vlib.NCPU))
    K = GATE_K[tier]
    hist_len, full_cross = MIRROR_HIST[tier]
    max_len, race_len, notice_len, drift_len = RACE[tier]
    greps, mreps = (5, 40) if rep else (GATE_REPS[tier], MIRROR_REPS[tier])
    # (replay: a lead the model leaves open - which cached page lookupTool meets first - shows in ~1 of 8 calls)

    # ------------------------------------------------------------------ (a) model + cases, real code, monitor
    def part_a():
        a = {"tlc": []}
        cfg = open(os.path.join(vlib.SPEC, "HttpGate.cfg")).read().replace("K = 3", "K = %d" % K)
        res = vlib.run_tlc("HttpGate", "HttpGate_run.cfg", extra_files={"HttpGate_run.cfg": cfg}, workers=nworkers,
                           timeout=900, heap_gb=4 if tier == "quick" else 8)
        vlib.tlc_must_pass(res, "HttpGate")
        if not res.ok:
            raise vlib.MachineryError("HttpGate design check failed: %s\n%s" % (res.violation, res.stdout[-2000:]))
        grow = [p for p in res.printed if isinstance(p, dict) and "gatecase" in p]
        if len({key(p["gatecase"]) for p in grow}) != len(grow) or not grow:
            raise vlib.MachineryError("HttpGate exported %d cases with duplicates or none" % len(grow))
        a["tlc"].append(("HttpGate(K=%d: tree of partial requests; Expected vs Holds on every leaf)" % K, res))
        # vacuity: every fault is the first fault somewhere, every status / code of the table occurs, every handler is reached
        firsts = collections.Counter(p["first"] for p in grow)
        exps = collections.Counter((p["exp"]["status"], p["exp"]["code"]) for p in grow)
        reach = {p["gatecase"]["kind"] for p in grow if p["exp"]["reach"] == "yes"}
        need_first = {"host", "ctype", "accept", "size", "body", "version", "mirrorver", "mm", "mn", "mp", "none"}
        need_exp = {(403, 0), (415, 0), (413, 0), (400, 0), (400, -32020), (400, -32022), (400, -32602), (200, 0), (202, 0)}
        if need_first - set(firsts) or need_exp - set(exps) or reach != {"stateful", "stateless", "sse"}:
            raise vlib.MachineryError("HttpGate vacuity: missing %s %s %s" % (need_first - set(firsts), need_exp - set(exps), reach))
        a["firsts"] = firsts
        a["gate_leads"] = {key(p["gatecase"]): p for p in grow if p["lead"]}
        a["gate_info"] = {key(p["gatecase"]): p for p in grow}
        gcases = [p["gatecase"] for p in grow]
        if rep:
            gcases = [rep["c"]] if do_gate else []
        a["gcases"], a["grows"], a["fails"] = gcases, [], []
        if not do_gate:
            return a
        gin, gobs = os.path.join(out, "gate_cases.ndjson"), os.path.join(out, "gate_obs.ndjson")
        vlib.write_ndjson(gin, gcases)
        rc, gout, wall = run_go("TestVerif_C12Gate", gin, gobs, seed, greps, 1500)
        if rc != 0:
            if sdk_panic(gout):
                raise _Stop("gate:panic", "an HTTP handler panicked while serving a generated request", {"table": "gate", "output": gout[-3000:]})
            raise vlib.MachineryError("C12 gate harness failed:\n" + gout[-3000:])
        grows = vlib.read_ndjson(gobs)
        if len(grows) != len(gcases) * greps:
            raise vlib.MachineryError("gate harness ran %d of %d requests" % (len(grows), len(gcases) * greps))
        a["grows"] = grows
        if grows:
            gslim = os.path.join(out, "gate_obs_mon.ndjson")
            slim(grows, gslim, ("status", "code", "reached"))
            fails, r1 = vlib.run_monitor("HttpGateMon", "HttpGateMon.cfg", gslim, timeout=1500, heap_gb=6 if tier == "quick" else 12)
            a["tlc"].append(("HttpGateMon", r1))
            a["fails"] = fails
        return a

    # ------------------------------------------------------------------ (b) model + cases, real code, monitor
    def hist_tlc(cfgname, whatif):
        text = open(os.path.join(vlib.SPEC, cfgname)).read()
        text = text.replace("MaxLen = 6", "MaxLen = %d" % max_len).replace("RaceLen = 5", "RaceLen = %d" % race_len) \
                   .replace("NoticeLen = 6", "NoticeLen = %d" % notice_len).replace("DriftLen = 3", "DriftLen = %d" % (0 if whatif else drift_len))
        if "MaxLen = %d" % max_len not in text or "NoticeLen = %d" % notice_len not in text:
            raise vlib.MachineryError("HeaderMirrorHist cfg template changed: " + cfgname)
        if whatif:
            text = text.replace("CONSTRAINT Export\n", "")
        return vlib.run_tlc("HeaderMirrorHist", "HeaderMirrorHist_run.cfg", extra_files={"HeaderMirrorHist_run.cfg": text},
                            workers=nworkers, timeout=900, heap_gb=4 if tier == "quick" else 8)

    def part_b(pool):
        b = {"tlc": []}
        wd = vlib.scratch("tlc-")
        mcfg = "CONSTANT HistLen = %d\nCONSTANT FullCross = %s\n" % (hist_len, full_cross)
        f_hist = pool.submit(hist_tlc, "HeaderMirrorHist.cfg", False)
        f_what = pool.submit(hist_tlc, "HeaderMirrorHist_coldnobump.cfg", True)
        mres = vlib.run_tlc("HeaderMirror", "HeaderMirror_run.cfg", workdir=wd, workers=1, timeout=600,
                            extra_files={"HeaderMirror_run.cfg": mcfg})
        vlib.tlc_must_pass(mres, "HeaderMirror")
        if not mres.ok:
            raise vlib.MachineryError("HeaderMirror design check failed: " + (mres.violation or mres.stdout[-2000:]))
        minfo = [p for p in mres.printed if isinstance(p, dict) and "cases" in p][0]
        b["tlc"].append(("HeaderMirror(design: encode/decode facts, history machine facts for every history of <= %d steps; "
                         "Agreement on the transcription -> leads)" % hist_len, mres))
        mcases = vlib.read_ndjson(os.path.join(wd, "mirror_cases.ndjson"))
        b["mirror_leads"] = {key(c) for c in vlib.read_ndjson(os.path.join(wd, "mirror_leads.ndjson"))}
        b["mirror_certain"] = {key(c) for c in vlib.read_ndjson(os.path.join(wd, "mirror_certain.ndjson"))}
        hist_info = {key(h["hist"]): h for h in vlib.read_ndjson(os.path.join(wd, "mirror_hists.ndjson"))}
        race_rows = vlib.read_ndjson(os.path.join(wd, "mirror_racerows.ndjson"))
        if len(mcases) != minfo["cases"] or len(hist_info) != minfo["hists"] or len(race_rows) != 4:
            raise vlib.MachineryError("HeaderMirror exported %d of %d cases, %d of %d histories, %d race rows"
                                      % (len(mcases), minfo["cases"], len(hist_info), minfo["hists"], len(race_rows)))
        # the history machine as a behaviour spec: facts on every history of <= max_len steps, export of the racy ones
        hres = f_hist.result()
        vlib.tlc_must_pass(hres, "HeaderMirrorHist")
        if not hres.ok:
            raise vlib.MachineryError("HeaderMirrorHist design check failed: %s\n%s" % (hres.violation, hres.stdout[-3000:]))
        b["tlc"].append(("HeaderMirrorHist(every history of <= %d steps over {list, wait, change, shrink, notify, send, answer, deliver} "
                         "x ttl x page x subscription; design facts on each)" % max_len, hres))
        races = [p["racehist"] for p in hres.printed if isinstance(p, dict) and "racehist" in p]
        if len({key(h["hist"]) for h in races}) != len(races) or not races:
            raise vlib.MachineryError("HeaderMirrorHist exported %d histories with duplicates or none" % len(races))
        # sensitivity witness: without the generation bump on an empty cache the facts must fail
        wres = f_what.result()
        vlib.tlc_must_pass(wres, "HeaderMirrorHist what-if")
        if wres.ok or wres.violation not in ("FactInformedHoldsCurrent", "FactNoticeSuffices"):
            raise vlib.MachineryError("HeaderMirrorHist what-if (invalidate without a generation bump on an empty cache) did not "
                                      "fail as it must: ok=%s violation=%s" % (wres.ok, wres.violation))
        b["tlc"].append(("HeaderMirrorHist what-if coldnobump (sensitivity witness: the run must end with a violated fact, and does)", wres))
        b["whatif"] = wres.violation
        have = {key(c) for c in mcases}
        nrace = 0
        for hinfo in races:
            hist_info.setdefault(key(hinfo["hist"]), hinfo)
            for row in race_rows:
                c = dict(row, hist=hinfo["hist"])
                if key(c) not in have:
                    have.add(key(c))
                    mcases.append(c)
                    nrace += 1
        b["race"] = {"histories": len(races), "cases": nrace, "informed": sum(1 for h in races if h["informed"]),
                     "by_notice": sum(1 for h in races if h["bynotice"])}
        b["hist_info"] = hist_info
        # the baseline history first (a failure of a row under it is a failure of the value class, not of a history)
        mcases.sort(key=lambda c: (c["hist"] != BASELINE, not hist_info[key(c["hist"])]["named"]))
        # the baseline history is concretised more often: its extra repetitions are further input lines
        mrun = mcases + [c for c in mcases if c["hist"] == BASELINE] * (MIRROR_BASE_REPS[tier] - mreps)
        if rep:
            mcases = mrun = [rep["c"]] if do_mirror else []
        b["mcases"], b["mrun"], b["mrows"], b["fails"] = mcases, mrun, [], []
        if not do_mirror:
            return b
        min_, mobs = os.path.join(out, "mirror_cases.ndjson"), os.path.join(out, "mirror_obs.ndjson")
        vlib.write_ndjson(min_, mrun)
        rc, gout, wall = run_go("TestVerif_C12Mirror", min_, mobs, seed, mreps, 1500)
        if rc != 0:
            if sdk_panic(gout):
                raise _Stop("mirror:panic", "client or server panicked during a generated tools/call", {"table": "mirror", "output": gout[-3000:]})
            raise vlib.MachineryError("C12 mirror harness failed:\n" + gout[-3000:])
        mrows = vlib.read_ndjson(mobs)
        if len(mrows) != len(mrun) * mreps:
            raise vlib.MachineryError("mirror harness ran %d of %d calls" % (len(mrows), len(mrun) * mreps))
        b["mrows"] = mrows
        if mrows:
            mslim = os.path.join(out, "mirror_obs_mon.ndjson")
            slim(mrows, mslim, ("accepted", "same", "code", "hdr", "own", "sibok", "via"))
            fails, r2 = vlib.run_monitor("HeaderMirrorMon", "HeaderMirrorMon.cfg", mslim, timeout=900)
            b["tlc"].append(("HeaderMirrorMon", r2))
            b["fails"] = fails
        return b

    with concurrent.futures.ThreadPoolExecutor(max_workers=4) as pool:
        fa = pool.submit(part_a)
        fb = pool.submit(part_b, pool)
        try:
            a, b = fa.result(), fb.result()
        except _Stop as st:
            v.violation(*st.args3)
            return v.finish()
    for name, res in a["tlc"] + b["tlc"]:
        v.add_tlc(name, res)
    firsts, gate_leads, gate_info, gcases, grows = a["firsts"], a["gate_leads"], a["gate_info"], a["gcases"], a["grows"]
    mirror_leads, mirror_certain, hist_info = b["mirror_leads"], b["mirror_certain"], b["hist_info"]
    mcases, mrun, mrows = b["mcases"], b["mrun"], b["mrows"]
    # decision tables: one "state" per abstract case (the TLC runs above add their own counts)
    v.cov["states"] += len(mcases)
    v.cov["transitions"] += len(mcases)

    # ------------------------------------------------------------------ judge (verdicts of the TLA+ monitors)
    gfail_lines, mfail_lines = set(), set()
    if grows:
        by_line = collections.defaultdict(dict)
        for f in a["fails"]:
            by_line[f["line"]][f["monfail"]] = f
        for line in sorted(by_line):
            e = grows[line - 1]
            fs = by_line[line]
            if "Sound" in fs or "Mandated" in fs:
                inv = "Sound" if "Sound" in fs else "Mandated"
                gfail_lines.add(line)
                what = ("a request violating precondition '%s' was observed by the MCP server" if inv == "Sound"
                        else "a request violating precondition '%s' did not get the mandated status / error") % fs[inv]["first"]
                v.violation(gate_sig(e, fs[inv]["first"], fs[inv]["cls"], inv), what + " (real %s handler: status %d, code %d, reached %s)"
                            % (e["c"]["kind"], e["o"]["status"], e["o"]["code"], e["o"]["reached"]),
                            {"table": "gate", "c": e["c"], "o": e["o"], "conc": e.get("conc")})
            elif "drift" in fs:
                x = gate_info.get(key(e["c"]), {}).get("exp")
                v.drift.append("gate outcome differs from HttpGateDefs!Expected: %s got status=%d code=%d reached=%s, expected %s"
                               % (" ".join("%s=%s" % (d, e["c"][d]) for d in ["kind"] + DIMS), e["o"]["status"], e["o"]["code"], e["o"]["reached"], x))
        # leads of the model must show up on the real code
        failed_cases = {key(grows[l - 1]["c"]) for l in gfail_lines}
        ran = {key(r["c"]) for r in grows}
        for k, p in sorted(gate_leads.items()):
            if k in ran and k not in failed_cases:
                v.drift.append("model lead not reproduced on the real handlers: first=%s cls=%s %s" % (p["first"], p["cls"], k))
    if mrows:
        by_line = collections.defaultdict(dict)
        for f in b["fails"]:
            by_line[f["line"]][f["monfail"]] = f
        mfail_lines = {line for line in by_line if "Agreement" in by_line[line]}
        # rows (schema shape, value class) that fail under the baseline history: their failures elsewhere are not
        # attributed to the history
        base_failed = {key(row_of(mrows[l - 1]["c"])) for l in mfail_lines if mrows[l - 1]["c"]["hist"] == BASELINE}
        for line in sorted(by_line):
            e = mrows[line - 1]
            if "Agreement" in by_line[line]:
                h = e["c"]["hist"]
                info = hist_info.get(key(h))
                by_history = h != BASELINE and key(row_of(e["c"])) not in base_failed and info is not None
                why = ("the client had handled the list_changed notification for the server's present tool set and listed the tools again "
                       "afterwards" if by_history and info["src"].get("told") else
                       "the last tools/list answer the client obtained for the tool carries the definition the server enforces")
                v.violation(mirror_sig(e, info["src"] if by_history else None),
                            "the SDK client's own tools/call for a schema-valid %s argument (class %s, annotation depth %d) "
                            "with %d annotated sibling(s), made after the history [%s] (%s), was not accepted unaltered by the SDK server, or a "
                            "header did not carry its own parameter's value (code %d, header form '%s', own=%s, siblings ok=%s, request built "
                            "from definition: %s)"
                            % (e["c"]["ty"], e["c"]["val"], e["c"]["depth"], e["c"]["nsib"], hist_name(h), why, e["o"]["code"], e["o"]["hdr"],
                               e["o"]["own"], e["o"]["sibok"], e["o"]["via"]),
                            {"table": "mirror", "c": e["c"], "o": e["o"], "conc": e.get("conc")})
            elif "drift" in by_line[line]:
                v.drift.append("mirror outcome is not in HeaderMirrorDefs!ExpectedSet: %s got %s (%s)"
                               % (key(e["c"]), key(e["o"]), (e.get("conc") or {}).get("history")))
        failed_cases = {key(mrows[l - 1]["c"]) for l in mfail_lines}
        ran = {key(r["c"]) for r in mrows}
        for k in sorted(mirror_certain):
            if k in ran and k not in failed_cases:
                v.drift.append("model lead not reproduced by the real client/server: " + k)
        # leads that depend on a choice the model leaves open (which cached page lookupTool meets first): reproduced per history
        open_leads = collections.defaultdict(set)
        for k in mirror_leads - mirror_certain:
            if k in ran:
                open_leads[key(json.loads(k)["hist"])].add(k)
        for hk, ks in sorted(open_leads.items()):
            # (the open outcome shows in about 1 of 8 calls: with fewer than 40 chances its absence says nothing)
            if len(ks) >= 40 and not ks & failed_cases:
                v.drift.append("model lead (outcome left open by the model) not reproduced by the real client/server in any of %d "
                               "cases of history %s" % (len(ks), hist_name(json.loads(hk))))
        if not rep:
            # vacuity of the history dimension on the real code: every definition kind was seen on the wire, informed and
            # uninformed histories ran, a second list was answered from the cache and fetched again; split listings: requests and
            # answers were really held, notifications really kept back, and calls of clients informed by notice were accepted
            vias = collections.Counter(r["o"]["via"] for r in mrows)
            inf = collections.Counter(hist_info[key(r["c"]["hist"])]["informed"] for r in mrows)
            if not (vias["current"] and vias["stale"] and vias["none"] and inf[True] and inf[False]):
                raise vlib.MachineryError("HeaderMirror vacuity on the real code: via=%s informed=%s" % (dict(vias), dict(inf)))
            trails = " ".join((r.get("conc") or {}).get("history", "") for r in mrows if hist_info[key(r["c"]["hist"])].get("racy"))
            need = ["->sent:p1", "->sent:pN", "->ans:p1", "->ans:pN", "deliver->idle", "notify(1)", "notify(2)"]
            told_ok = sum(1 for r in mrows if hist_info[key(r["c"]["hist"])].get("bynotice") and hist_info[key(r["c"]["hist"])].get("racy")
                          and r["o"]["accepted"] and r["o"]["via"] == "current")
            skipped = trails.count("(nothing there") + trails.count("(listing in progress")
            if [n for n in need if n not in trails] or not told_ok:
                raise vlib.MachineryError("HeaderMirror vacuity of the split listings on the real code: missing %s, accepted calls of clients "
                                          "informed by notice after a race: %d" % ([n for n in need if n not in trails], told_ok))
            if skipped:
                v.drift.append("split listings: %d step(s) of generated histories found nothing to act on in the real run (the real "
                               "client's cache answered / missed where the model's did not)" % skipped)

    # ------------------------------------------------------------------ evidence
    def nondefault(c):
        info = gate_info.get(key(c))
        return bool(info) and (info["first"] != "none" or info["exp"]["reach"] != "yes" or c["body"] != "ok")
    v.cov["traces_validated_against_impl"] = len(grows) + len(mrows)
    v.cov["evaluations"] = len(grows) + len(mrows)
    v.cov["distinct_nontrivial"] = len({key(r["c"]) for r in grows if nondefault(r["c"])}) + \
        len({key(r["c"]) for r in mrows if r["c"]["val"] not in ("ascii", "small", "true") or r["c"]["hist"] != BASELINE})
    v.cov["rule"] = ("gate: every abstract POST request at most K=%d dimensions (of 11) away from the handler's well-formed request, "
                     "plus the 2^11 default/representative-fault product, on stateful, stateless and SSE handlers, x%d seeded "
                     "concretisations; mirror: complete (depth 1..8 x type x header-name x 0..2 annotated siblings x value class) table under the "
                     "baseline history (tools listed just now) x%d seeded concretisations, 18 further named client-side histories (never "
                     "listed, within / after a positive ttlMs, no ttl and long ago, later page, tool changed on the server with and "
                     "without re-listing / cache hit / list_changed notification, tool moved to another page, a tools/list answer that "
                     "predates a change delivered after it / after its notification on a cold, an expired and a two-page cache) x %s, every "
                     "well-formed history of <= %d steps over {list, wait, change, shrink, notify, send, answer, deliver} x ttl x page x "
                     "subscription x 10 probe rows (4 when a listing is split), and every history of <= %d steps with something falling inside a "
                     "listing after which the client is informed (<= %d steps when informed by notice, <= %d steps: informed or not) x 4 rows; non-trivial = at least one faulty / "
                     "non-default class (gate) or a value class other than plain ASCII / small / true or a history other than the baseline "
                     "(mirror)"
                     % (K, greps, MIRROR_BASE_REPS[tier], "the complete table" if full_cross == "TRUE" else "120 pivot rows (depth 1 and 3, 0..1 siblings, every value class)",
                        hist_len, race_len, notice_len, drift_len))
    v.cov["exhaustive"] = False  # the gate product is K-bounded (the mirror table is complete)
    v.cov["gate"] = {"K": K, "cases": len(gcases), "requests": len(grows), "reached": sum(1 for r in grows if r["o"]["reached"]),
                     "first_fault": dict(firsts) if not rep else {}, "model_leads": len(gate_leads),
                     "status": dict(collections.Counter(str(r["o"]["status"]) for r in grows))}
    v.cov["mirror"] = {"cases": len(mcases), "calls": len(mrows), "accepted": sum(1 for r in mrows if r["o"]["accepted"]),
                       "model_leads": len(mirror_leads), "header_forms": dict(collections.Counter(r["o"]["hdr"] for r in mrows)),
                       "histories": len({key(r["c"]["hist"]) for r in mrows}),
                       "informed_calls": sum(1 for r in mrows if hist_info.get(key(r["c"]["hist"]), {}).get("informed")),
                       "informed_by_notice_calls": sum(1 for r in mrows if hist_info.get(key(r["c"]["hist"]), {}).get("bynotice")),
                       "split_listing_histories": b["race"], "whatif_coldnobump_violates": b["whatif"],
                       "definition_used": dict(collections.Counter(r["o"]["via"] for r in mrows)),
                       "exhaustive": not rep}
    for r in (grows[:: max(1, len(grows) // 3)][:3] + mrows[:: max(1, len(mrows) // 3)][:3]):
        v.sample(r)
    return v.finish()
