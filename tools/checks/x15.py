"""X15 (extension) - the method dispatch layer of both peers: middleware composition, custom methods, requests in
flight, progress tokens.

  spec/Dispatch.tla (+ DispatchFn, DispatchMC, DispatchGen, DispatchMon, DispatchTrace) - the state machine; the property
  statements M1 M2 M3 D2 G2 L are the comment block at the top of Dispatch.tla.
  spec/DispatchDefs.tla (+ DispatchTab, DispatchTabMon) - the decision tables (R: raw dispatch of custom methods on a real
  Server, S: CallCustomMethod / ListTools against a scripted peer, G: progress tokens end to end, A: concurrent
  Add*Middleware, Z: registration racing with dispatch); statements R1.. S1.. G1 A1 Z1 at the top of DispatchDefs.tla.

  1. design    TLC checks Dispatch.tla exhaustively on small constants (stepwise execution == documented functional
               composition, chain == documented chain, no panic, queueing), liveness under weak fairness, witnesses;
               DispatchTab: Holds(c, Expected(c)) fails exactly on the named deviations.
  2. leads     Dispatch_lead.cfg (re-registration with another params type): TLC must find the panic; the counterexample
               is replayed on the real code and must reproduce (else: drift).
  3. generate  transition covers of small state graphs (tools/graphwalk.py over -dump dot,actionlabels), seeded TLC
               simulations with larger constants, the complete tables.
  4. replay    harness/mcp/x15_dispatch_test.go: real Client + Server over the in-memory transport under testing/synctest,
               every middleware / handler a gate; raw JSON-RPC lines for the tables.
  5. verdict   spec/DispatchMon.tla / DispatchTabMon.tla over the observations (properties only); DispatchTrace.tla must
               explain every step with the actions of Dispatch.tla (a mismatch is drift).
"""
import json, os, random, re, tempfile, time
import vlib, graphwalk

PID = "X15"
TLC_WORKERS = 4
INV = "TypeOK ChainIsDoc IdsOnce DocOutcome HandlerSees ParkedIsEntered ServedByRegistered NoPanic QueuedOnlyBehindNotification ParentWaits"
WITNESSES = ("NeverQueuedCall", "NeverStaleChain", "NeverNested", "NeverShortSend", "NeverShortRecv", "NeverNotFound",
             "NeverSecondHandler", "NeverFailOverTag", "NeverRefused")
ACTIONS = ("Add", "RegSend", "RegRecv", "Start", "Step")
ALLBEH = '{"pass", "short", "tagp", "tagr", "fail"}'


def own_wd():
    d = tempfile.mkdtemp(prefix="x15-")
    vlib._scratch.append(d)
    return d


def retry(f, *a, **kw):
    """vlib.run_tlc copies every file of spec/; another check being edited at that moment can make a file vanish mid-copy"""
    for attempt in range(3):
        try:
            return f(*a, **kw)
        except FileNotFoundError:
            if attempt == 2:
                raise
            time.sleep(1.5)


def tlc(module, cfg, **kw):
    kw.setdefault("workers", TLC_WORKERS)
    kw.setdefault("heap_gb", 4)
    kw.setdefault("timeout", 900)
    return retry(vlib.run_tlc, module, cfg, workdir=own_wd(), **kw)


def mc_cfg(spec="Spec", inv=INV, prop=None, **c):
    k = dict(MaxMw=2, MaxReq=2, Behs=ALLBEH, AddLens="{1, 2}", Eras='{"legacy", "modern"}', Kinds='{"cc", "cn", "sc", "sn"}',
             RegTypes='{"A"}', Nest="TRUE")
    k.update(c)
    t = "SPECIFICATION %s\nCONSTANTS\n" % spec + "".join("  %s = %s\n" % kv for kv in k.items())
    if inv:
        t += "INVARIANT %s\n" % inv
    if prop:
        t += "PROPERTY %s\n" % prop
    return t + "CHECK_DEADLOCK FALSE\n"


# exhaustive configurations: (name, what, constants)
MC_QUICK = [("mc_q", "1 middleware value, 2 requests (nesting, queueing), every behaviour / kind / era",
             dict(MaxMw=1, AddLens="{1}"))]
MC_THOROUGH = [
    ("mc_t1", "2 middleware values, 2 requests, legacy, 3 kinds, 4 behaviours",
     dict(Eras='{"legacy"}', Kinds='{"cc", "cn", "sn"}', Behs='{"pass", "short", "tagp", "fail"}')),
    ("mc_t2", "2 middleware values (Add of 1 or 2), 1 request, everything", dict(MaxReq=1)),
    ("mc_t3", "1 middleware value, 3 requests, legacy, pass/tagp", dict(MaxMw=1, AddLens="{1}", MaxReq=3, Behs='{"pass", "tagp"}', Eras='{"legacy"}')),
    ("mc_q", "1 middleware value, 2 requests, every behaviour / kind / era", dict(MaxMw=1, AddLens="{1}")),
]
# state graphs for the transition covers: (tag, constants, share of the paths replayed in the quick tier)
COVERS = [
    ("flight", dict(MaxReq=1, AddLens="{1}", Behs='{"pass"}', Kinds='{"cc", "sn"}', Eras='{"legacy"}'), 0.25),
    ("lens", dict(MaxMw=3, MaxReq=1, AddLens="{2, 3}", Behs='{"tagp", "tagr"}', Kinds='{"cc"}', Eras='{"modern"}'), 0.15),
    ("behs", dict(MaxMw=1, MaxReq=1, AddLens="{1}"), 0.1),
    ("two", dict(MaxMw=1, AddLens="{1}", Behs='{"tagp"}', Kinds='{"cc", "cn", "sn"}', Eras='{"legacy"}'), 0.1),
]


def norm_step(name, args):
    """(action, args) of a dot label / a TLC trace header -> the scenario step the harness reads"""
    if name == "Add":
        return {"op": "Add", "a": [args[0], args[1], re.findall(r'"(\w+)"', str(args[2]))]}
    return {"op": name, "a": [str(a) for a in args]}


def design(v, tier):
    runs = [] if tier == "quick" else MC_THOROUGH
    for name, what, c in runs:
        cov = (tier == "thorough" and name == "mc_q")
        res = tlc("DispatchMC", "mc.cfg", extra_files={"mc.cfg": mc_cfg(**c)}, coverage=cov, timeout=1500)
        vlib.tlc_must_pass(res, name)
        v.add_tlc("Dispatch %s (%s)" % (name, what), res)
        if not res.ok:
            raise vlib.MachineryError("the Dispatch model violates %s in %s: design check failed" % (res.violation, name))
        if cov:
            dead = [a for a in ACTIONS if a in res.coverage and res.coverage[a][0] == 0]
            if dead or not any(a in res.coverage for a in ACTIONS):
                raise vlib.MachineryError("dead actions in %s: %s (%s)" % (name, dead, sorted(res.coverage)[:8]))
            v.cov["action_coverage"] = {a: res.coverage[a][0] for a in ACTIONS if a in res.coverage}
    # liveness under weak fairness of every gate
    res = tlc("DispatchMC", "live.cfg", extra_files={"live.cfg": mc_cfg(spec="FairSpec", inv=INV, prop="Returns", MaxMw=1, AddLens="{1}")}, timeout=1500)
    vlib.tlc_must_pass(res, "live")
    v.add_tlc("Dispatch mc_q + live (1 middleware value, 2 requests, every behaviour / kind / era: all invariants; FairSpec: every request "
              "returns, every notification is handled to the end)", res)
    if not res.ok:
        raise vlib.MachineryError("liveness fails on the Dispatch model: %s" % res.violation)
    if tier == "thorough":
        res = tlc("DispatchMC", "nofair.cfg", extra_files={"nofair.cfg": mc_cfg(spec="Spec", inv=None, prop="Returns", MaxMw=1, AddLens="{1}")}, timeout=600)
        if res.violation is None:
            raise vlib.MachineryError("vacuity: Returns holds without fairness")
        base = mc_cfg(inv=None, MaxMw=1, AddLens="{1}")
        for w in WITNESSES:
            b = mc_cfg(inv=None, MaxReq=1, AddLens="{1}") if w == "NeverStaleChain" else base      # needs a second middleware value
            r = tlc("DispatchMC", "wit.cfg", extra_files={"wit.cfg": b + "INVARIANT %s\n" % w}, workers=1, timeout=300, heap_gb=2)
            if r.violation != w:
                raise vlib.MachineryError("vacuity: witness %s not reachable (%s)" % (w, r.error or r.violation))
        v.cov["witnesses_reached"] = list(WITNESSES)


def lead(v):
    """TLC must find the D-REREG panic; returns the counterexample as a scenario"""
    r = tlc("DispatchMC", "lead.cfg", extra_files={"lead.cfg": mc_cfg(inv="NoPanic", MaxMw=1, AddLens="{1}", RegTypes='{"A", "B"}', Eras='{"legacy"}',
                                                                   Kinds='{"cc"}', Behs='{"pass"}', MaxReq=1)}, workers=1, timeout=300, heap_gb=2)
    v.add_tlc("Dispatch lead (re-registration with another params type: NoPanic must fail)", r)
    if r.error:
        raise vlib.MachineryError("lead configuration: %s" % r.error)
    if r.violation != "NoPanic":
        v.cov.setdefault("leads_absent_from_model", []).append("D-REREG")
        return []
    steps = []
    for m in re.finditer(r"^State \d+: <(\w+)(?:\((.*?)\))? line \d+", r.stdout, re.M):
        name, args = m.group(1), m.group(2)
        steps.append(norm_step(name, graphwalk.split_args(args) if args else []))
    return [{"id": "lead.rereg", "era": "legacy", "steps": steps, "lead": "D2.NoPanic"}]


def covers(v, tier, seed):
    scen = []
    rng = random.Random(seed)
    for tag, c, share in COVERS:
        wd = own_wd()
        dot = os.path.join(wd, "g.dot")
        r = retry(vlib.run_tlc, "DispatchMC", "cover.cfg", workdir=wd, extra_files={"cover.cfg": mc_cfg(inv="ChainIsDoc DocOutcome NoPanic", **c)},
                         workers=TLC_WORKERS, timeout=900, heap_gb=4, extra_args=["-dump", "dot,actionlabels", dot])
        vlib.tlc_must_pass(r, "cover " + tag)
        if not r.ok:
            raise vlib.MachineryError("cover graph %s: %s" % (tag, r.violation))
        v.add_tlc("Dispatch cover[%s] (state graph for the transition cover)" % tag, r)
        init, edges = graphwalk.parse_dot(dot)
        eras = re.findall(r'"(\w+)"', c.get("Eras", '"legacy" "modern"'))
        # one graph per era: the initial states differ in `era` only and the walker starts anywhere; keep it simple and
        # replay every path in every era of the configuration
        paths, total = graphwalk.cover(init, edges, maxlen=40, seed=seed)
        if tier == "quick":
            paths = [p for p in paths if rng.random() < share]
        for i, p in enumerate(paths):
            for era in eras:
                scen.append({"id": "cov.%s.%d.%s" % (tag, i, era), "era": era, "steps": [norm_step(n, a) for (n, a) in p]})
        v.cov.setdefault("graphs", {})[tag] = {"nodes": len(edges), "edges": total, "paths_replayed": len(paths) * len(eras)}
    return scen


def simulations(v, tier, seed):
    n = 60 if tier == "quick" else 1500
    r = tlc("DispatchGen", "Dispatch_sim.cfg", workers=1, simulate="num=%d" % n, depth=31, seed=seed, timeout=900)
    vlib.tlc_must_pass(r, "Dispatch_sim.cfg")
    sims = [p for p in r.printed if isinstance(p, dict) and p.get("why") == "sim"]
    if len(sims) < n:
        raise vlib.MachineryError("simulation exported %d of %d behaviours" % (len(sims), n))
    v.add_tlc("Dispatch_sim.cfg (simulate num=%d depth=30 seed=%d; 4 middleware values, 4 requests, Add of 1..3)" % (n, seed), r)
    return [{"id": "sim.%d" % i, "era": s["era"], "steps": [st for st in s["steps"] if st["op"] != "Nop"]} for i, s in enumerate(sims)]


def describe(sc, upto=None):
    out = []
    for st in sc["steps"][:upto]:
        out.append("%s(%s)" % (st["op"], ",".join(".".join(a) if isinstance(a, list) else str(a) for a in st["a"])))
    return " ".join(out)


def gen_a(v, tier, seed, replay, pool):
    """design checks + scenario generation (TLC runs side by side); returns (scenarios, lead scenarios)"""
    if replay is not None:
        return ([replay["scenario"]] if replay.get("scenario") else []), []
    fd = pool.submit(design, v, tier)
    fl = pool.submit(lead, v)
    fc = pool.submit(covers, v, tier, seed)
    fs = pool.submit(simulations, v, tier, seed)
    fd.result()
    lead_sc = fl.result()
    return lead_sc + fc.result() + fs.result(), lead_sc


def judge_a(v, scen, lead_sc, obs_path):
    out = vlib.outdir(PID)
    by_id = {s["id"]: s for s in scen}
    v.cov["scenarios"] = len(scen)
    v.cov["scenario_steps"] = sum(len(s["steps"]) for s in scen)
    rows = vlib.read_ndjson(obs_path)
    bad = [r for r in rows if r["ev"] in ("setup-failed", "panic")]
    if bad:
        if bad[0]["ev"] == "panic":
            v.violation("panic:scenario", "panic while a dispatch scenario was running: " + bad[0]["msg"][:300], {"scenario": by_id.get(bad[0]["trace"])})
            return
        raise vlib.MachineryError("scenario could not be set up: %s" % json.dumps(bad[0])[:400])
    traces = vlib.split_traces(rows)
    if len(traces) != len(scen):
        raise vlib.MachineryError("harness ran %d of %d scenarios" % (len(traces), len(scen)))
    ev_rows = [r for r in rows if r["ev"] != "step"]
    st_rows = [r for r in rows if r["ev"] in ("step", "reset")]
    ev_path, st_path = os.path.join(out, "obs-events.ndjson"), os.path.join(out, "obs-steps.ndjson")
    vlib.write_ndjson(ev_path, ev_rows)
    vlib.write_ndjson(st_path, st_rows)
    v.cov["traces_validated_against_impl"] += len(traces)
    v.cov["steps_applied"] = sum(1 for r in st_rows if r["ev"] == "step" and r["applied"])
    v.cov["steps_not_applicable"] = sum(1 for r in st_rows if r["ev"] == "step" and not r["applied"])
    v.cov["requests_judged"] = sum(1 for r in ev_rows if r["ev"] == "end")
    v.cov["middleware_passages"] = sum(1 for r in ev_rows if r["ev"] == "mw" and r["ph"] == "pre")
    v.cov["evaluations"] += v.cov["requests_judged"]
    distinct = set()
    for r in ev_rows:
        if r["ev"] == "end":
            distinct.add((r["era"], r["k"], r["ok"], r["src"], len(r["rt"]), r["code"]))
    v.cov["distinct_nontrivial"] += len(distinct)
    for tid, start, trows in traces[:3]:
        v.sample({"trace": tid, "events": [[r["ev"], r["r"], r["k"], r["p"] + "." + r["d"], r["mw"], r["ph"], r["ids"], r["ok"], r["src"], r["rt"], r["code"]]
                                           for r in trows if r["ev"] in ("add", "mw", "h", "end")][:10]})

    # ---- the verdict: DispatchMon over the event lines
    fails, mres = retry(vlib.run_monitor, "DispatchMon", "DispatchMon.cfg", ev_path, timeout=1500, heap_gb=6)
    v.add_tlc("DispatchMon (properties over the events of the real code)", mres)
    etr = vlib.split_traces(ev_rows)
    hit = {}
    seen = set()
    for f in sorted(fails, key=lambda f: f["line"]):
        tid, start, trows = vlib.trace_of_line(etr, f["line"])
        name, _, rr = f["monfail"].partition("@")
        if name.startswith("harness."):
            raise vlib.MachineryError("monitor: %s at line %d" % (name, f["line"]))
        e = ev_rows[f["line"] - 1]
        rid = int(rr) if rr else e["r"]
        sc = by_id.get(tid)
        begin = next((r for r in trows if r["ev"] == "begin" and r["r"] == rid), {"k": "?", "par": 0})
        sig = "%s:%s:%s" % (name, begin["k"], cause_of(name, rid, trows))
        hit.setdefault(tid, set()).add(name)
        if sig in seen:
            continue
        seen.add(sig)
        v.violation(sig, "%s fails on the real code: trace %s request %s (%s): script: %s" % (name, tid, rid, begin["k"], describe(sc)[:600] if sc else "?"),
                    {"scenario": sc, "request": rid, "events": [r for r in trows if r["ev"] != "reset" and (r["r"] in (0, rid))][:60]})
    v.cov["monitor_failures"] = len(fails)

    # ---- binding: DispatchTrace must explain every step
    tfails, tres = retry(vlib.run_monitor, "DispatchTrace", "DispatchTrace.cfg", st_path, timeout=1500, heap_gb=6)
    v.add_tlc("DispatchTrace (every step of the real run is an action of Dispatch.tla; projections equal)", tres)
    str_ = vlib.split_traces(st_rows)
    drifted = {}
    for f in sorted(tfails, key=lambda f: f["line"]):
        tid = vlib.trace_of_line(str_, f["line"])[0]
        e = st_rows[f["line"] - 1]
        if f["monfail"] == "unfollowable" and tid not in drifted:
            raise vlib.MachineryError("DispatchTrace cannot follow %s at line %d (%s %s)" % (tid, f["line"], e["op"], e["a"]))
        if tid not in drifted:
            drifted[tid] = f["line"]
            if len(v.drift) < 20:
                v.drift.append("trace %s step %s(%s): the real state differs from Dispatch.tla: %s" % (tid, e["op"], ",".join(e["a"]), json.dumps(e["obs"])[:300]))
    v.cov["drift_traces"] = len(drifted)
    for s in lead_sc:
        if s["lead"] not in hit.get(s["id"], set()):
            v.drift.append("lead %s: TLC's counterexample does not reproduce on the real code (the model's deviation is not in the code)" % s["id"])
    v.cov["leads_reproduced"] = sorted(s["id"] for s in lead_sc if s["lead"] in hit.get(s["id"], set()))



# ---------------------------------------------------------------------------- part (b): the decision tables

def tab_sig(name, c):
    """signature = the named deviation of DispatchDefs when the failing clause is one that deviation breaks, else clause + case"""
    nil_legacy = c.get("era") == "legacy" and c.get("params") == "nil"
    if c["t"] in ("R", "S") and c["meth"] == "peerstd" and name in ("R3.RefusesStandard", "S3.RefusesStandard"):
        return "DR-PEERSTD:standard-name-of-the-peer-accepted"
    if c["t"] == "S":
        if c["meth"] == "notifname" and name in ("S1.NoPanic", "S5.WireValid"):
            return "DS-NOTIF:notifications-prefix:panic+no-id"
        if c["meth"] == "std" and name in ("S1.NoPanic", "S4.Unregistered"):
            return "DS-STD:standard-method-passes-CallCustomMethod"
        if nil_legacy and c["meth"] != "builtin" and name in ("S5.WireValid", "S8.MiddlewareSafe"):
            return "DS-NULL:nil-params:typed-nil+params-null"
        return "%s:%s:%s:%s:%s" % (name, c["meth"], c["era"], c["params"], c["ans"])
    if c["t"] == "R":
        return "%s:%s:%s:%s:%s" % (name, c["meth"], c["id"], c["params"], c["hret"])
    if c["t"] == "G":
        if c["tok"] in ("pow53p1", "maxint64", "minint64", "rawpow53p1", "rawbig20"):
            return "DG-FLOAT:integer-token-through-float64"
        return "%s:%s:%s:%s" % (name, c["dir"], c["via"], c["tok"])
    if c["t"] == "A":
        return "%s:%s:g%d" % (name, c["tgt"], c["g"])
    if c["what"] in ("regrecv", "regsend"):
        return "DZ-MAP:method-registry-read-outside-the-mutex"
    return "%s:%s" % (name, c["what"])


def race_case(what):
    rc, gout, wall = vlib.go_test("mcp", "^TestVerif_X15Race$", ["mcp/x15_dispatch_test.go"], env={"VERIF_RACE": what}, race=True,
                                  timeout=900, extra_args=["-p", "4", "-v"])
    vlib.go_must_build(rc, gout, PID)
    race = "WARNING: DATA RACE" in gout
    crashed = "fatal error:" in gout or ("panic:" in gout and "X15RACE-COMPLETED" not in gout)
    if not race and not crashed and "X15RACE-COMPLETED" not in gout:
        raise vlib.MachineryError("race run %s did not complete:\n%s" % (what, gout[-2000:]))
    return {"c": {"t": "Z", "what": what}, "o": {"race": race, "crashed": crashed}, "note": gout[-1500:] if race or crashed else "", "rep": 0}


def gen_b(v, tier, replay):
    if replay is not None:
        return replay.get("cases", [])
    if True:
        wd = own_wd()
        res = retry(vlib.run_tlc, "DispatchTab", "DispatchTab.cfg", workdir=wd, workers=1, timeout=300, heap_gb=2)
        vlib.tlc_must_pass(res, "DispatchTab")
        if not res.ok:
            raise vlib.MachineryError("DispatchTab: design check failed (%s)" % (res.violation or res.stdout[-800:]))
        v.add_tlc("DispatchTab (tables R S G A Z: clauses fail on Expected exactly where a deviation is named; witnesses)", res)
        cases = vlib.read_ndjson(os.path.join(wd, "cases.ndjson"))
        counts = [p for p in res.printed if isinstance(p, dict) and "leadsR" in p]
        if not counts or len(cases) != sum(counts[0][k] for k in "RSGAZ"):
            raise vlib.MachineryError("DispatchTab exported %d cases (%s)" % (len(cases), counts))
        v.cov["table_cases"] = {k: counts[0][k] for k in "RSGAZ"}
        v.cov["table_leads"] = {k: counts[0]["leads" + k] for k in "RSGZ"}
    return cases


def judge_b(v, tier, replay, cases, cout, reps):
    out = vlib.outdir(PID)
    go_cases = [c for c in cases if c["t"] != "Z"]
    zcases = [c for c in cases if c["t"] == "Z"]
    rows = []
    if go_cases:
        rows = vlib.read_ndjson(cout)
        if len(rows) != len(go_cases) * reps:
            raise vlib.MachineryError("table harness ran %d of %d cases" % (len(rows), len(go_cases) * reps))
        broken = [r for r in rows if r["note"] and any(w in r["note"] for w in ("handshake failed", "connect:", "wrong era"))]
        if broken:
            raise vlib.MachineryError("table case could not be set up: %s" % json.dumps(broken[0])[:400])
    if zcases and (tier == "thorough" or replay is not None):
        for c in zcases:
            rows.append(race_case(c["what"]))
    obs = os.path.join(out, "obs-tab.ndjson")
    vlib.write_ndjson(obs, [{"c": r["c"], "o": r["o"]} for r in rows])
    fails, mres = retry(vlib.run_monitor, "DispatchTabMon", "DispatchTabMon.cfg", obs, timeout=900, heap_gb=4)
    v.add_tlc("DispatchTabMon (clauses of the tables over the outcomes of the real code)", mres)
    v.cov["traces_validated_against_impl"] += len(rows)
    v.cov["evaluations"] += len(rows)
    v.cov["distinct_nontrivial"] += len({json.dumps(r["o"], sort_keys=True) for r in rows})
    v.cov["exhaustive_tables"] = sorted({c["t"] for c in cases if c["t"] != "Z" or tier == "thorough"})
    for r in rows[:2]:
        v.sample({"case": r["c"], "outcome": r["o"]})
    seen = set()
    hits = set()
    ndrift = 0
    for f in sorted(fails, key=lambda f: f["line"]):
        r = rows[f["line"] - 1]
        if f["monfail"] == "drift":
            ndrift += 1
            if len(v.drift) < 20 and ("d", json.dumps(r["c"], sort_keys=True)) not in seen:
                seen.add(("d", json.dumps(r["c"], sort_keys=True)))
                v.drift.append("table case %s: outcome %s differs from DispatchDefs!Expected (%s)" % (json.dumps(r["c"], sort_keys=True), json.dumps(r["o"], sort_keys=True), r["note"][:120]))
            continue
        sig = tab_sig(f["monfail"], r["c"])
        hits.add((r["c"]["t"], f["monfail"]))
        if sig in seen:
            continue
        seen.add(sig)
        v.violation(sig, "%s fails on the real code: case %s outcome %s %s" % (f["monfail"], json.dumps(r["c"], sort_keys=True), json.dumps(r["o"], sort_keys=True), r["note"][:200]),
                    {"cases": [r["c"]], "outcome": r["o"], "note": r["note"]})
    v.cov["table_monitor_failures"] = len([f for f in fails if f["monfail"] != "drift"])
    v.cov["table_drift_lines"] = ndrift


def cause_of(name, rid, trows):
    """abstract cause of a failed clause, for the signature (reporting only)"""
    if name == "D2.NoPanic":
        regs = [r for r in trows if r["ev"] == "reg" and r["p"] == "s"]
        tys = sorted({r["ty"] for r in regs})
        return "D-REREG:reregistered-with-another-params-type" if len(tys) > 1 else "other"
    adds = [r for r in trows if r["ev"] == "add"]
    behs = sorted({b for r in adds for b in r["behs"]})
    return "behs=" + "+".join(behs) if behs else "nomw"


def run(tier, seed, replay):
    v = vlib.Verdict(PID, tier, seed)
    v.assumptions = [
        "scheduling is at the granularity of middleware / handler gates under testing/synctest: between two script steps the SDK "
        "runs to quiescence; true parallelism is exercised only by the concurrent-Add table (A) and the race table (Z)",
        "the user middleware of the harness recovers a panic of the layers below it and turns it into error code 4999 (a real "
        "middleware would not: the process would die); the panic itself is what D2.NoPanic reports",
        "the receive chain of a request is judged against the documented chain at SOME instant between the request's begin and its "
        "first event on the receiving peer (the dispatch instant inside jsonrpc2 is not observable); DispatchTrace pins it exactly",
        "in-memory transport only (the dispatch layer is transport independent; HTTP routing is C08-C12's)",
        "TLC exhaustive results are for the stated small constants (<= 2 middleware values x 2 requests, or 1 x 3)",
        "tables: every abstract case is run (3 seeded concretisations in the thorough tier); table Z (data races, go test -race) only in "
        "the thorough tier; table A runs real goroutines, the order they produce is judged, not predicted",
    ]
    import concurrent.futures as cf
    rep = json.load(open(replay))["replay"] if replay else None
    out = vlib.outdir(PID)
    with cf.ThreadPoolExecutor(max_workers=6) as pool:
        fb = pool.submit(gen_b, v, tier, rep)
        scen, lead_sc = gen_a(v, tier, seed, rep, pool)
        cases = fb.result()
    go_cases = [c for c in cases if c["t"] != "Z"]
    reps = 1 if (tier == "quick" or rep is not None) else 3
    scen_path, obs_path = os.path.join(out, "scenarios.ndjson"), os.path.join(out, "obs.ndjson")
    cin, cout = os.path.join(out, "tab_cases.ndjson"), os.path.join(out, "obs-tab-go.ndjson")
    vlib.write_ndjson(scen_path, scen)
    vlib.write_ndjson(cin, go_cases)
    for f in (obs_path, cout):
        if os.path.exists(f):
            os.remove(f)
    env = {"VERIF_SEED": seed, "VERIF_TAB_REPS": reps}
    if scen:
        env.update({"VERIF_IN": scen_path, "VERIF_OUT": obs_path})
    if go_cases:
        env.update({"VERIF_TAB_IN": cin, "VERIF_TAB_OUT": cout})
    rc, gout, wall = vlib.go_test("mcp", "^TestVerif_X15(Table)?$", ["mcp/x15_dispatch_test.go"], env=env, timeout=1800, extra_args=["-p", "4"])
    vlib.go_must_build(rc, gout, PID)
    if rc != 0:
        if "panic:" in gout or "fatal error:" in gout:
            v.violation("panic:process", "the SDK crashed the test process while the dispatch scenarios / tables were running", {"output": gout[-4000:]})
            return v.finish()
        raise vlib.MachineryError("X15 harness failed:\n" + gout[-3000:])
    v.cov["go_test_wall_s"] = round(wall, 1)
    with cf.ThreadPoolExecutor(max_workers=2) as pool:
        fa = pool.submit(judge_a, v, scen, lead_sc, obs_path) if scen else None
        fb = pool.submit(judge_b, v, tier, rep, cases, cout, reps) if cases else None
        for f in (fa, fb):
            if f is not None:
                f.result()
    v.cov["rule"] = ("scenarios = transition covers (every edge) of the state graphs %s of Dispatch.tla (a seeded share of the paths in the "
                     "quick tier) + seeded TLC simulations (4 middleware values, 4 requests) + the lead counterexample; distinct = (era, kind, "
                     "outcome class) of finished requests; evaluations = requests judged" % [c[0] for c in COVERS])
    v.cov["exhaustive"] = False
    return v.finish()
