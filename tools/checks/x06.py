"""X06 (extension) - capability declaration and capability gating, both directions, legacy and 2026-07-28.

  spec/Capabilities.tla (PROPERTIES P1..P6 and the named deviations), CapabilitiesDefs.tla (case spaces, code-shaped
  Expected, declarative Holds, the step operators of the dynamic part), CapabilitiesMon.tla (monitor of the tables),
  CapabilitiesDyn.tla (+Gen: the state machine "features come and go while sessions exist"), CapabilitiesDynMon.tla.

  1. design    TLC evaluates Holds(c, Expected(c)) on the complete server product (69 504 configurations) and client
               product (3 624 configurations x paths); the cells where the code-shaped procedure leaves the documented
               rule must be exactly the named deviations (leads).  TLC model-checks CapabilitiesDyn (safety + liveness
               under fairness), reaches the witnesses, and (thorough) reports per-action coverage.
  2. generate  the case products are exported by TLC; behaviours of CapabilitiesDyn come from a transition cover of its
               state graph (tools/graphwalk.py over -dump dot,actionlabels) and from -simulate with a history variable.
  3. replay    harness/mcp/x06_caps_test.go on the real Client / Server (in-memory transport, stateless streamable HTTP
               in process; the dynamic part under testing/synctest).
  4. verdict   CapabilitiesMon / CapabilitiesDynMon, evaluated by TLC over the observations; equality with the
               code-shaped expectation is drift.
"""
import json, os, random, re, tempfile
import vlib, graphwalk

PID = "X06"
TLC_WORKERS = 4
GO_WORKERS = 4
PROPERTY_OF = {"S.Adv": "P1", "S.NoExtra": "P1", "S.NoMutation": "P1", "S.SamePath": "P2", "S.Complete": "P3", "S.Subscribe": "P3",
               "C.Roots": "P4", "C.Sampling": "P4", "C.Elicitation": "P4", "C.NoExtra": "P4", "C.NoMutation": "P4",
               "C.SamePath": "P2", "C.NoUngated": "P5", "C.GatedWorks": "P5", "C.RefusedWithoutHandler": "P4",
               "C.ModernNoServerRequest": "P5", "C.RootsNotif": "P6", "D.AdvCurrent": "P1", "D.AckExact": "P6",
               "D.NoNotifWhenDisabled": "P6", "D.ModernOnlyAcked": "P6", "D.NoSpurious": "P6", "D.Eventually": "P6"}
DYN_ACTIONS = ("AddF", "RemoveF", "ConnectLegacy", "ConnectModern", "Close", "Tick")
WITNESSES = ("NoSurprise", "NeverPartialAck", "NeverNotifiedModern", "NeverOwedTwoKinds")
KIND_PAIRS = [["tools", "resources"], ["prompts", "resources"], ["tools", "prompts"]]


def own_wd():
    d = tempfile.mkdtemp(prefix="x06-")
    vlib._scratch.append(d)
    return d


def tla_set(xs):
    return "{" + ", ".join('"%s"' % x for x in xs) + "}"


def dyn_cfg(spec, kinds, legacy, modern, wants, invariants="", properties="", extra=""):
    t = "SPECIFICATION %s\nCONSTANTS\n  DKinds = %s\n  Legacy = %s\n  Modern = %s\n  Wants <- %s\n%s" % (
        spec, tla_set(kinds), tla_set(legacy), tla_set(modern), wants, extra)
    if invariants:
        t += "INVARIANTS %s\n" % invariants
    if properties:
        t += "PROPERTIES %s\n" % properties
    return t + "CHECK_DEADLOCK FALSE\n"


# ---------------------------------------------------------------------------------------------------- design

def design_tables(v):
    wd = own_wd()
    res = vlib.run_tlc("Capabilities", "Capabilities.cfg", workdir=wd, workers=1, timeout=600, heap_gb=4)
    vlib.tlc_must_pass(res, "Capabilities")
    if not res.ok:
        raise vlib.MachineryError("Capabilities design evaluation failed: " + (res.violation or res.stdout[-2000:]))
    info = [p for p in res.printed if isinstance(p, dict) and "srvCases" in p]
    if not info:
        raise vlib.MachineryError("Capabilities did not report the case counts\n" + res.stdout[-2000:])
    info = info[0]
    v.add_tlc("Capabilities (design: Holds(c, Expected(c)) on both complete products; leads = named deviations only)", res)
    srv = vlib.read_ndjson(os.path.join(wd, "srv_cases.ndjson"))
    cli = vlib.read_ndjson(os.path.join(wd, "cli_cases.ndjson"))
    sleads = vlib.read_ndjson(os.path.join(wd, "srv_leads.ndjson"))
    cleads = vlib.read_ndjson(os.path.join(wd, "cli_leads.ndjson"))
    if (len(srv), len(cli), len(sleads), len(cleads)) != (info["srvCases"], info["cliCases"], info["srvLeads"], info["cliLeads"]):
        raise vlib.MachineryError("case export incomplete: %s vs %s" % ((len(srv), len(cli), len(sleads), len(cleads)), info))
    return srv, cli, sleads, cleads


def design_dyn(v, tier):
    inv = "TypeOK InvDisabled InvModernAcked InvAckExact InvSnapCurrent InvOwedArmed"
    K2, K3 = ["tools", "resources"], ["tools", "prompts", "resources"]
    runs = [("CapabilitiesDyn_mc_quick.cfg", None, "2 kinds, L1 + M1, every want set: safety"),
            ("live2L.cfg", dyn_cfg("FairSpec", K2, ["L1"], [], "AllWants", inv, "LiveNotified"),
             "2 kinds, legacy session: safety + LiveNotified under WF(Tick)"),
            ("live2M.cfg", dyn_cfg("FairSpec", K2, [], ["M1"], "AllWants", inv, "LiveNotified"),
             "2 kinds, 2026-07-28 session, every want set: safety + LiveNotified under WF(Tick)")]
    if tier == "thorough":
        runs = [("CapabilitiesDyn_mc_thorough.cfg", None, "2 kinds, L1 + M1, every want set: safety + LiveNotified under WF(Tick)"),
                ("mc3L.cfg", dyn_cfg("FairSpec", K3, ["L1"], [], "AllWants", inv, "LiveNotified"),
                 "3 kinds, legacy session only: safety + liveness"),
                ("mc3M.cfg", dyn_cfg("FairSpec", K3, [], ["M1"], "AllWants", inv, "LiveNotified"),
                 "3 kinds, 2026-07-28 session only, every want set: safety + liveness"),
                ("mc2LL.cfg", dyn_cfg("FairSpec", K2, ["L1", "L2"], [], "AllWants", inv, "LiveNotified"),
                 "2 kinds, two legacy sessions: safety + liveness")]
    for i, (cfg, text, what) in enumerate(runs):
        extra = {cfg: text} if text else None
        res = vlib.run_tlc("CapabilitiesDyn", cfg, workdir=own_wd(), extra_files=extra, workers=TLC_WORKERS, timeout=900, heap_gb=6,
                           coverage=(tier == "thorough" and i == 0))
        vlib.tlc_must_pass(res, cfg)
        v.add_tlc("CapabilitiesDyn %s (%s)" % (cfg, what), res)
        if not res.ok:
            raise vlib.MachineryError("CapabilitiesDyn violates %s in %s: design check failed\n%s" % (res.violation, cfg, res.stdout[-1500:]))
        if res.coverage:
            dead = [a for a in DYN_ACTIONS if a in res.coverage and res.coverage[a][0] == 0]
            missing = [a for a in DYN_ACTIONS if a not in res.coverage]
            if dead:
                raise vlib.MachineryError("dead actions in %s: %s" % (cfg, dead))
            v.cov["action_coverage"] = {a: res.coverage[a][0] for a in DYN_ACTIONS if a in res.coverage}
            v.cov["action_coverage_missing"] = missing
    # reachability witnesses (each must be VIOLATED): D-D1 and the interesting corners of the state space
    base = dyn_cfg("Spec", ["tools", "resources"], ["L1"], ["M1"], "AllWants")
    for w in (WITNESSES if tier == "thorough" else WITNESSES[:2]):
        r = vlib.run_tlc("CapabilitiesDyn", "wit.cfg", workdir=own_wd(), extra_files={"wit.cfg": base + "INVARIANT %s\n" % w},
                         workers=1, timeout=300, heap_gb=2)
        if r.violation != w:
            raise vlib.MachineryError("vacuity: witness %s not reachable (%s)" % (w, r.error or r.violation))
    v.cov["witnesses_reached"] = list(WITNESSES if tier == "thorough" else WITNESSES[:2])


# ---------------------------------------------------------------------------------------------------- generation

SRV_GROUPS = [("xt", "ht", "rt"), ("xp", "hp", "rp"), ("xr", "hr", "rr", "sh"), ("xc", "ch", "xl", "cn")]


def pick_server_cases(srv, tier, seed, n_quick=4000):
    """thorough: the complete product; quick: a seeded sample in which every combination of every group of
    related options occurs (the groups are what one branch of capabilities() reads)"""
    if tier == "thorough":
        return list(srv), True
    rnd = random.Random(seed)
    chosen = rnd.sample(range(len(srv)), min(n_quick, len(srv)))
    have = [set() for _ in SRV_GROUPS]
    for i in chosen:
        for gi, g in enumerate(SRV_GROUPS):
            have[gi].add(tuple(srv[i][f] for f in g))
    order = list(range(len(srv)))
    rnd.shuffle(order)
    cs = set(chosen)
    for i in order:
        add = False
        for gi, g in enumerate(SRV_GROUPS):
            key = tuple(srv[i][f] for f in g)
            if key not in have[gi]:
                have[gi].add(key)
                add = True
        if add and i not in cs:
            cs.add(i)
            chosen.append(i)
    return [srv[i] for i in chosen], False


def parse_cfg_label(label):
    m = re.search(r"cfg = \[(.*?)\]", label.replace("\\n", " "))
    if not m:
        return None
    return {k: val for k, val in re.findall(r'(\w+) \|-> \\?"(\w+)\\?"', m.group(1).replace('\\"', '"'))}


def parse_set_arg(a):
    if isinstance(a, str) and a.startswith("{"):
        return sorted(re.findall(r'"(\w+)"', a))
    return a


def dyn_cover(v, kinds, legacy, modern, wants, seed, tag, maxlen=40):
    wd = own_wd()
    dot = os.path.join(wd, "g.dot")
    cfg = dyn_cfg("Spec", kinds, legacy, modern, wants, extra="VIEW ImplView\n")
    r = vlib.run_tlc("CapabilitiesDyn", "cover.cfg", workdir=wd, extra_files={"cover.cfg": cfg}, workers=1, timeout=900, heap_gb=6,
                     extra_args=["-dump", "dot,actionlabels", dot])
    vlib.tlc_must_pass(r, "cover " + tag)
    v.add_tlc("CapabilitiesDyn cover[%s] (state graph of the implementation-visible state, for the transition cover)" % tag, r)
    init, edges, states = graphwalk.parse_dot(dot, keep_state=True)
    scen, total_edges = [], 0
    for i0 in init:
        c = parse_cfg_label(states[i0])
        if c is None:
            raise vlib.MachineryError("cannot read cfg of an initial state: " + states[i0][:200])
        paths, total = graphwalk.cover([i0], edges, maxlen=maxlen, seed=seed)
        total_edges += total
        for p in paths:
            steps = [{"op": name, "a": [parse_set_arg(a) for a in args]} for (name, args) in p]
            scen.append({"id": "cov.%s.%d" % (tag, len(scen)), "kinds": kinds, "cfg": c, "steps": steps})
    v.cov.setdefault("graphs", {})[tag] = {"nodes": len(edges), "edges": total_edges, "paths": len(scen),
                                           "steps": sum(len(s["steps"]) for s in scen)}
    return scen


def dyn_sims(v, n, seed):
    r = vlib.run_tlc("CapabilitiesDynGen", "CapabilitiesDyn_sim.cfg", workdir=own_wd(), workers=1, simulate="num=%d" % n, depth=25,
                     seed=seed, timeout=900, heap_gb=4)
    vlib.tlc_must_pass(r, "CapabilitiesDyn_sim.cfg")
    if not r.ok:
        raise vlib.MachineryError("CapabilitiesDyn violates %s in simulation" % r.violation)
    sims = [p for p in r.printed if isinstance(p, dict) and p.get("why") == "sim"]
    if len(sims) < n:
        raise vlib.MachineryError("simulation exported %d of %d behaviours" % (len(sims), n))
    v.add_tlc("CapabilitiesDyn_sim.cfg (simulate num=%d depth=24 seed=%d; 3 kinds, L1 L2 M1 M2)" % (n, seed), r)
    return [{"id": "sim.%d" % i, "kinds": s["kinds"], "cfg": s["cfg"], "steps": s["steps"]} for i, s in enumerate(sims)]


# ---------------------------------------------------------------------------------------------------- signatures

def present(c):
    return c["hr"] or c["rr"] != "none"


def srv_sig(inv, e):
    c, o = e["c"], e["o"]
    if inv.startswith("S.Adv."):
        f = inv[len("S.Adv."):]
        got = sorted({o["adv"][p][f] if not isinstance(o["adv"][p][f], bool) else str(o["adv"][p][f]).lower() for p in o["adv"]})
        if f == "r":
            cfg = "explicit=%s%s%s" % (c["xr"], "+subscribe-handler" if c["sh"] else "", "+resources-present" if present(c) else "")
        elif f == "t":
            cfg = "explicit=%s|has=%d|reg=%d" % (c["xt"], c["ht"], c["rt"])
        elif f == "p":
            cfg = "explicit=%s|has=%d|reg=%d" % (c["xp"], c["hp"], c["rp"])
        elif f == "co":
            cfg = "explicit=%d|handler=%d" % (c["xc"], c["ch"])
        else:
            cfg = "capsNil=%d|explicit=%d" % (c["cn"], c["xl"])
        return "%s:%s:got=%s" % (inv, cfg, "/".join(got))
    if inv == "S.SamePath":
        diff = [p for p in ("discmem", "dischttp") if o["adv"][p] != o["adv"]["init"]]
        return "S.SamePath:differs-from-initialize=%s" % "+".join(diff)
    if inv == "S.Complete":
        return "S.Complete:handler=%d:err=%d,ran=%d" % (c["ch"], o["complete"]["err"], o["complete"]["ran"])
    if inv == "S.Subscribe":
        return "S.Subscribe:handler=%d:err=%d,ran=%d" % (c["sh"], o["subscribe"]["err"], o["subscribe"]["ran"])
    return inv


def cli_sig(inv, e):
    c, o = e["c"], e["o"]
    era = "modern" if c["path"].startswith("mod") else "legacy"
    adv = o["advs"][0]
    parts = inv.split(".")
    if len(parts) == 3:
        g = parts[2]
        k = o["calls"][g]
        if parts[1] == "NoUngated":
            return "%s:undeclared:%s" % (inv, "on-wire" if k["wire"] else ("handler-ran" if k["ran"] else "no-error"))
        return "%s:%s:err=%d,wire=%d,ran=%d" % (inv, era, k["err"], k["wire"], k["ran"])
    if inv == "C.RootsNotif":
        src = "capsNil" if c["cn"] else ("rootsV2=%s" % c["r2"] if c["r2"] != "nil" else "rootsV1.listChanged=%s" % str(c["r1"]).lower())
        return "C.RootsNotif:roots=%s|%s:%s" % (adv["ro"], src, "sent" if o["notif"] else "not-sent")
    if inv == "C.Roots":
        return "C.Roots:capsNil=%d|rootsV2=%s:got=%s" % (c["cn"], c["r2"], adv["ro"])
    if inv == "C.Sampling":
        return "C.Sampling:explicit=%s|handler=%s:got=%s" % (c["xs"], c["hs"], adv["sa"])
    if inv == "C.Elicitation":
        return "C.Elicitation:explicit=%s|handler=%d|%s:got=%s" % (c["xe"], c["he"], c["path"], adv["el"])
    if inv == "C.SamePath":
        return "C.SamePath:%s" % c["path"]
    return "%s:%s" % (inv, era)


def dyn_sig(inv, rows, line):
    e = rows[line - 1]
    # the configuration of the trace: the closest reset line above
    cfg = {}
    for j in range(line - 1, -1, -1):
        if rows[j]["ev"] == "reset":
            cfg = rows[j]["cfg"]
            break
    if inv == "D.NoNotifWhenDisabled":
        return "%s:at=%s:%s" % (inv, e["ev"], ",".join(sorted({d[1] for d in e["dl"] if cfg.get(d[1]) == "lcF"})))
    if inv in ("D.ModernOnlyAcked", "D.NoSpurious"):
        return "%s:at=%s:%s" % (inv, e["ev"], ",".join(sorted({"%s=%s" % (d[1], cfg.get(d[1], "?")) for d in e["dl"]})))
    if inv.startswith("D.AdvCurrent."):
        k = inv.split(".")[2]
        return "%s:era=%s:explicit=%s:got=%s" % (inv, e["era"], cfg.get(k, "?"), e["adv"][k])
    if inv == "D.AckExact":
        # signature only: the kinds whose acknowledgement differs from "wanted and advertised listChanged"
        off = sorted(k for k in e["adv"] if (k in e["ack"]) != (k in e["want"] and e["adv"][k] == "lcT"))
        return "%s:%s" % (inv, ",".join("%s:advertised=%s:%s" % (k, e["adv"][k], "acked" if k in e["ack"] else "not-acked") for k in off))
    return "%s:at=%s" % (inv, e["ev"])


def trace_of(rows, line):
    start = line - 1
    while start > 0 and rows[start]["ev"] != "reset":
        start -= 1
    end = line
    while end < len(rows) and rows[end]["ev"] != "reset":
        end += 1
    return rows[start:end]


# ---------------------------------------------------------------------------------------------------- binding self-test

def binding_selftest(v, trows, drows):
    """the monitors must reject an observation with one corrupted field (checked on every run)"""
    out = vlib.outdir(PID)
    bad = []
    s = next((json.loads(json.dumps(r)) for r in trows if r["t"] == "srv" and r["c"]["rt"] and r["c"]["xt"] == "nil"), None)
    if s:
        s["o"]["adv"]["dischttp"]["t"] = "absent"
        bad.append(("S.Adv.t", s))
    c = next((json.loads(json.dumps(r)) for r in trows if r["t"] == "cli" and r["c"]["path"] == "init1125" and r["c"]["xe"] == "url"), None)
    if c:
        c["o"]["calls"]["elicform"] = {"err": False, "wire": True, "ran": c["c"]["he"], "code": 0}
        bad.append(("C.NoUngated.elicform", c))
    if bad:
        p = os.path.join(out, "selftest_tables.ndjson")
        vlib.write_ndjson(p, [b for _, b in bad])
        fails, _ = vlib.run_monitor("CapabilitiesMon", "CapabilitiesMon.cfg", p, timeout=300, heap_gb=2)
        got = {(f["monfail"], f["line"]) for f in fails}
        for i, (inv, _) in enumerate(bad, 1):
            if (inv, i) not in got:
                raise vlib.MachineryError("binding self-test: CapabilitiesMon accepted a corrupted observation (%s)" % inv)
    # dynamic: drop one delivery from a tick line that has some
    for i, r in enumerate(drows):
        if r["ev"] == "tick" and len(r["dl"]) >= 1:
            tr = trace_of(drows, i + 1)
            tr = json.loads(json.dumps(tr))
            k = next(j for j, x in enumerate(tr) if x["ev"] == "tick" and x["dl"])
            tr[k]["dl"] = tr[k]["dl"][1:]
            p = os.path.join(out, "selftest_dyn.ndjson")
            vlib.write_ndjson(p, tr)
            fails, _ = vlib.run_monitor("CapabilitiesDynMon", "CapabilitiesDynMon.cfg", p, timeout=300, heap_gb=2)
            if not any(f["monfail"] in ("drift", "D.Eventually") for f in fails):
                raise vlib.MachineryError("binding self-test: CapabilitiesDynMon accepted a trace with a dropped notification")
            break
    v.cov["binding_selftest"] = "corrupted observations rejected by both monitors"


# ---------------------------------------------------------------------------------------------------- run

def run(tier, seed, replay):
    v = vlib.Verdict(PID, tier, seed)
    v.assumptions = [
        "capability objects are read from the raw JSON-RPC frames (a recording mcp.Transport wrapper around the in-memory "
        "transport; request and response bodies of the in-process http.RoundTripper for the stateless streamable handler)",
        "client and server run the same SDK build; no sockets; the dynamic part runs inside testing/synctest bubbles "
        "(the 10 ms list-changed debounce is virtual time)",
        "experimental / extensions capability members are not varied (any member nobody configured is reported as 'extra')",
        "2026-07-28 server-to-client interactions through InputRequests (multi round-trip) are covered by X01, "
        "subscriptions/listen routing by C18; here only their capability-dependent part (acknowledgement filter) is judged",
    ]
    out = vlib.outdir(PID)
    rep = json.load(open(replay))["replay"] if replay else None

    # ---- design + generation
    srv, cli, sleads, cleads = design_tables(v)
    # the model checking of the dynamic part runs beside the replay of the tables (joined before the verdict)
    import concurrent.futures
    pool = concurrent.futures.ThreadPoolExecutor(max_workers=1)
    dyn_design = pool.submit(design_dyn, v, tier)
    if rep and rep.get("kind") == "table":
        tcases, exhaustive = [rep["line"]], False
    elif rep:
        tcases, exhaustive = [], False
    else:
        s_cases, exhaustive = pick_server_cases(srv, tier, seed)
        tcases = [{"t": "srv", "c": c} for c in s_cases] + [{"t": "cli", "c": c} for c in cli]
    if rep and rep.get("kind") == "dyn":
        scen = [rep["scenario"]]
    elif rep:
        scen = []
    else:
        if tier == "quick":
            pair = KIND_PAIRS[seed % len(KIND_PAIRS)]
            scen = dyn_cover(v, pair, ["L1"], ["M1"], "AllWants", seed, "2kinds")
            scen += dyn_sims(v, 200, seed)
        else:
            scen = []
            for i, pair in enumerate(KIND_PAIRS):
                if i == seed % len(KIND_PAIRS):     # one pair with two 2026-07-28 sessions, the others with L1 + M1
                    scen += dyn_cover(v, pair, ["L1"], ["M1", "M2"], "FewWants", seed, "2kinds." + "+".join(pair) + ".M1M2")
                else:
                    scen += dyn_cover(v, pair, ["L1"], ["M1"], "AllWants", seed, "2kinds." + "+".join(pair))
            scen += dyn_cover(v, ["tools", "prompts", "resources"], ["L1"], ["M1"], "FewWants", seed, "3kinds", maxlen=60)
            scen += dyn_sims(v, 3000, seed)
    v.cov["states"] += len(srv) + len(cli)
    v.cov["transitions"] += len(srv) + len(cli)

    # ---- replay: tables
    trows = []
    if tcases:
        tin, tobs = os.path.join(out, "tables_in.ndjson"), os.path.join(out, "tables_obs.ndjson")
        vlib.write_ndjson(tin, tcases)
        if os.path.exists(tobs):
            os.remove(tobs)
        rc, gout, wall = vlib.go_test("mcp", "^TestVerif_X06Tables$", ["mcp/x06_caps_test.go"], timeout=900,
                                      env={"VERIF_IN": tin, "VERIF_OUT": tobs, "VERIF_SEED": seed, "VERIF_WORKERS": GO_WORKERS})
        vlib.go_must_build(rc, gout, PID)
        if rc != 0:
            if "panic:" in gout:
                v.violation("panic:tables", "Go panic while running the capability tables:\n" + gout[-1500:], {"kind": "table", "output": gout[-3000:]})
                return v.finish()
            raise vlib.MachineryError("X06 table harness failed:\n" + gout[-3000:])
        trows = vlib.read_ndjson(tobs)
        if len(trows) != len(tcases):
            raise vlib.MachineryError("table harness ran %d of %d cases" % (len(trows), len(tcases)))
        v.cov["table_wall_s"] = round(wall, 1)

    # ---- replay: dynamic part
    drows = []
    if scen:
        din, dobs = os.path.join(out, "dyn_in.ndjson"), os.path.join(out, "dyn_obs.ndjson")
        vlib.write_ndjson(din, scen)
        if os.path.exists(dobs):
            os.remove(dobs)
        rc, gout, wall = vlib.go_test("mcp", "^TestVerif_X06Dyn$", ["mcp/x06_caps_test.go"], timeout=900,
                                      env={"VERIF_IN": din, "VERIF_OUT": dobs, "VERIF_SEED": seed, "VERIF_WORKERS": GO_WORKERS},
                                      parallel=GO_WORKERS)
        vlib.go_must_build(rc, gout, PID)
        if rc != 0:
            inflight = ""
            try:
                inflight = open(dobs + ".progress").read().strip().splitlines()[-1]
            except Exception:
                pass
            sc = next((s for s in scen if s["id"] == inflight), None)
            if "panic:" in gout and "blocked goroutines remain" not in gout and "deadlock:" not in gout:
                v.violation("panic:dyn", "Go panic while replaying scenario %s:\n%s" % (inflight, gout[-1500:]), {"kind": "dyn", "scenario": sc})
                return v.finish()
            if "deadlock:" in gout or "blocked goroutines remain" in gout:
                v.violation("hang:dyn", "goroutines left blocked after scenario %s:\n%s" % (inflight, gout[-1500:]), {"kind": "dyn", "scenario": sc})
                return v.finish()
            raise vlib.MachineryError("X06 dynamic harness failed (in flight: %s):\n%s" % (inflight, gout[-3000:]))
        drows = vlib.read_ndjson(dobs)
        nreset = sum(1 for r in drows if r["ev"] == "reset")
        if nreset != len(scen):
            raise vlib.MachineryError("dynamic harness ran %d of %d scenarios" % (nreset, len(scen)))
        v.cov["dyn_wall_s"] = round(wall, 1)

    dyn_design.result()   # re-raises a MachineryError of the design check
    pool.shutdown()

    # ---- verdict: tables
    failed_cells = set()
    if trows:
        fails, mres = vlib.run_monitor("CapabilitiesMon", "CapabilitiesMon.cfg", os.path.join(out, "tables_obs.ndjson"), timeout=900, heap_gb=6)
        v.add_tlc("CapabilitiesMon", mres)
        for f in fails:
            e = trows[f["line"] - 1]
            inv = f["monfail"]
            key = json.dumps([e["t"], e["c"]], sort_keys=True)
            if inv == "drift":
                v.drift.append("%s case %s: outcome differs from the code-shaped Expected: %s %s" % (
                    e["t"], json.dumps(e["c"], sort_keys=True), json.dumps({k: e["o"][k] for k in e["o"] if k != "info"}, sort_keys=True)[:400], e["o"].get("info", "")[:150]))
                continue
            failed_cells.add(key)
            sig = srv_sig(inv, e) if e["t"] == "srv" else cli_sig(inv, e)
            prop = PROPERTY_OF.get(".".join(inv.split(".")[:2]), "?")
            v.violation(sig, "%s (%s): real %s %s, observed %s %s" % (
                inv, prop, "server" if e["t"] == "srv" else "client/server pair", json.dumps(e["c"], sort_keys=True),
                json.dumps({k: e["o"][k] for k in e["o"] if k != "info"}, sort_keys=True)[:600], e["o"].get("info", "")[:200]),
                {"kind": "table", "line": {"t": e["t"], "c": e["c"]}, "observed": e["o"]})
    # ---- verdict: dynamic part
    if drows:
        fails, mres = vlib.run_monitor("CapabilitiesDynMon", "CapabilitiesDynMon.cfg", os.path.join(out, "dyn_obs.ndjson"), timeout=900, heap_gb=6)
        v.add_tlc("CapabilitiesDynMon", mres)
        by_id = {s["id"]: s for s in scen}
        for f in fails:
            e = drows[f["line"] - 1]
            inv = f["monfail"]
            sc = by_id.get(e["trace"])
            if inv == "drift":
                v.drift.append("scenario %s, %s line: observation differs from CapabilitiesDyn: dl=%s ack=%s adv=%s" % (
                    e["trace"], e["ev"], e["dl"], e["ack"], e["adv"]))
                continue
            v.violation(dyn_sig(inv, drows, f["line"]),
                        "%s (%s) in scenario %s at the %s step: adv=%s want=%s ack=%s deliveries=%s %s" % (
                            inv, PROPERTY_OF.get(".".join(inv.split(".")[:2]), "?"), e["trace"], e["ev"], e["adv"], e["want"], e["ack"], e["dl"], e["info"]),
                        {"kind": "dyn", "scenario": sc, "trace": trace_of(drows, f["line"])})
    if not replay:
        binding_selftest(v, trows, drows)

    # ---- coverage
    ns = sum(1 for r in trows if r["t"] == "srv")
    nc = len(trows) - ns
    v.cov["evaluations"] = len(trows) + len(drows)
    v.cov["traces_validated_against_impl"] = len(trows) + sum(1 for r in drows if r["ev"] == "reset")
    v.cov["server_cases_run"], v.cov["server_cases_total"] = ns, len(srv)
    v.cov["client_cases_run"], v.cov["client_cases_total"] = nc, len(cli)
    v.cov["dyn_scenarios"], v.cov["dyn_steps"] = len(scen), sum(len(s["steps"]) for s in scen)
    v.cov["dyn_deliveries_observed"] = sum(len(r["dl"]) for r in drows)
    v.cov["dyn_acks_observed"] = sum(1 for r in drows if r["ev"] == "connect" and r["era"] == "modern" and r["want"])
    v.cov["distinct_nontrivial"] = len({json.dumps(r["c"], sort_keys=True) for r in trows
                                        if r["t"] == "cli" or not r["c"]["cn"] or r["c"]["rt"] or r["c"]["rp"] or r["c"]["rr"] != "none"})
    v.cov["rule"] = ("server product: %s; client product x 4 paths: complete; every case on the real SDK, each server case on three paths "
                     "(initialize, discover in-memory, discover stateless HTTP); non-trivial = anything but an unconfigured server; "
                     "dynamic part: transition cover of the state graph + seeded simulations, every step on a real Server"
                     % ("complete" if exhaustive else "seeded sample covering every combination of each option group"))
    v.cov["exhaustive"] = bool(exhaustive)
    if not replay:
        lead_keys = {json.dumps(["srv", l["c"]], sort_keys=True) for l in sleads} | {json.dumps(["cli", c], sort_keys=True) for c in cleads}
        ran_keys = {json.dumps([r["t"], r["c"]], sort_keys=True) for r in trows}
        v.cov["model_leads"] = len(lead_keys)
        v.cov["model_leads_run"] = len(lead_keys & ran_keys)
        v.cov["model_leads_reproduced_on_real_code"] = len(lead_keys & failed_cells)
        v.cov["violating_cells_outside_model_leads"] = len(failed_cells - lead_keys)
    for r in trows[:: max(1, len(trows) // 4)][:4]:
        v.sample({"t": r["t"], "c": r["c"], "o": {k: r["o"][k] for k in r["o"] if k != "info"}})
    ticks = [r for r in drows if r["ev"] == "tick" and r["dl"]]
    for r in ticks[:2]:
        v.sample({"trace": r["trace"], "tick_deliveries": r["dl"]})
    return v.finish()
