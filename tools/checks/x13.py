"""X13 (extension) - OAuth helper code that C15 treats as a black box or does not reach.

  spec/OAuthReg.tla      PROPERTIES block, design checks, export of the case spaces
  spec/OAuthRegDefs.tla  decision tables (case space, code-shaped Expected, declarative Holds, named deviations):
                         D RegisterClient (RFC 7591), R marshalling round trip of ClientRegistrationResponse, X ExchangeToken
                         (RFC 8693 / SEP-990), A MatchesResource, W ParseWWWAuthenticate (RFC 9110 11.6.1), K well-known
                         locations (RFC 8414 3.1 / OIDC Discovery 4), M GetAuthServerMeta (status, content type, PKCE),
                         L PerformOIDCLogin
  spec/OAuthRegFlow.tla  (+MC) extauth.EnterpriseHandler.Authorize as a state machine, two Authorize calls on one handler
  spec/OAuthRegMon.tla   the monitor (verdict clauses named by property; drift; hardening leads)

  1. design    TLC evaluates Holds(c, Expected(c)) on every complete case space; the cells where the code-shaped procedure
               leaves the property must be exactly the named deviations.  TLC model-checks OAuthRegFlow (safety, liveness
               under weak fairness), the lead configuration must violate OnlyIDJAGForwarded, the witnesses must be reachable,
               (thorough) no action may be dead.
  2. generate  the case spaces are exported by TLC; behaviours of the flow are root-to-leaf label sequences of its state
               graph modulo ghosts (-dump dot,actionlabels): an edge cover, seeded samples, (thorough) every terminal
               behaviour of the reduced generation configuration.
  3. replay    harness/auth/x13_oauthreg_test.go, x13_entflow_test.go: every abstract case concretised with seeded
               representatives and run through the REAL public functions against a fake in-process http.RoundTripper.
  4. verdict   OAuthRegMon, evaluated by TLC over the observations.
"""
import json, os, random, tempfile
from collections import deque
import vlib, graphwalk

PID = "X13"
TLC_WORKERS = 1   # the flow model is small (< 30k states); one worker is as fast and does not suffer from a loaded machine
TABLES = "DRXAWKML"
FLOW_ACTIONS = ("Setup", "FetchID", "DiscoverIdP", "Exchange", "DiscoverMCP", "JwtBearer", "Install", "Finish", "NextRound")
FLOW_RESULTS = ("ok", "idtoken", "idpmeta", "exchange", "mcpmeta", "jwt")
DEFAULT_ROUND = {"idf": "ok", "im": "good", "ex": "idjag", "mm": "good", "jw": "good"}
STEP_FIELD = {"FetchID": ("idf", None), "DiscoverIdP": ("im", "idp_meta"), "Exchange": ("ex", "idp_token"),
              "DiscoverMCP": ("mm", "mcp_meta"), "JwtBearer": ("jw", "mcp_token")}


def own_wd():
    d = tempfile.mkdtemp(prefix="x13-")
    vlib._scratch.append(d)
    return d


# ---------------------------------------------------------------------------------------------------- flow behaviours

def load_graph(dot):
    init, edges = graphwalk.parse_dot(dot)
    if len(init) != 1:
        raise vlib.MachineryError("expected one initial state, got %d" % len(init))
    return init[0], edges


def path_counts(root, edges):
    """number of root-to-leaf label sequences below every node; raises on a cycle"""
    cnt, state, stack = {}, {root: 1}, [(root, iter(edges.get(root, [])))]
    while stack:
        n, it = stack[-1]
        adv = False
        for (_, v) in it:
            st = state.get(v, 0)
            if st == 1:
                raise vlib.MachineryError("state graph has a cycle: not a sequential flow")
            if st == 0:
                state[v] = 1
                stack.append((v, iter(edges.get(v, []))))
                adv = True
                break
        if not adv:
            stack.pop()
            state[n] = 2
            outs = edges.get(n, [])
            cnt[n] = 1 if not outs else sum(cnt[v] for (_, v) in outs)
    return cnt


def edge_cover(root, edges, seed):
    """root-to-leaf label sequences such that every edge lies on at least one of them"""
    rnd = random.Random(seed)
    pred, dq = {root: None}, deque([root])
    while dq:
        u = dq.popleft()
        for (l, v) in edges.get(u, []):
            if v not in pred:
                pred[v] = (u, l)
                dq.append(v)
    unc = {(u, l, v) for u, outs in edges.items() if u in pred for (l, v) in outs}
    total, paths = len(unc), []
    for (u, l, v) in sorted(unc):
        if (u, l, v) not in unc:
            continue
        pre, n = [], u
        while pred[n] is not None:
            p, pl = pred[n]
            pre.append((p, pl, n))
            n = p
        pre.reverse()
        steps, cur = pre + [(u, l, v)], v
        while edges.get(cur):
            outs = edges[cur]
            cand = [(a, b) for (a, b) in outs if (cur, a, b) in unc]
            a, b = rnd.choice(sorted(cand) if cand else sorted(outs))
            steps.append((cur, a, b))
            cur = b
        for s in steps:
            unc.discard(s)
        paths.append([s[1] for s in steps])
    return paths, total


def sample_paths(root, edges, cnt, n, seed, uniform):
    rnd, out = random.Random(seed), []
    for _ in range(n):
        cur, labels = root, []
        while edges.get(cur):
            outs = edges[cur]
            if uniform:
                k = rnd.randrange(cnt[cur])
                for (l, v) in outs:
                    if k < cnt[v]:
                        break
                    k -= cnt[v]
            else:
                l, v = outs[rnd.randrange(len(outs))]
            labels.append(l)
            cur = v
        out.append(labels)
    return out


def all_paths(root, edges, limit):
    out, stack = [], [(root, [])]
    while stack:
        n, labels = stack.pop()
        outs = edges.get(n, [])
        if not outs:
            out.append(labels)
            if len(out) > limit:
                raise vlib.MachineryError("generation configuration has more than %d terminal behaviours" % limit)
            continue
        for (l, v) in outs:
            stack.append((v, labels + [l]))
    return out


def script_of(sid, labels):
    """a labelled path of OAuthRegFlow -> the script of the harness (x13FScript)"""
    cfg, rounds, cur = None, [], None
    for lbl in labels:
        name, args = graphwalk.parse_label(lbl)
        if name == "Setup":
            cfg = {"idp": args[0], "mcp": args[1], "idpConf": bool(args[2]), "mcpConf": bool(args[3])}
            cur = dict(DEFAULT_ROUND, exp={"result": "?", "changed": False, "kinds": []})
        elif name in STEP_FIELD:
            fld, kind = STEP_FIELD[name]
            if args[0] != "skip":
                cur[fld] = args[0]
                if kind:
                    cur["exp"]["kinds"].append(kind)
        elif name == "Finish":
            cur["exp"]["result"], cur["exp"]["changed"] = args[0], bool(args[1])
            rounds.append(cur)
            cur = None
        elif name == "NextRound":
            cur = dict(DEFAULT_ROUND, exp={"result": "?", "changed": False, "kinds": []})
        elif name != "Install":
            raise vlib.MachineryError("unknown action label %r" % lbl)
    if cfg is None or not rounds:
        raise vlib.MachineryError("behaviour without Setup / Finish: %r" % labels)
    return {"id": sid, "cfg": cfg, "rounds": rounds}


# ---------------------------------------------------------------------------------------------------- signatures

def case_sig(c):
    if isinstance(c, dict):
        return ",".join("%s=%s" % (k, case_sig(v)) for k, v in sorted(c.items()) if k != "dev")
    if isinstance(c, bool):
        return "1" if c else "0"
    return str(c)


def sigs_of(row, inv):
    """abstract failing case -> signature(s); the verdict is the monitor's, this only names it"""
    t, c, o = row["t"], row["c"], row["o"]
    if inv == "NoPanic":
        return ["NoPanic:%s:%s" % (t, c["dev"] if c.get("dev", "-") != "-" else case_sig(c))]
    if t == "R":
        if inv == "R.RoundTrip":
            return ["R.RoundTrip:%s:numeric=%d,uerr=%d" % (c["dev"] if c["dev"] == "by-value" else "how=" + c["how"], o["numeric"], o["uerr"])]
        if inv == "R.SecretExpiry" and c["how"] in ("value", "field_value", "map"):
            return ["R.SecretExpiry:by-value"]
        return ["R.SecretExpiry:%s" % (c["dev"] if c["dev"] == "never-expires-omitted" else "expires=" + c["expires"])]
    if t == "A":
        return ["A.Match:%s:match=%d" % (c["dev"] if c["dev"] != "-" else "base=%s,rel=%s,pos=%s" % (c["base"], c["rel"], c["pos"]), o["match"])]
    if t == "W":
        return ["W.Parse:%s" % (c["dev"] if c["dev"] != "-" else "unnamed:" + case_sig(c))]
    if t == "K":
        return ["K.WellKnown:%s" % (c["dev"] if c["dev"] != "-" else "path=%s,found=%d" % (c["path"], c["found"]))]
    if t == "F":
        out = []
        for i, rd in enumerate(o["rounds"]):
            out.append("%s:cfg=%s/%s:round%d=%s" % (inv, c["cfg"]["idp"], c["cfg"]["mcp"], i + 1, case_sig(rd["c"])))
        if inv == "F.OnlyIDJAGForwarded":
            return ["F.OnlyIDJAGForwarded:ex=" + "+".join(sorted({rd["c"]["ex"] for rd in o["rounds"] if any("jag" in r["carries"] and r["as"] != "idjag" for r in rd["reqs"])}))]
        return out[:1] if out else [inv]
    return ["%s:%s" % (inv, case_sig(c))]


# ---------------------------------------------------------------------------------------------------- run

def run(tier, seed, replay):
    v = vlib.Verdict(PID, tier, seed)
    v.assumptions = [
        "TLS and redirects are not exercised: the injected http.Client has a fake RoundTripper that answers every request itself",
        "like net/http.Transport the fake RoundTripper carries only http / https URLs with a host; anything else is refused and not counted as sent",
        "golang.org/x/oauth2 performs the token request it is asked to (its request is observed at the RoundTripper)",
        "URL classes are concretised by the harness and cross-checked with net/url (script-capable scheme, authority, parse failure)",
        "'an https or loopback URL': scheme https, or http with host localhost / 127.0.0.1 / ::1",
        "which secrets a request carries is decided by searching URL, body and Authorization header for the concrete secret strings",
        "W: parameter values are compared with the unescaped value the harness put into the header; a token68 challenge is only "
        "required to be reported with its scheme (oauthex.Challenge has no member for a token68)",
        "R: time.Time{} and time.Unix(0, 0) both mean 'unset' (the wire value 0 / absent)",
    ]
    out = vlib.outdir(PID)
    rep = None
    if replay:
        rep = json.load(open(replay))
        seed = int(rep.get("seed", seed))
        v.seed = seed
    # ---- 1. design: tables
    wd = own_wd()
    res = vlib.run_tlc("OAuthReg", "OAuthReg.cfg", workdir=wd, workers=1, timeout=600, heap_gb=4)
    vlib.tlc_must_pass(res, "OAuthReg")
    if not res.ok:
        raise vlib.MachineryError("OAuthReg design check failed: " + (res.violation or res.stdout[-2000:]))
    counts = [p for p in res.printed if isinstance(p, dict) and "W" in p and "D" in p]
    if not counts:
        raise vlib.MachineryError("OAuthReg did not print its case counts")
    counts = counts[0]
    ncases = sum(counts[t] for t in TABLES)
    v.add_tlc("OAuthReg (design: Holds(c, Expected(c)) on 8 complete case spaces; deviations = the named ones)", res)
    v.cov["states"] = ncases
    v.cov["transitions"] = ncases
    v.cov["table_cases"] = {t: counts[t] for t in TABLES}
    v.cov["named_deviation_cells"] = {t: counts["dev" + t] for t in "DRAWK"}
    # ---- 1b. design: flow
    mc = vlib.run_tlc("OAuthRegFlowMC", "OAuthRegFlow_mc.cfg", workers=TLC_WORKERS, timeout=600, heap_gb=4, coverage=(tier == "thorough"))
    vlib.tlc_must_pass(mc, "OAuthRegFlow_mc.cfg")
    v.add_tlc("OAuthRegFlow_mc.cfg (Rounds=2: 7 invariants, NoTokenAfterFailure, Termination under WF)", mc)
    if not mc.ok:
        raise vlib.MachineryError("OAuthRegFlow violates its own %s: the model is broken" % mc.violation)
    if tier == "thorough":
        mc3 = vlib.run_tlc("OAuthRegFlowMC", "OAuthRegFlow_mc3.cfg", workers=TLC_WORKERS, timeout=900, heap_gb=6)
        vlib.tlc_must_pass(mc3, "OAuthRegFlow_mc3.cfg")
        v.add_tlc("OAuthRegFlow_mc3.cfg (Rounds=3: the same invariants and properties)", mc3)
        if not mc3.ok:
            raise vlib.MachineryError("OAuthRegFlow (Rounds=3) violates its own %s: the model is broken" % mc3.violation)
        dead = [a for a in FLOW_ACTIONS if a in mc.coverage and mc.coverage[a][1] == 0] + [a for a in FLOW_ACTIONS if a not in mc.coverage]
        if dead:
            raise vlib.MachineryError("vacuity: dead actions in OAuthRegFlow: %s" % dead)
        v.cov["action_coverage"] = {a: mc.coverage[a][1] for a in FLOW_ACTIONS}
    lead = vlib.run_tlc("OAuthRegFlowMC", "OAuthRegFlow_lead.cfg", workers=1, timeout=300, heap_gb=2)
    vlib.tlc_must_pass(lead, "OAuthRegFlow_lead.cfg")
    v.add_tlc("OAuthRegFlow_lead.cfg (issued_token_type other than id-jag: OnlyIDJAGForwarded must fail)", lead)
    if lead.ok or lead.violation != "OnlyIDJAGForwarded":
        raise vlib.MachineryError("OAuthRegFlow_lead.cfg does not violate OnlyIDJAGForwarded (%s)" % lead.violation)
    v.cov["model_leads"] = ["OnlyIDJAGForwarded"]
    for cfg, inv in (("OAuthRegFlow_wit1.cfg", "WitSecondRoundFailsAfterFirstPassed"), ("OAuthRegFlow_wit2.cfg", "WitLoopbackSecrets")):
        w = vlib.run_tlc("OAuthRegFlowMC", cfg, workers=1, timeout=300, heap_gb=2)
        vlib.tlc_must_pass(w, cfg)
        v.add_tlc(cfg + " (witness: must be violated)", w)
        if w.ok or w.violation != inv:
            raise vlib.MachineryError("vacuity: %s is not reachable (%s)" % (inv, w.violation))
    # ---- 2. behaviours of the flow
    wdc = own_wd()
    dot = os.path.join(wdc, "cover.dot")
    rc = vlib.run_tlc("OAuthRegFlowMC", "OAuthRegFlow_cover.cfg", workdir=wdc, workers=1, timeout=600, heap_gb=4,
                      extra_args=["-dump", "dot,actionlabels", dot])
    vlib.tlc_must_pass(rc, "cover")
    if not rc.ok:
        raise vlib.MachineryError("cover configuration failed: %s" % rc.violation)
    v.add_tlc("OAuthRegFlow_cover.cfg (state graph modulo ghosts)", rc)
    root, edges = load_graph(dot)
    cnt = path_counts(root, edges)
    seen_actions, seen_results = set(), set()
    for outs in edges.values():
        for (l, _) in outs:
            name, args = graphwalk.parse_label(l)
            seen_actions.add(name)
            if name == "Finish":
                seen_results.add(args[0])
    missing = [a for a in FLOW_ACTIONS if a not in seen_actions] + [r for r in FLOW_RESULTS if r not in seen_results]
    if missing:
        raise vlib.MachineryError("vacuity: not reachable in OAuthRegFlow: %s" % missing)
    scripts, exhaustive_flow = [], False
    if rep and rep["replay"].get("t") == "F":
        scripts = [rep["replay"]["script"]]
    elif not rep:
        paths, total_edges = edge_cover(root, edges, seed)
        scripts += [script_of("cover%d" % i, p) for i, p in enumerate(paths)]
        nrand = 1500 if tier == "quick" else 120000
        scripts += [script_of("unif%d" % i, p) for i, p in enumerate(sample_paths(root, edges, cnt, nrand // 2, seed, True))]
        scripts += [script_of("walk%d" % i, p) for i, p in enumerate(sample_paths(root, edges, cnt, nrand - nrand // 2, seed + 7919, False))]
        v.cov["flow_graph_nodes"], v.cov["flow_graph_edges"], v.cov["flow_cover_paths"] = len(edges), total_edges, len(paths)
        v.cov["flow_terminal_behaviours_full_model"] = cnt[root]
        if tier == "thorough":
            wdg = own_wd()
            dotg = os.path.join(wdg, "gen.dot")
            rg = vlib.run_tlc("OAuthRegFlowMC", "OAuthRegFlow_gen.cfg", workdir=wdg, workers=1, timeout=600, heap_gb=4,
                              extra_args=["-dump", "dot,actionlabels", dotg])
            vlib.tlc_must_pass(rg, "gen")
            if not rg.ok:
                raise vlib.MachineryError("generation configuration failed: %s" % rg.violation)
            v.add_tlc("OAuthRegFlow_gen.cfg (reduced outcome sets, all terminal behaviours)", rg)
            rootg, edgesg = load_graph(dotg)
            allp = all_paths(rootg, edgesg, 400000)
            scripts += [script_of("gen%d" % i, p) for i, p in enumerate(allp)]
            v.cov["flow_gen_terminal_behaviours"] = len(allp)
            exhaustive_flow = True
    # ---- 3. the real code
    indir = own_wd()
    tables = TABLES + "F"
    if rep:
        t = rep["replay"]["t"]
        tables = t
        if t != "F":
            vlib.write_ndjson(os.path.join(indir, "cases_%s.ndjson" % t), [rep["replay"]["c"]])
    else:
        for t in TABLES:
            os.replace(os.path.join(wd, "cases_%s.ndjson" % t), os.path.join(indir, "cases_%s.ndjson" % t))
    if scripts:
        vlib.write_ndjson(os.path.join(indir, "flow.ndjson"), scripts)
        vlib.write_ndjson(os.path.join(out, "flow.ndjson"), scripts)
    obs = os.path.join(out, "obs.ndjson")
    reps = 8 if rep else (2 if tier == "quick" else 8)
    reps_w = reps if rep else (1 if tier == "quick" else 4)      # W is by far the largest table
    rc_go, gout, wall = vlib.go_test("auth", "^TestVerif_X13$", ["auth/x13_oauthreg_test.go", "auth/x13_entflow_test.go"],
                                     env={"VERIF_IN": indir, "VERIF_OUT": obs, "VERIF_SEED": seed, "VERIF_REPS": reps, "VERIF_REPS_W": reps_w, "VERIF_TABLES": tables if rep else ""},
                                     timeout=900)
    vlib.go_must_build(rc_go, gout, PID)
    if rc_go != 0:
        raise vlib.MachineryError("X13 harness failed:\n" + gout[-3000:])
    rows = vlib.read_ndjson(obs)
    want = ((ncases - counts["W"]) * reps + counts["W"] * reps_w + len(scripts)) if not rep else (reps if rep["replay"]["t"] != "F" else 1)
    if len(rows) != want:
        raise vlib.MachineryError("harness wrote %d observations, expected %d" % (len(rows), want))
    v.cov["go_wall_s"] = round(wall, 1)
    v.cov["evaluations"] = len(rows)
    v.cov["traces_validated_against_impl"] = len(rows)
    per_table = {}
    for r in rows:
        per_table[r["t"]] = per_table.get(r["t"], 0) + 1
    v.cov["observations_per_table"] = per_table
    v.cov["distinct_nontrivial"] = len({r["t"] + vlib.sha(r["c"]) for r in rows if r["t"] != "F"}) + len({vlib.sha(s["rounds"]) + vlib.sha(s["cfg"]) for s in scripts})
    v.cov["rule"] = ("tables: the complete abstract case space exported by TLC, each case concretised %d times (W: %d) with seeded representatives; "
                     "flow: root-to-leaf label sequences of the TLC state graph of OAuthRegFlow modulo ghosts (edge cover + seeded samples%s); "
                     "distinct by abstract case / by script" % (reps, reps_w, "; plus every terminal behaviour of the reduced generation configuration" if tier == "thorough" else ""))
    v.cov["exhaustive"] = (not rep) and (tier != "thorough" or exhaustive_flow)
    step = max(1, len(rows) // 6)
    for r in rows[::step][:6]:
        v.sample({"t": r["t"], "c": r["c"], "o": r["o"]} if r["t"] != "F" else {"t": "F", "id": r["c"]["id"], "rounds": [[rd["err"], rd["act"]] for rd in r["o"]["rounds"]]})
    # ---- 4. the monitor
    fails, mres = vlib.run_monitor("OAuthRegMon", "OAuthRegMon.cfg", obs, timeout=900, heap_gb=6)
    v.add_tlc("OAuthRegMon", mres)
    by_line = {}
    for f in fails:
        by_line.setdefault(f["line"], []).append(f["monfail"])
    script_by_id = {s["id"]: s for s in scripts}
    ndrift, nlead, lead_samples, viol_by_inv = 0, 0, [], {}
    for line, invs in sorted(by_line.items()):
        row = rows[line - 1]
        if "NoPanic" in invs:  # there is no outcome to judge: the other clauses saw the zero outcome
            invs = [i for i in invs if i in ("NoPanic", "drift")]
        named = [i for i in invs if i not in ("drift", "lead") and not i.endswith(".Holds")]
        for inv in invs:
            if inv == "drift":
                ndrift += 1
                if len(v.drift) < 20:
                    v.drift.append("table %s case %s: real outcome %s differs from the code-shaped expectation" % (
                        row["t"], case_sig(row["c"])[:200], json.dumps(row["o"])[:300]))
                continue
            if inv == "lead":
                nlead += 1
                if len(lead_samples) < 4:
                    lead_samples.append({"t": row["t"], "c": row["c"], "endpoint": json.loads(row.get("x") or "{}").get("endpoint")})
                continue
            if inv.endswith(".Holds") and named:
                continue  # already reported under the name of its clause
            viol_by_inv[inv] = viol_by_inv.get(inv, 0) + 1
            replay_obj = {"t": row["t"], "c": row["c"], "observation": row}
            if row["t"] == "F":
                replay_obj["script"] = script_by_id.get(row["c"]["id"])
            for sig in sigs_of(row, inv):
                v.violation(sig, "real code violates %s (table %s; %s)" % (inv, row["t"], (row.get("x") or "")[:200]), replay_obj)
    v.cov["drift_count"] = ndrift
    v.cov["violating_observations_by_clause"] = viol_by_inv
    v.cov["hardening_leads"] = {"count": nlead, "what": "RegisterClient / ExchangeToken use an http non-loopback endpoint the caller passes in "
                                "(DHardened, XHardened: named deviation, not a verdict)", "samples": lead_samples}
    # every named deviation of the model must show up on the real code, otherwise the model is stale
    if not rep:
        found = set(v.known_hit) | {s for (s, _, _) in v.violations}
        for name in ("NoPanic:D:null-body-panic", "R.RoundTrip:by-value", "R.SecretExpiry:never-expires-omitted", "A.Match:slash-beyond-empty-path", "W.Parse:empty-quoted-string",
                     "W.Parse:token68", "W.Parse:bws-before-eq", "W.Parse:escaped-backslash-before-closing-quote", "W.Parse:empty-list-element",
                     "K.WellKnown:terminating-slash-kept:root", "K.WellKnown:terminating-slash-kept:path", "F.OnlyIDJAGForwarded:ex=othertype"):
            if not any(s.startswith(name) for s in found):
                v.drift.append("named deviation %s was not reproduced on the real code: the model is stale" % name)
    return v.finish()
