"""X01 - multi round-trip requests (SEP-2322): extension check (tools/EXT_PROMPT.md).

spec/MultiRoundTrip.tla states the properties (PROPERTIES block) and models the client middleware, the server
middleware for legacy clients, handleMultiRoundTripResult and the concurrent fulfilment of input requests.  TLC
  (a) checks the design exhaustively (MultiRoundTrip_mc.cfg: the code's limits 10 / 3, two ids, every
      input-request map, four client modes, two calls; thorough adds three ids) and termination under weak
      fairness (MultiRoundTrip_live.cfg),
  (b) generates behaviours: a transition cover of the state graph of MultiRoundTrip_cover.cfg
      (tools/graphwalk.py) and seeded simulations of MultiRoundTripGen with the code's limits; both are projected
      onto the environment's choices (client mode, handler results per invocation, how / in which order the
      client handlers end) and played by harness/mcp/x01_mrtr_test.go against the real client and server for
      tools (typed and raw), prompts and resources,
  (c) judges the recorded observations with MultiRoundTripMon (verdict) and explains them with
      MultiRoundTripTrace (binding; a mismatch is drift).
"""
import json, os, random, re, tempfile
import vlib, graphwalk

PID = "X01"
METHODS = ["tool", "rawtool", "prompt", "resource"]
MCLASS = {"tool": "tool", "rawtool": "tool", "prompt": "prompt", "resource": "resource"}
ACTIONS = ["Setup", "GAppCall", "GAppRetry", "GCSend", "GSOther", "GSInvoke", "GSPost", "GSMw", "GFBegin", "GFEnd", "GFSkip",
           "GFAbandon", "GFLate", "GLBegin", "GLDrop", "GOEnd", "GFJoin", "GCPass", "GCFinal", "GCInput"]
WITNESSES = ["NeverLimit", "NeverShedLimit", "NeverBusy", "NeverRawInput", "NeverHybrid", "NeverOrphan", "NeverLate",
             "NeverNeedsInput", "NeverSecondRound", "NeverManual"]
COVER_RETRIES = 3  # MaxRetries of MultiRoundTrip_cover.cfg


def own_tlc(module, cfg, **kw):
    wd = tempfile.mkdtemp(prefix="x01-")
    vlib._scratch.append(wd)
    return vlib.run_tlc(module, cfg, workdir=wd, **kw), wd


def run_monitor(module, cfg, obs_path, timeout=900, heap_gb=6):
    """vlib.run_monitor with a private work directory (other jobs clean /tmp/tlc-*)."""
    res, _ = own_tlc(module, cfg, extra_files={"obs.ndjson": obs_path}, workers=1, timeout=timeout, heap_gb=heap_gb)
    fails = [p for p in res.printed if isinstance(p, dict) and "monfail" in p]
    hwm = [p for p in res.printed if isinstance(p, dict) and "hwm" in p]
    if res.error or hwm or res.violation or not res.ok:
        tail = "\n".join(res.stdout.splitlines()[-30:])
        raise vlib.MachineryError("monitor %s did not consume the log (%s %s %s)\n%s" % (module, res.error, hwm, res.violation, tail))
    return fails, res


def run_strict(module, cfg, obs_path, timeout=900, heap_gb=6):
    res, _ = own_tlc(module, cfg, extra_files={"obs.ndjson": obs_path}, workers=1, timeout=timeout, heap_gb=heap_gb)
    hwm = [p for p in res.printed if isinstance(p, dict) and "hwm" in p]
    if res.ok and not hwm:
        return True, None, res
    if hwm:
        return False, hwm[0]["hwm"], res
    if res.violation:
        return False, -1, res
    tail = "\n".join(res.stdout.splitlines()[-30:])
    raise vlib.MachineryError("strict %s failed to run: %s\n%s" % (module, res.error, tail))


# --------------------------------------------------------------------------
# behaviours -> environment scripts


def parse_invoke(args):
    """GSInvoke(t, R, s): graphwalk splits the record at its commas; re-join and parse."""
    raw = ",".join(str(a) if not isinstance(a, bool) else ("TRUE" if a else "FALSE") for a in args)
    m = re.match(r'^"?(\w+)"?,\[(.*)\],(TRUE|FALSE)$', raw)
    if not m:
        raise vlib.MachineryError("cannot parse GSInvoke label: %r" % raw)
    reqs = {k: v for (k, v) in re.findall(r'(\w+) \|-> "([^"]*)"', m.group(2)) if v != "-"}
    return {"t": m.group(1), "reqs": reqs, "st": m.group(3) == "TRUE"}


def finish_call(call, mode):
    """A path may stop in the middle of a call; the real call runs on.  When the script is exhausted the harness
    repeats its last entry: a path that reached the model's (small) retry limit thereby reaches the real one;
    shorter ones are completed."""
    sc = call["script"]
    if not call["other"] and sc and sc[-1]["t"] == "input" and len(sc) < COVER_RETRIES:
        sc.append({"t": "complete", "reqs": {}, "st": False})


def scenario_of_path(path):
    sc = {"mode": None, "hasE": False, "hasS": False, "calls": []}
    ninv = 0
    for (name, args) in path:
        if name == "Setup":
            sc["mode"], sc["hasE"], sc["hasS"] = args[0], bool(args[1]), bool(args[2])
        elif name == "GAppCall":
            sc["calls"].append({"other": bool(args[0]), "reuse": False, "manual": 0, "ttl": False, "script": [], "ends": {}})
            ninv = 0
        elif name == "GAppRetry":
            sc["calls"][-1]["manual"] += 1
        elif name == "GSInvoke":
            sc["calls"][-1]["script"].append(parse_invoke(args))
            ninv += 1
        elif name == "GFEnd":
            sc["calls"][-1]["ends"].setdefault(str(ninv), []).append([args[0], args[1]])
    if sc["mode"] is None or not sc["calls"]:
        return None
    for c in sc["calls"]:
        finish_call(c, sc["mode"])
    return sc


def scenario_of_hist(hist):
    sc = {"mode": None, "hasE": False, "hasS": False, "calls": []}
    for h in hist:
        a = h["a"]
        if a == "setup":
            sc["mode"], sc["hasE"], sc["hasS"] = h["mode"], h["hasE"], h["hasS"]
        elif a == "call":
            sc["calls"].append({"other": h["other"], "reuse": False, "manual": 0, "ttl": False, "script": [], "ends": {}})
        elif a == "retry":
            sc["calls"][-1]["manual"] += 1
        elif a == "inv":
            sc["calls"][-1]["script"].append({"t": h["t"], "reqs": {k: v for k, v in h["reqs"].items() if v != "-"}, "st": h["st"]})
        elif a == "end":
            sc["calls"][-1]["ends"].setdefault(str(h["n"]), []).append([h["k"], h["r"]])
    if sc["mode"] is None or not sc["calls"]:
        return None
    return sc


def key_of(sc):
    return json.dumps([sc["mode"], sc["hasE"], sc["hasS"], sc["calls"]], sort_keys=True)


def with_method(sc, method, ident):
    r = json.loads(json.dumps(sc))
    r["method"], r["id"] = method, ident
    return r


def rounds_of(call):
    return sum(1 for o in call["script"] if o["t"] == "input")


# --------------------------------------------------------------------------
# binding self-test: corrupted copies of real traces must be rejected


def binding_selftest(traces, out, must_find):
    """Takes real, accepted traces, corrupts one logged field each, and requires that the monitor names the clause
    (and, for a code-shaped field, that only the strict specification objects).  Returns a summary; raises
    MachineryError when a corruption goes unnoticed."""
    def find(pred):
        for (tid, s, tr) in traces:
            if pred(tr):
                return tr
        return None

    def inv2(tr):
        return next((i for i, r in enumerate(tr) if r["ev"] == "inv" and r["n"] == 2 and r["state"] and r["keys"]
                     and r["kinds"][0] != "roots"), None)

    base = find(lambda tr: tr[0]["mode"] == "new" and inv2(tr) is not None and tr[0]["trace"].startswith(("cover", "sim"))
                and any(r["ev"] == "cli" for r in tr) and all(r["ev"] != "ret" or r["err"] in ("", "limit", "handler") for r in tr))
    lim = find(lambda tr: tr[0]["mode"] == "new" and any(r["ev"] == "ret" and r["err"] == "limit" for r in tr))
    if base is None or lim is None:
        if must_find:
            raise vlib.MachineryError("binding self-test: no suitable real trace (two-round new-client trace / limit trace)")
        return {"skipped": "no accepted two-round / limit trace left (the run has violations)"}

    def variant(tr, name, edit):
        rows = [dict(r, trace="bind-" + name) for r in json.loads(json.dumps(tr))]
        rows = edit(rows) or rows
        return rows

    def ed_state(rows):
        r = rows[inv2(rows)]
        r["state"], r["stn"] = "st@9.9", 9

    def ed_dropkey(rows):
        r = rows[inv2(rows)]
        for f in ("keys", "kinds", "rcalls", "rns", "rkeys"):
            r[f] = r[f][1:]

    def ed_oldround(rows):
        rows[inv2(rows)]["rns"][0] = 0

    def ed_rt(rows):
        r = next(r for r in rows if r["ev"] == "wire" and r["rt"] == "input_required")
        r["rt"] = ""

    def ed_dupcli(rows):
        i = next(i for i, r in enumerate(rows) if r["ev"] == "cli" and r["ph"] == "begin")
        return rows[:i + 1] + [dict(rows[i])] + rows[i + 1:]

    def ed_needs(rows):
        r = next(r for r in rows if r["ev"] == "ret" and not r["other"])
        r["needs"], r["err"] = True, ""

    def ed_errclass(rows):
        r = next(r for r in rows if r["ev"] == "ret" and r["err"] == "limit")
        r["err"] = "cfail"

    expect = [("state", base, ed_state, "EchoExact"), ("dropkey", base, ed_dropkey, "EchoExact"),
              ("oldround", base, ed_oldround, "EchoExact"), ("rt", base, ed_rt, "ResultTypeIffNew"),
              ("dupcli", base, ed_dupcli, "CliJustified"), ("needs", base, ed_needs, "FinalOutcome"),
              ("errclass", lim, ed_errclass, None)]
    log, spans = [], {}
    for (name, tr, edit, clause) in [("intact", base, lambda rows: None, None)] + expect:
        rows = variant(tr, name, edit)
        spans[name] = (len(log) + 1, len(log) + len(rows))
        log += rows
    path = os.path.join(out, "obs_selftest.ndjson")
    vlib.write_ndjson(path, log)
    fails, _ = run_monitor("MultiRoundTripMon", "MultiRoundTripMon.cfg", path, timeout=300, heap_gb=2)
    got = {}
    for f in fails:
        for name, (a, b) in spans.items():
            if a <= f["line"] <= b:
                got.setdefault(name, set()).add(f["monfail"])
    for (name, tr, edit, clause) in expect:
        if clause is not None and clause not in got.get(name, ()):
            raise vlib.MachineryError("binding self-test: corruption %r was not flagged as %s (got %s)" % (name, clause, sorted(got.get(name, ()))))
    if got.get("intact") or got.get("errclass"):
        raise vlib.MachineryError("binding self-test: the monitor flags an intact / code-shaped field: %s" % got)
    # the strict specification: accepts the intact copy, rejects the wrong error class at its line
    spath = os.path.join(out, "obs_selftest_strict.ndjson")
    srows = variant(base, "intact", lambda rows: None) + variant(lim, "errclass", ed_errclass)
    vlib.write_ndjson(spath, srows)
    ok, hwm, _ = run_strict("MultiRoundTripTrace", "MultiRoundTripTrace.cfg", spath, timeout=300, heap_gb=2)
    if ok or hwm is None or hwm <= len(base) or srows[hwm - 1]["ev"] != "ret":
        raise vlib.MachineryError("binding self-test: the strict specification did not reject the wrong error class (ok=%s hwm=%s)" % (ok, hwm))
    return {"corruptions_flagged": {n: sorted(c) for n, c in got.items()}, "strict_rejects_wrong_error_class_at_line": hwm}


def sig_of(inv, e, calls_by_trace):
    legacy = "legacy" if e["mode"] in ("old", "oldoff") else "new"
    c = calls_by_trace.get(e["trace"], {}).get(e["call"], {})
    parts = [inv, legacy, "mw" if e["mode"] in ("new", "old") else "off", MCLASS.get(e["meth"], e["meth"])]
    if c.get("reuse") and inv == "FirstRequestClean":
        parts = [inv, "reuse"]
    elif c.get("ttl") and inv == "ReachesHandler":
        parts = [inv, "cached"]
    elif inv == "EndsForAReason" and legacy == "legacy":
        parts = [inv, legacy, MCLASS.get(e["meth"], e["meth"])]
    return ":".join(parts)


def run(tier, seed, replay):
    v = vlib.Verdict(PID, tier, seed)
    v.assumptions = [
        "one client and one server over the in-memory transport; calls are issued one at a time",
        "a roots request is answered by the SDK itself (no user handler): its fulfilment is visible only through the answer the handler receives",
        "client handlers ignore their context (they return when the script releases them)",
        "the limits 10 and 3 are the constants of mcp/mrtr.go (the documentation does not state numbers)",
        "with the middleware Disabled the harness plays the application's part of the protocol (fulfil, echo requestState, re-issue)",
        "TLC exhaustive results are for ids {a,b} (thorough: {a,b,c}), one or two calls per behaviour",
    ]
    out = vlib.outdir(PID)
    workers = min(4, vlib.NCPU)
    quick = tier == "quick"

    rows = []
    if replay:
        rep = json.load(open(replay))
        rows = [rep["replay"]["scenario"]]
    else:
        # 1. design: exhaustive safety + liveness
        res, _ = own_tlc("MultiRoundTripMC", "MultiRoundTrip_mc.cfg", workers=workers, timeout=600, heap_gb=4,
                         coverage=not quick)
        vlib.tlc_must_pass(res, "MultiRoundTrip_mc.cfg")
        v.add_tlc("MultiRoundTrip_mc.cfg (limits 10/3, ids {a,b}, all maps, 4 modes, 2 calls)", res)
        if not res.ok:
            raise vlib.MachineryError("MultiRoundTrip violates its own invariant %s: the model is broken" % res.violation)
        if not quick:
            dead = [a for a, (d, t) in res.coverage.items() if t == 0 and a in
                    ("AppCall", "AppRetry", "CSend", "SOther", "SInvoke", "SPost", "SMw", "FBegin", "FEnd", "FSkip", "FAbandon", "FLate", "LBegin", "LDrop", "OEnd",
                     "FJoin", "CPass", "CFinal", "CInput")]
            if dead:
                raise vlib.MachineryError("vacuity: dead actions in MultiRoundTrip_mc.cfg: %s" % dead)
            res3, _ = own_tlc("MultiRoundTripMC", "MultiRoundTrip_mc3.cfg", workers=workers, timeout=900, heap_gb=6)
            vlib.tlc_must_pass(res3, "MultiRoundTrip_mc3.cfg")
            v.add_tlc("MultiRoundTrip_mc3.cfg (ids {a,b,c})", res3)
            if not res3.ok:
                raise vlib.MachineryError("MultiRoundTrip (3 ids) violates %s" % res3.violation)
            cfgtxt = open(os.path.join(vlib.SPEC, "MultiRoundTrip_mc.cfg")).read()
            for wit in WITNESSES:
                txt = re.sub(r"^INVARIANTS.*$", "INVARIANT " + wit, cfgtxt, flags=re.M)
                txt = re.sub(r"^PROPERTIES.*$", "", txt, flags=re.M)
                r2, _ = own_tlc("MultiRoundTripMC", "wit.cfg", extra_files={"wit.cfg": txt}, workers=2, timeout=300, heap_gb=2)
                if r2.violation != wit:
                    raise vlib.MachineryError("vacuity: witness %s not reachable (%s)" % (wit, r2.error or r2.violation))
        live, _ = own_tlc("MultiRoundTripMC", "MultiRoundTrip_live.cfg", workers=workers, timeout=600, heap_gb=4)
        vlib.tlc_must_pass(live, "MultiRoundTrip_live.cfg")
        v.add_tlc("MultiRoundTrip_live.cfg (Terminates under WF, limits 3/2)", live)
        if not live.ok:
            raise vlib.MachineryError("MultiRoundTrip does not terminate in the model: %s" % live.violation)

        # 2a. transition cover
        wd = tempfile.mkdtemp(prefix="x01-")
        vlib._scratch.append(wd)
        dot = os.path.join(wd, "cover.dot")
        rc = vlib.run_tlc("MultiRoundTripMC", "MultiRoundTrip_cover.cfg", workdir=wd, workers=1, timeout=600, heap_gb=4,
                          extra_args=["-dump", "dot,actionlabels", dot])
        vlib.tlc_must_pass(rc, "cover")
        if not rc.ok:
            raise vlib.MachineryError("cover configuration failed: %s" % rc.violation)
        v.add_tlc("MultiRoundTrip_cover.cfg (limits 3/2, representative maps)", rc)
        init, edges = graphwalk.parse_dot(dot)
        seen_actions = {graphwalk.parse_label(l)[0] for outs in edges.values() for (l, _) in outs}
        missing = [a for a in ACTIONS if a not in seen_actions]
        if missing:
            raise vlib.MachineryError("vacuity: actions without an edge in the cover graph: %s" % missing)
        paths, total_edges = graphwalk.cover(init, edges, maxlen=60, seed=seed)
        v.cov["graph_nodes"], v.cov["graph_edges"], v.cov["cover_paths"] = len(edges), total_edges, len(paths)
        cover = {}
        for p in paths:
            sc = scenario_of_path(p)
            if sc is not None:
                cover.setdefault(key_of(sc), sc)
        cover = [cover[k] for k in sorted(cover)]
        v.cov["cover_scripts_distinct"] = len(cover)
        rnd = random.Random(seed)
        rnd.shuffle(cover)
        # 2b. simulations with the code's limits, three ids, two calls
        nsim = 1500 if quick else 20000
        sim, _ = own_tlc("MultiRoundTripGen", "MultiRoundTrip_sim.cfg", workers=1, timeout=600, heap_gb=4,
                         simulate="num=%d" % nsim, depth=800, seed=seed)
        vlib.tlc_must_pass(sim, "simulation")
        v.add_tlc("MultiRoundTrip_sim.cfg (simulation, limits 10/3, ids {a,b,c}, 2 calls)", sim)
        sims = {}
        for h in sim.printed:
            if isinstance(h, list):
                sc = scenario_of_hist(h)
                if sc is not None and any(not c["other"] for c in sc["calls"]):
                    sims.setdefault(key_of(sc), sc)
        sims = [sims[k] for k in sorted(sims)]
        rnd.shuffle(sims)
        v.cov["sim_scripts_distinct"] = len(sims)
        # assignment of methods
        ncover = 1500 if quick else len(cover)
        for i, sc in enumerate(cover[:ncover]):
            ms = [METHODS[(i + seed) % 4]]
            if not quick and i % 2 == 0:
                ms.append(METHODS[(i + seed + 2) % 4])
            for m in ms:
                rows.append(with_method(sc, m, "cover%d-%s" % (i, m)))
        nsims = 500 if quick else 4000
        for i, sc in enumerate(sims[:nsims]):
            rows.append(with_method(sc, METHODS[(i + seed) % 4], "sim%d" % i))
        # 2c. the application re-uses its params object for a second, identical call
        cand = [sc for sc in cover if len(sc["calls"]) == 1 and not sc["calls"][0]["other"] and rounds_of(sc["calls"][0]) >= 1]
        nre = 24 if quick else 240
        for i, sc in enumerate(cand[:nre]):
            r = json.loads(json.dumps(sc))
            c2 = json.loads(json.dumps(r["calls"][0]))
            c2["reuse"] = True
            r["calls"].append(c2)
            rows.append(with_method(r, METHODS[(i + seed) % 4], "reuse%d" % i))
        # 2d. middleware Disabled, the application retries itself, and the resource handler's input-required
        # results carry a ttlMs (SEP-2549 cache hint)
        cand = [sc for sc in cover if sc["mode"] == "newoff" and len(sc["calls"]) == 1 and sc["calls"][0]["manual"] >= 1]
        for i, sc in enumerate(cand[:(12 if quick else 120)]):
            r = json.loads(json.dumps(sc))
            r["calls"][0]["ttl"] = True
            rows.append(with_method(r, "resource", "ttl%d" % i))
    scen = os.path.join(out, "scenarios.ndjson")
    vlib.write_ndjson(scen, rows)
    by_id = {r["id"]: r for r in rows}

    # 3. the real client and server
    obs = os.path.join(out, "obs.ndjson")
    rc_go, gout, wall = vlib.go_test("mcp", "^TestVerif_X01$", ["mcp/x01_mrtr_test.go"],
                                     env={"VERIF_IN": scen, "VERIF_OUT": obs, "VERIF_SEED": seed}, timeout=900,
                                     race=(tier == "thorough"))
    vlib.go_must_build(rc_go, gout, PID)
    obs_rows = vlib.read_ndjson(obs) if os.path.exists(obs) else []
    traces = vlib.split_traces(obs_rows)
    if "DATA RACE" in gout:
        v.violation("race", "data race reported by the race detector", {"output": gout[-3000:]})
    elif rc_go != 0:
        # a panic / deadlock inside the SDK while a scenario runs is real-code behaviour
        last = traces[-1][0] if traces else "?"
        if "panic:" in gout or "deadlock" in gout:
            v.violation("NoCrash:%s" % (by_id.get(last, {}).get("mode", "?")),
                        "the SDK panicked / deadlocked while scenario %s ran" % last,
                        {"scenario": by_id.get(last), "output": gout[-3000:]})
        else:
            raise vlib.MachineryError("X01 harness failed:\n" + gout[-3000:])
    ended = sum(1 for r in obs_rows if r["ev"] == "end")
    if rc_go == 0 and ended != len(rows):
        raise vlib.MachineryError("harness finished %d of %d scenarios" % (ended, len(rows)))
    v.cov["go_wall_s"] = round(wall, 1)
    v.cov["evaluations"] = sum(1 for r in obs_rows if r["ev"] == "ret")
    v.cov["traces_validated_against_impl"] = len(traces)
    v.cov["handler_invocations"] = sum(1 for r in obs_rows if r["ev"] == "inv")
    v.cov["client_handler_invocations"] = sum(1 for r in obs_rows if r["ev"] == "cli" and r["ph"] == "begin")
    v.cov["distinct_nontrivial"] = len({key_of(r) + r["method"] for r in rows
                                        if any(rounds_of(c) >= 1 for c in r["calls"])})
    v.cov["rule"] = ("scripts = projection onto the environment's choices of (a) a transition cover of the TLC state graph "
                     "(every edge), (b) seeded TLC simulations with the code's limits, (c) re-use of the params object; "
                     "distinct by script and method; non-trivial = at least one input-required round")
    # what the real runs reached (vacuity of the replay)
    classes = {}
    retd = {}
    for r in obs_rows:
        if r["ev"] == "ret":
            retd[(r["trace"], r["call"])] = True
            if not r["other"]:
                c = r["err"] or ("needsinput" if r["needs"] else "rawinput" if r["hasir"] else "complete")
                classes[c] = classes.get(c, 0) + 1
        elif r["ev"] == "cli" and r["ph"] == "end" and retd.get((r["trace"], r["call"])):
            classes["orphan"] = classes.get("orphan", 0) + 1
        elif r["ev"] == "inv" and r["mode"] == "old" and r["n"] >= 3:
            classes["hybrid"] = classes.get("hybrid", 0) + 1
    v.cov["real_outcomes"] = classes
    need = ["complete", "handler", "internal", "cfail", "limit", "shedlimit", "busy", "needsinput", "rawinput", "orphan", "hybrid"]
    miss = [] if replay else [c for c in need if not classes.get(c)]
    for tid, start, trows in traces[:: max(1, len(traces) // 4)][:4]:
        v.sample({"trace": tid, "mode": trows[0]["mode"], "method": trows[0]["meth"],
                  "events": [[r["ev"], r["n"], r["out"] or r["err"] or r["ph"]] for r in trows if r["ev"] in ("inv", "cli", "ret")][:12]})
    calls_by_trace = {r["id"]: {i + 1: c for i, c in enumerate(r["calls"])} for r in rows}

    # 4. the monitor: verdict
    fails, mres = run_monitor("MultiRoundTripMon", "MultiRoundTripMon.cfg", obs, timeout=900, heap_gb=6)
    v.add_tlc("MultiRoundTripMon", mres)
    bad = set()
    bad_cases = set()  # (legacy?, method class) of violations that are not about re-used params
    for f in fails:
        e = obs_rows[f["line"] - 1]
        bad.add(e["trace"])
        sig = sig_of(f["monfail"], e, calls_by_trace)
        if not sig.endswith((":reuse", ":cached")):
            bad_cases.add((e["mode"] in ("old", "oldoff"), MCLASS.get(e["meth"], e["meth"])))
        v.violation(sig, "monitor clause %s failed at line %d (scenario %s, call %d, event %s)" % (
            f["monfail"], f["line"], e["trace"], e["call"], e["ev"]),
            {"scenario": by_id.get(e["trace"]), "line": e})
    v.cov["monitor_failures"] = len(fails)
    if miss:
        # on a tree that keeps the properties every outcome class must have been reached (vacuity of the replay);
        # a tree with violations may well have lost some
        if not v.violations:
            raise vlib.MachineryError("vacuity: outcome classes never reached on the real code: %s" % miss)
        v.cov["outcome_classes_not_reached"] = miss

    # 4b. the binding bites: corrupted copies of accepted real traces are rejected
    if not replay:
        good = [(tid, s, tr) for (tid, s, tr) in traces if tid not in bad]
        v.cov["binding_selftest"] = binding_selftest(good, out, must_find=not v.violations)

    # 5. strict: every line explained by MultiRoundTrip.tla (binding / drift)
    # Traces of the same abstract case as a violation (client generation x method) are left out as well: where the
    # code breaks a property it cannot also be expected to follow the model (on a tree without violations nothing
    # is left out).
    same_case = {tid for (tid, s, tr) in traces if tid not in bad and
                 (tr[0]["mode"] in ("old", "oldoff"), MCLASS.get(tr[0]["meth"], tr[0]["meth"])) in bad_cases}
    cur = [r for (tid, s, tr) in traces if tid not in bad and tid not in same_case for r in tr]
    v.cov["strict_traces"] = len({r["trace"] for r in cur})
    v.cov["strict_left_out"] = {"violating": len(bad), "same_case_as_a_violation": len(same_case)}
    for attempt in range(6):
        sp = os.path.join(out, "obs_strict.ndjson")
        vlib.write_ndjson(sp, cur)
        ok, hwm, sres = run_strict("MultiRoundTripTrace", "MultiRoundTripTrace.cfg", sp, timeout=900, heap_gb=6)
        v.add_tlc("MultiRoundTripTrace", sres)
        if ok:
            break
        if hwm is None or hwm < 1:
            v.drift.append("a real trace drives MultiRoundTrip.tla into a state that violates %s" % sres.violation)
            break
        e = cur[hwm - 1]
        v.drift.append("scenario %s: line %d not explained by MultiRoundTrip.tla: %s" % (
            e["trace"], hwm, json.dumps({k: e[k] for k in ("ev", "call", "n", "out", "err", "ph", "key", "dir", "wtype", "rt")})))
        cur = [r for r in cur if r["trace"] != e["trace"]]
    return v.finish()
