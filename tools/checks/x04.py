"""X04 (extension) - the stdio client transport's shutdown protocol (CommandTransport / pipeRWC.Close, ioConn.Close,
ClientSession.Close; the server side's reaction to stdin EOF).

  spec/CmdClose.tla (+ CmdCloseMC, CmdCloseMon); the property statements P1..P5 and the named deviations D1..D3 are the
  comment block at the top of CmdClose.tla.

  1. design     TLC checks the code-shaped model exhaustively for every child class x pre-state x repeated-Close mode:
                the safety invariants (escalation order, bound, reaped, faithful, second close), liveness under weak
                fairness (every Close returns), a closed form of the outcome for the classes without a boundary
                reaction, reachability witnesses, no dead action (-coverage 1).
  2. lead       CmdClose_lead.cfg: TLC is EXPECTED to refute FaithfulIdeal (deviation D1: a refused Process.Kill is
                returned although the child was waited for); the boundary classes are then run on the real code with
                a small td and a sweep of offsets around td (probe cases).
  3. generate   CmdClose_export.cfg: the class table (the cases) and, per class, every outcome the model reaches.
  4. replay     harness/mcp/x04_cmd_test.go: REAL child processes (the test binary re-executed), closed by the real
                CommandTransport connection / ClientSession; td = 1 s (thorough: also 2 s).
  5. verdict    spec/CmdCloseMon.tla over the observations.  Predicates that depend on time are re-run alone and only
                reported when they fail again (a loaded machine is not a defect); drift = outcome not in the model's set.
"""
import json, os, random, shutil, tempfile
import vlib

PID = "X04"
TLC_WORKERS = 4
ACTIONS = ("CloseStdin", "Recv", "Timeout", "SendTerm", "SendKill", "Close2", "Reap", "Deliver", "ChildExit", "Tick")
WITNESSES = ("NeverTerm", "NeverKill", "NeverDone", "NeverTermToZombie", "NeverKillToZombie", "NeverPreExited", "NeverStdin")
# predicates whose failure no amount of machine load can cause on a correct implementation
UNTIMED = {"NoPanic", "Reaped", "Faithful", "SecondSame", "SecondQuiet"}
PROPERTY_OF = {"TermNotEarly": "P1", "KillNotEarly": "P1", "KillAfterTerm": "P1", "NoNeedlessTerm": "P1", "NoNeedlessKill": "P1",
               "PreExited": "P1/P4", "Bounded": "P2", "Responsive": "P2", "Prompt": "P2", "Reaped": "P3", "Faithful": "P3", "NoPanic": "P4",
               "SecondReturns": "P4", "SecondSame": "P4", "SecondQuiet": "P4", "StdinClosedFirst": "P1/P5", "PureClean": "P5"}
NCLASSES = 664
HARNESS = ["mcp/x04_cmd_test.go"]


def own_wd():
    d = tempfile.mkdtemp(prefix="x04-")
    vlib._scratch.append(d)
    return d


def tlc(module, cfg, **kw):
    kw.setdefault("workers", TLC_WORKERS)
    kw.setdefault("heap_gb", 2)
    kw.setdefault("timeout", 600)
    return vlib.run_tlc(module, cfg, workdir=own_wd(), **kw)


def design(v, tier):
    runs = [("CmdClose_mc.cfg", "timers fire on time", True), ("CmdClose_mc_slack.cfg", "timers may fire one tick late", False)]
    if tier == "thorough":
        runs.append(("CmdClose_mc_td16.cfg", "finer clock: 16 ticks per td", False))
    for cfg, what, cov in runs:
        res = tlc("CmdCloseMC", cfg, coverage=cov)
        vlib.tlc_must_pass(res, cfg)
        v.add_tlc("%s (%s; safety + liveness under WF)" % (cfg, what), res)
        if not res.ok:
            raise vlib.MachineryError("the CmdClose model violates %s in %s: design check failed" % (res.violation, cfg))
        if cov:
            dead = [a for a in ACTIONS if a not in res.coverage or res.coverage[a][0] == 0]
            if dead:
                raise vlib.MachineryError("dead actions in %s: %s" % (cfg, dead))
            v.cov["action_coverage"] = {a: res.coverage[a][0] for a in ACTIONS}
    base = open(os.path.join(vlib.SPEC, "CmdClose_wit.cfg")).read()
    for w in WITNESSES:
        r = tlc("CmdCloseMC", "wit.cfg", extra_files={"wit.cfg": base + "INVARIANT %s\n" % w}, workers=1, timeout=300, heap_gb=1)
        if r.violation != w:
            raise vlib.MachineryError("vacuity: witness %s not reachable (%s)" % (w, r.error or r.violation))
    v.cov["witnesses_reached"] = list(WITNESSES)
    r = tlc("CmdCloseMC", "CmdClose_lead.cfg", workers=1, timeout=300, heap_gb=1)
    v.add_tlc("CmdClose_lead.cfg (lead D1: counterexample to FaithfulIdeal expected)", r)
    if r.error:
        raise vlib.MachineryError("lead config: %s" % r.error)
    v.cov["lead_D1_in_model"] = (r.violation == "FaithfulIdeal")
    if tier == "thorough":
        # unbounded in the length of behaviours AND in TD: Apalache discharges the inductive invariant CmdClose!IndInv (every
        # invariant of CmdClose_mc*.cfg, Determined included) for all 664 classes, Slack 0 or 1 and ANY TD that is a positive
        # multiple of 8 (spec/CmdCloseInd.tla: CInit, IndInit)
        ra = apalache_inductive("CmdCloseInd", "CInit", "IndInit", "IndInv")
        v.cov.setdefault("apalache_inductive", []).append(ra)
        if ra["status"] == "refuted":
            raise vlib.MachineryError("CmdClose: IndInv is not inductive (%s)" % ra.get("detail"))
    return r.violation == "FaithfulIdeal"


def apalache_inductive(module, cinit, indinit, inv):
    """vlib.run_apalache_inductive over a copy of spec/ that also holds the typed stub of Json.tla (CmdCloseMC EXTENDS Json,
    which Apalache cannot type: spec/apalache_stubs/).  Called from design(), where no TLC thread of this check is running."""
    d = own_wd()
    for src in (vlib.SPEC, os.path.join(vlib.SPEC, "apalache_stubs")):
        for f in os.listdir(src):
            if f.endswith(".tla"):
                shutil.copy(os.path.join(src, f), d)
    old = vlib.SPEC
    vlib.SPEC = d
    try:
        return vlib.run_apalache_inductive(module, cinit, indinit, inv, timeout=600)
    finally:
        vlib.SPEC = old


def ckey(c):
    return "%s-%s-%s-%s-%s-%s" % (c["kind"], c["eof"], c["term"], c["out"], c["pre"], c["c2"])


def export(v):
    r = tlc("CmdCloseMC", "CmdClose_export.cfg", workers=1)
    vlib.tlc_must_pass(r, "CmdClose_export.cfg")
    if not r.ok:
        raise vlib.MachineryError("export run failed: %s" % r.violation)
    v.add_tlc("CmdClose_export.cfg (class table and every terminal outcome per class)", r)
    table, classes = {}, {}
    for p in r.printed:
        if isinstance(p, dict) and "cls" in p and "out" in p:
            k = ckey(p["cls"])
            classes[k] = p["cls"]
            o = {"err": p["out"]["err"], "st": p["out"]["st"], "hist": list(p["out"]["hist"]), "err2": p["out"]["err2"]}
            if o not in table.setdefault(k, []):
                table[k].append(o)
    if len(classes) != NCLASSES:
        raise vlib.MachineryError("export gave %d classes, expected %d" % (len(classes), NCLASSES))
    v.cov["classes"] = len(classes)
    v.cov["model_outcomes"] = sum(len(x) for x in table.values())
    return classes, table


def base_of(c):
    return (c["kind"], c["eof"], c["term"], c["out"], c["pre"])


def make_cases(classes, tier, seed, lead):
    rng = random.Random(seed)
    cases = []
    by_base = {}
    for k in sorted(classes):
        by_base.setdefault(base_of(classes[k]), []).append(classes[k])
    if tier == "quick":
        for b in sorted(by_base):
            c = rng.choice(by_base[b])
            cases.append({"id": ckey(c), "cls": c, "td": 1000, "off": rng.randrange(-300, 300), "probe": False})
    else:
        for b in sorted(by_base):
            for c in by_base[b]:
                cases.append({"id": ckey(c), "cls": c, "td": 1000, "off": rng.randrange(-300, 300), "probe": False})
            c = rng.choice(by_base[b])
            cases.append({"id": ckey(c) + "-td2", "cls": c, "td": 2000, "off": rng.randrange(-300, 300), "probe": False})
    # probes of the boundary (lead D1): small td, the child exits td + off after the EOF / the SIGTERM
    n = 90 if tier == "quick" else 600
    shapes = [("attd", "ignore"), ("attd", "default"), ("never", "attd")]
    for i in range(n if lead else 0):
        e, t = shapes[i % 3]
        c = {"kind": "raw", "eof": e, "term": t, "out": "quiet", "pre": "running", "c2": "none"}
        cases.append({"id": "probe%d-%s-%s" % (i, e, t), "cls": c, "td": 40, "off": rng.randrange(-1300, 300), "probe": True})
    return cases


def run_harness(cases, out, tag, parallel, seed):
    cin, cout = os.path.join(out, "cases-%s.ndjson" % tag), os.path.join(out, "obs-%s.ndjson" % tag)
    vlib.write_ndjson(cin, cases)
    for attempt in (1, 2):
        rc, gout, wall = vlib.go_test("mcp", "^TestVerif_X04$", HARNESS, env={"VERIF_IN": cin, "VERIF_OUT": cout, "VERIF_SEED": seed, "VERIF_X04_DIR": own_wd()},
                                      timeout=900, parallel=parallel)
        vlib.go_must_build(rc, gout, PID)
        if rc == 0:
            break
        # the test binary was signalled from outside (seen once: "signal: terminated" 0.3 s after its start): once more
        if attempt == 2 or "panic:" in gout or "--- FAIL" in gout or "signal:" not in gout:
            raise vlib.MachineryError("X04 harness failed:\n" + gout[-3000:])
    rows = vlib.read_ndjson(cout)
    os.remove(cout)
    os.remove(cin)
    if len(rows) != len(cases):
        raise vlib.MachineryError("harness ran %d of %d cases" % (len(rows), len(cases)))
    order = {c["id"]: i for i, c in enumerate(cases)}
    rows.sort(key=lambda r: order[r["id"]])
    return rows, wall


def judge(rows, table, out, tag):
    """Attach the model's outcomes and let the TLA+ monitor judge.  Returns {line index -> [invariant names]}."""
    for r in rows:
        r["model"] = table[ckey(r["cls"])]
        r["errtext"] = r["errtext"][:200]
    path = os.path.join(out, "obs.ndjson" if tag == "main" else "obs-%s.ndjson" % tag)
    vlib.write_ndjson(path, rows)
    fails, mres = vlib.run_monitor("CmdCloseMon", "CmdCloseMon.cfg", path, timeout=900, heap_gb=4)
    by_line = {}
    for f in fails:
        by_line.setdefault(f["line"] - 1, []).append(f["monfail"])
    return by_line, mres


def sig_of(inv, r):
    c = r["cls"]
    if inv == "Faithful" and r["err"] == "done":
        return "Faithful:process-already-finished"
    s = "%s:%s/eof=%s/term=%s/out=%s/pre=%s" % (inv, c["kind"], c["eof"], c["term"], c["out"], c["pre"])
    if inv.startswith("Second") or inv == "NoPanic":
        s += "/c2=%s" % c["c2"]
    return s


def brief(r):
    return {k: r[k] for k in ("id", "td", "off", "dur", "err", "errtext", "st", "after", "ceof", "cterm", "cexit", "cexitwhy", "hist",
                              "err2", "dur2", "early2", "after2", "panic", "late", "auto", "zombiems")}


def run(tier, seed, replay):
    v = vlib.Verdict(PID, tier, seed)
    v.assumptions = [
        "Unix only; the children are real processes (the test binary re-executed), the signals are real; SIGKILL always terminates",
        "real time: td = 1 s (thorough: also 2 s), class delays td/8, td, 3td/2; the monitor uses order, lower bounds (one system-wide "
        "monotonic clock) and upper bounds with >= td/2 of slack; a failure of a time-dependent predicate is re-run alone and reported "
        "only when it fails again (otherwise counted as inconclusive)",
        "what the child received is known from its own record (handler classes) and from the wait status (default SIGTERM action, SIGKILL); "
        "a SIGTERM delivered to a child that has already exited (zombie) cannot be observed",
        "the boundary (the child exits at the instant a timer fires) is probed with td = 40 ms and a sweep of offsets; on probe cases only "
        "the predicates that do not depend on time are judged",
        "a signal to a process that was already waited for is excluded by os.Process (trusted base), not observable from outside",
        "TLC exhaustive results are for TD = 8 (and 16) ticks per td, timer lateness <= 1 tick, 664 classes",
    ]
    out = vlib.outdir(PID)
    for f in os.listdir(out):
        if f.startswith(("obs-", "cases-")) and f.endswith(".ndjson"):
            os.remove(os.path.join(out, f))
    if replay:
        rep = json.load(open(replay))["replay"]
        classes, table = export(v)
        cases = []
        for i in range(rep.get("repeat", 1)):
            c = dict(rep["case"])
            c["id"] = "%s-rep%d" % (c["id"], i)
            if c["probe"]:
                c["off"] = random.Random(seed * 1000 + i).randrange(-1300, 300)
            cases.append(c)
    else:
        lead = design(v, tier)
        classes, table = export(v)
        cases = make_cases(classes, tier, seed, lead)
    by_id = {c["id"]: c for c in cases}
    v.cov["cases"] = len(cases)
    v.cov["probe_cases"] = sum(1 for c in cases if c["probe"])

    rows, wall = run_harness(cases, out, "main", 16, seed)
    v.cov["harness_wall_s"] = round(wall, 1)
    bad = [r for r in rows if r["setup"]]
    if bad:
        # a case that cannot be arranged is a machinery problem, unless the SDK panicked
        if any("panic" in r["setup"] for r in bad):
            b = [r for r in bad if "panic" in r["setup"]][0]
            v.violation("NoPanic:setup:%s" % ckey(b["cls"]), "panic while the case was arranged: " + b["setup"][:300], {"case": by_id[b["id"]]})
            return v.finish()
        # arrange again, alone
        again, _ = run_harness([by_id[r["id"]] for r in bad], out, "setup", 2, seed)
        still = [r for r in again if r["setup"]]
        if still:
            raise vlib.MachineryError("case could not be arranged: %s" % json.dumps(still[0])[:400])
        fixed = {r["id"]: r for r in again}
        rows = [fixed.get(r["id"], r) for r in rows]
    by_line, mres = judge(rows, table, out, "main")
    v.add_tlc("CmdCloseMon", mres)
    v.cov["traces_validated_against_impl"] = len(rows)
    v.cov["evaluations"] = len(rows)
    v.cov["distinct_nontrivial"] = len({(ckey(r["cls"]), r["err"], r["st"], tuple(r["hist"]), r["err2"]) for r in rows})
    v.cov["outcomes"] = {}
    for r in rows:
        k = "%s/%s" % (r["err"], r["st"])
        v.cov["outcomes"][k] = v.cov["outcomes"].get(k, 0) + 1
    v.cov["rule"] = ("cases = child classes enumerated by TLC (kind x EOF reaction x SIGTERM reaction x stdout state x pre-state x repeated Close; "
                     "quick: every base class with one seeded repeated-Close mode, thorough: all 664 + every base class again with td = 2 s) + "
                     "boundary probes; distinct = (class, returned error class, wait status, child's record, second result); "
                     "evaluations = Close calls judged")
    v.cov["exhaustive"] = False
    for r in rows[:3]:
        v.sample(brief(r))

    # time-dependent failures: once more, alone
    retry_ids = sorted({rows[i]["id"] for i, invs in by_line.items() if any(x not in UNTIMED for x in invs)})
    again_fail = {}
    if retry_ids:
        rr, _ = run_harness([by_id[i] for i in retry_ids], out, "retry", 2, seed)
        rr = [r for r in rr if not r["setup"]]
        bl2, _ = judge(rr, table, out, "retry")
        for i, invs in bl2.items():
            again_fail[rr[i]["id"]] = (set(invs), rr[i])
    inconclusive = []
    seen = set()
    ndrift = 0
    for i in sorted(by_line):
        r = rows[i]
        for inv in by_line[i]:
            if inv not in UNTIMED:
                second = again_fail.get(r["id"])
                if not second or inv not in second[0]:
                    inconclusive.append({"case": r["id"], "predicate": inv, "first": brief(r)})
                    continue
            if inv == "drift":
                ndrift += 1
                if len(v.drift) < 20:
                    v.drift.append("case %s (twice): the real outcome %s is not among the outcomes of CmdClose.tla %s" % (
                        r["id"], json.dumps([r["err"], r["st"], r["hist"], r["err2"]]), json.dumps(r["model"])[:300]))
                continue
            sig = sig_of(inv, r)
            if sig in seen:
                continue
            seen.add(sig)
            c = by_id[r["id"]]
            v.violation(sig, "%s (%s) fails on the real code: %s" % (inv, PROPERTY_OF.get(inv, "?"), json.dumps(brief(r))[:500]),
                        {"case": c, "repeat": 40 if c["probe"] else 1, "line": brief(r)})
    v.cov["monitor_failures"] = sum(len(x) for x in by_line.values())
    v.cov["inconclusive"] = inconclusive[:20]
    v.cov["inconclusive_count"] = len(inconclusive)
    v.cov["drift_lines"] = ndrift
    dones = [r for r in rows if r["err"] == "done"]
    v.cov["lead_D1_reproduced"] = len(dones)
    if v.cov.get("lead_D1_in_model") and not replay and not dones:
        v.cov["lead_D1_note"] = ("the boundary probes did not hit the window this time (the lead is a race; not reproduced is not drift)")
    if inconclusive:
        print("NOTE: property=%s %d time-dependent failure(s) did not repeat when run alone (inconclusive, see evidence)" % (PID, len(inconclusive)))
    return v.finish()
