"""C15 — OAuth client flow (DESIGN.md section 6, C15; pattern P2).

spec/OAuthFlow.tla is a sequential state machine of AuthorizationCodeHandler.Authorize with the
environment's choice as a parameter of every action.  TLC
  (a) checks the design invariants exhaustively (OAuthFlow_mc.cfg; OAuthFlow_lead.cfg adds the document / challenge
      variants for which the model is expected to violate an invariant: leads, confirmed only by replay;
      at present the challenge "hdr_jslo", see LEAD_CFG),
  (b) dumps the state graph modulo the ghost variables (OAuthFlow_cover.cfg / OAuthFlow_gen.cfg,
      `-dump dot,actionlabels`); the graph is a DAG whose root-to-leaf label sequences are the behaviours:
      a transition cover (every labelled edge), seeded samples, and (thorough) every terminal behaviour of
      the reduced generation configuration are turned into scripts,
  (c) judges the observations of the real Authorize with the monitor OAuthFlowMon.
The outcomes at the authorization-server metadata locations are independent: after a fatal outcome at one location the
environment scripts the later ones too (UnreadASM), so "rejected document at location i, then 4xx at every later location"
is replayed for every i and every fatal outcome (checked below); OAuthFlow_wit.cfg (discovery that goes on after a fatal
outcome) must violate NoFallbackAfterRejected, which shows that the design invariant is not vacuous.

Interleaving dimension: spec/OAuthFlowConc.tla - N Authorize calls in flight on ONE handler, each cut into the blocks
Meta / Reg / Callback / Token / Install between the points where the SDK enters the environment; the environment chooses
the server of every attempt and what each fetcher returns (its own answer, the answer to ANOTHER attempt's request, the
stale answer of a finished attempt, a wrong iss).  TLC checks the per-attempt invariants (ExchangeOnlyOwnState,
MetaBoundToAttempt, PreregBoundToIssuer, NoTokenAfterFailure; VerifierBoundToAttempt, ClientBoundToAttempt,
ResourceBoundToAttempt, TokenFromOwnExchange), the what-if configurations OAuthFlowConc_w*.cfg (one datum of an attempt
kept in a cell of the handler) MUST each violate their invariant, and the state graph (`-dump dot,actionlabels`) gives the
complete schedules: all of them for 2 attempts, a seeded sample for 3 (thorough).  harness/auth/c15_conc_test.go pins each
schedule on the real handler with gates (no sleeps); spec/OAuthFlowConcMon.tla judges every attempt by its own request.
"""
import json, os, random, sys
from collections import deque
from concurrent.futures import ThreadPoolExecutor
import vlib, graphwalk

PID = "C15"
ACTIONS = ["Setup", "ParseChallenge", "FetchPRM", "FallbackRootAS", "FetchASM", "UnreadASM", "PredefinedEndpoints", "Register",
           "GetCode", "CheckState", "CheckIss", "Exchange", "Install", "Finish"]
RESULTS = ["ok", "nil403", "parse", "no_as", "asm", "prereg", "dcr", "noreg", "fetcher", "state", "iss", "exchange", "post"]
SCRIPT = ("js", "data", "vbs")
LEAD_CFG = None  # "OAuthFlow_lead.cfg" is needed while OAuthFlow.PRMLeadDocs / ChallengeLeads are not empty (else None)
# URL classes (OAuthFlow!URLClasses: scheme class x authority class x form) that must have been concretised in a URL field
# of a served metadata document of each kind: tags as written by the harness (c15URLCls.tag), script scheme abstracted
URL_CLASSES = ("https", "lo", "http", "opaque-script", "script_lo", "script_rem")
# relation classes of an issuer identifier (OAuthFlow.tla: IssSame, IssEquiv, IssNear); used here only to name
# signatures and to check that every class was concretised (the verdict is the monitor's)
ISS_MATCH = ("exact", "slash", "case", "dot")
ISS_NEAR = ("port", "scheme", "userinfo", "query", "fragment", "hostsfx", "sub", "prefix")
ISS_EQUIV = ("case", "dot")
ASM_4XX = ("404", "401")
# OAuthFlow!ASMList: the locations after a given one
ASM_LATER = {"oauth": ["oidc"], "oauth_ins": ["oidc_ins", "oidc_app"], "oidc_ins": ["oidc_app"]}


# --------------------------------------------------------------------------
# behaviours from the dumped DAG


def load_graph(dot):
    init, edges = graphwalk.parse_dot(dot)
    if len(init) != 1:
        raise vlib.MachineryError("expected one initial state, got %d" % len(init))
    return init[0], edges


def steps_of(labels):
    return [list(graphwalk.parse_label(l)) for l in labels]


def path_counts(root, edges):
    """number of root-to-leaf label sequences below every node (the graph is acyclic)"""
    cnt, order, seen, stack = {}, [], set(), [(root, iter(edges.get(root, [])))]
    seen.add(root)
    onstack = {root}
    while stack:
        n, it = stack[-1]
        adv = False
        for (_, v) in it:
            if v in onstack:
                raise vlib.MachineryError("state graph has a cycle: not a sequential flow")
            if v not in seen:
                seen.add(v)
                onstack.add(v)
                stack.append((v, iter(edges.get(v, []))))
                adv = True
                break
        if not adv:
            stack.pop()
            onstack.discard(n)
            order.append(n)
    for n in order:  # children first
        outs = edges.get(n, [])
        cnt[n] = 1 if not outs else sum(cnt[v] for (_, v) in outs)
    return cnt


def dag_cover(root, edges, seed):
    """label sequences root->leaf such that every edge is on at least one of them"""
    rnd = random.Random(seed)
    pred = {root: None}
    dq = deque([root])
    while dq:
        u = dq.popleft()
        for (l, v) in edges.get(u, []):
            if v not in pred:
                pred[v] = (u, l)
                dq.append(v)
    unc = {u: set(outs) for u, outs in edges.items() if u in pred and outs}
    total = sum(len(s) for s in unc.values())
    below = {}

    def has_unc(n):
        # iterative post-order with memo
        if n in below:
            return below[n]
        stack = [n]
        while stack:
            x = stack[-1]
            if x in below:
                stack.pop()
                continue
            pend = [v for (_, v) in edges.get(x, []) if v not in below]
            if pend:
                stack.extend(pend)
                continue
            below[x] = bool(unc.get(x)) or any(below[v] for (_, v) in edges.get(x, []))
            stack.pop()
        return below[n]

    def mark(u, l, v):
        s = unc.get(u)
        if s is not None:
            s.discard((l, v))
            if not s:
                del unc[u]

    paths = []
    order = sorted(unc, key=lambda n: (depth(pred, n), n))
    since = 0
    for u in order:
        while u in unc:
            if since >= 64:
                below.clear()
                since = 0
            since += 1
            pre = []
            n = u
            while pred[n] is not None:
                p, l = pred[n]
                pre.append((p, l, n))
                n = p
            pre.reverse()
            l, v = rnd.choice(sorted(unc[u]))
            steps = pre + [(u, l, v)]
            cur = v
            while edges.get(cur):
                outs = edges[cur]
                cand = sorted(unc.get(cur, ()))
                if cand:
                    l2, v2 = rnd.choice(cand)
                else:
                    good = [(a, b) for (a, b) in outs if has_unc(b)]
                    l2, v2 = rnd.choice(good or outs)
                steps.append((cur, l2, v2))
                cur = v2
            for (a, b, c) in steps:
                mark(a, b, c)
            paths.append([b for (_, b, _) in steps])
    return paths, total


def depth(pred, n):
    d = 0
    while pred[n] is not None:
        n = pred[n][0]
        d += 1
    return d


def sample_paths(root, edges, cnt, n, seed, uniform):
    rnd = random.Random(seed)
    out = []
    for _ in range(n):
        cur, labels = root, []
        while edges.get(cur):
            outs = edges[cur]
            if uniform:
                k = rnd.randrange(cnt[cur])
                for (l, v) in outs:
                    if k < cnt[v]:
                        break
                    k -= cnt[v]
            else:
                l, v = outs[rnd.randrange(len(outs))]
            labels.append(l)
            cur = v
        out.append(labels)
    return out


def all_paths(root, edges, limit):
    out, stack = [], [(root, [])]
    while stack:
        n, labels = stack.pop()
        outs = edges.get(n, [])
        if not outs:
            out.append(labels)
            if len(out) > limit:
                raise vlib.MachineryError("generation configuration has more than %d terminal behaviours" % limit)
            continue
        for (l, v) in outs:
            stack.append((v, labels + [l]))
    return out


def unread_key(steps):
    """(location, fatal outcome, outcomes at the later locations) of a behaviour with an UnreadASM step"""
    last = None
    for name, args in steps:
        if name == "FetchASM":
            last = (args[0], args[1])
        elif name == "UnreadASM" and last:
            return last + (tuple(a for a in args if a != "-"),)
    return None


# --------------------------------------------------------------------------
# signatures (the verdict is TLC's; this only names the abstract failing case)


def used_docs(e):
    uses = {r["doc"] for r in e["reqs"]}
    if e["auth"]["called"]:
        uses.add(e["auth"]["doc"])
    return [d for i, d in enumerate(e["served"], 1) if i in uses]


def origin_of(e, r):
    if r["doc"] > 0 and r["doc"] <= len(e["served"]):
        d = e["served"][r["doc"] - 1]
        return "%s=%s" % (d["kind"], d["var"])
    if r["kind"] == "prm" and r["loc"] == "hdr":  # the URL is the challenge's resource_metadata parameter
        return "cfg=%s" % e["cfg"]["ch"]
    return "cfg=%s/%s" % (e["cfg"]["ch"], e["cfg"]["mcp"])


def cls_safe(c):
    """names only (mirrors OAuthFlow!Safe; the verdict is the monitor's)"""
    return c["sch"] not in SCRIPT and (c["sch"] == "https" or c["auth"] == "lo")


def class_name(tag):
    """the URL class of a harness tag with the concrete script-capable scheme abstracted away where the harness picks it"""
    for sfx in ("_lo", "_rem", "_noauth"):
        if tag.endswith(sfx) and tag[: -len(sfx)] in SCRIPT:
            return "script" + sfx
    return tag


def primary_sigs(e):
    sigs = {}
    for r in e["reqs"]:
        if not cls_safe(r["cls"]):
            sigs.setdefault("OnlySafeURLs", set()).add("OnlySafeURLs:%s:%s:%s" % (r["kind"], class_name(r["tag"]), origin_of(e, r)))
    for d in used_docs(e):
        ok = d["match"] == "exact" if d["kind"] == "prm" else d["match"] in ISS_MATCH
        if not ok:
            sigs.setdefault("UsedOnlyIfMatching", set()).add("UsedOnlyIfMatching:%s:%s" % (d["kind"], d["var"]))
        if d["kind"] == "asm" and not d["pkce"]:
            sigs.setdefault("PKCERequired", set()).add("PKCERequired:%s" % d["var"])
        if d["script"]:
            sigs.setdefault("NoScriptSchemes", set()).add("NoScriptSchemes:%s:%s" % (d["kind"], d["var"]))
    a = e["ares"]
    authsig = "state=%s,iss=%s,adv=%d" % (a["stvar"], a["issvar"], int(e["auth"]["adv"]))
    if any(r["kind"] == "token" and r["grant"] == "authorization_code" for r in e["reqs"]):
        sigs.setdefault("ExchangeOnlyIfStateAndIss", set()).add("ExchangeOnlyIfStateAndIss:" + authsig)
    pres = [r["pre"] for r in e["reqs"] if r["cred"] == "prereg"]
    if e["auth"]["called"] and e["auth"]["cred"] == "prereg":
        pres.append(e["auth"]["pre"])
    if any(p != "unset" and p not in ISS_MATCH for p in pres):
        sigs.setdefault("PreregBoundToIssuer", set()).add("PreregBoundToIssuer:p=%s" % e["cfg"]["p"])
    predef_as = {r["as"] for r in e["reqs"] if r["predef"]}
    if e["auth"]["called"] and e["auth"]["predef"]:
        predef_as.add(e["auth"]["as"])
    for d in e["served"]:
        if d["kind"] == "asm" and d["for"] in predef_as and not (d["match"] in ISS_MATCH and d["pkce"] and not d["script"]):
            sigs.setdefault("NoFallbackAfterRejected", set()).add("NoFallbackAfterRejected:asm:%s@%s" % (d["var"], d["loc"]))
    return sigs, authsig


def sig_for(e, inv, failed_invs):
    sigs, authsig = primary_sigs(e)
    if inv == "NoPanic":
        return ["NoPanic"]
    if inv == "NoTokenAfterFailure":
        causes = sorted(s for k in failed_invs if k in sigs and k != "ExchangeOnlyIfStateAndIss" for s in sigs[k])
        if not causes:
            causes = [authsig]
        return ["NoTokenAfterFailure:after=" + "+".join(causes)]
    return sorted(sigs.get(inv, [inv + ":?"]))


# --------------------------------------------------------------------------
# interleaving dimension: spec/OAuthFlowConc.tla, harness/auth/c15_conc_test.go, spec/OAuthFlowConcMon.tla

CONC_ACTIONS = ["Handler", "Meta", "Reg", "Callback", "Token", "Install"]
# what-if configurations (one per-attempt datum kept in a cell of the handler) and the invariant each MUST violate
CONC_WITNESSES = [("state", "ExchangeOnlyOwnState"), ("verifier", "VerifierBoundToAttempt"), ("meta", "MetaBoundToAttempt"),
                  ("client", "ClientBoundToAttempt"), ("resource", "ResourceBoundToAttempt"), ("token", "TokenFromOwnExchange")]
CONC3_UNIFORM, CONC3_WALKS = 40000, 10000  # thorough: seeded sample of the complete schedules of 3 attempts
CONC_HARNESS = ["auth/c15_oauthflow_test.go", "auth/c15_conc_test.go"]
# what the drift clauses of OAuthFlowConcMon say (OAuthFlowConc invariants beyond the text of C15)
CONC_DRIFT = {"drift:verifier": "VerifierBoundToAttempt: the code_verifier an attempt sends is not the one whose S256 challenge went out with its authorization request",
              "drift:client": "ClientBoundToAttempt: the client id in an attempt's token request is not the one of its authorization request / its own registration",
              "drift:resource": "ResourceBoundToAttempt: the resource parameter of an attempt is not the URL it was called for",
              "drift:redirect": "the redirect_uri of an attempt's token request differs from the one of its authorization request",
              "drift:code": "the code an attempt redeems is not the one in the callback it was given",
              "drift:install": "TokenFromOwnExchange: the token an attempt installs is not the one issued to its own token request",
              "drift:outcome": "an attempt ends otherwise than OAuthFlowConc specifies"}


def conc_dump(cfg, workers=1):
    wd = vlib.scratch("tlc-")
    dot = os.path.join(wd, "conc.dot")
    res = vlib.run_tlc("OAuthFlowConc", cfg, workdir=wd, workers=workers, timeout=600, heap_gb=3,
                       extra_args=["-dump", "dot,actionlabels", dot, "-noGenerateSpecTE"])
    vlib.tlc_must_pass(res, cfg)
    if not res.ok:
        raise vlib.MachineryError("OAuthFlowConc (%s) violates its own invariant %s: the model is broken" % (cfg, res.violation))
    root, edges = load_graph(dot)
    return res, root, edges


def conc_finished(done, name, a):
    """book-keeping: the attempts whose Authorize has returned after this step of a schedule"""
    if name == "Install" or (name == "Callback" and a[3] != "pass") or (name == "Token" and a[1] != "good") or (name == "Meta" and a[2] != "go"):
        done.add(a[0])


def conc_overlap(steps):
    """a Callback(i, other j, ..): attempt i is handed the answer to attempt j's request while j is still in flight"""
    done = set()
    for name, a in steps:
        if name == "Callback" and a[1] == "other" and a[2] not in done:
            return True
        conc_finished(done, name, a)
    return False


def conc_model(tier, seed, only=None):
    """TLC on OAuthFlowConc: design invariants, what-if witnesses, schedules.  Returns {"tlc": [(name, res)], "rows": [...], "cov": {...}}"""
    tlc, cov = [], {}
    if only is not None:
        return {"tlc": tlc, "rows": [only], "cov": {"rule": "replay of one recorded schedule"}}
    cfg2 = "OAuthFlowConc.cfg" if tier == "quick" else "OAuthFlowConc_t.cfg"
    res, root, edges = conc_dump(cfg2)
    tlc.append(("%s (2 attempts on one handler: per-attempt invariants; state graph = all complete schedules)" % cfg2, res))
    paths = all_paths(root, edges, 100000)
    rows = [{"id": "conc2-%d" % i, "steps": steps_of(p)} for i, p in enumerate(sorted(paths))]
    cov["schedules_2_attempts"] = len(rows)
    seen = {s[0] for r in rows for s in r["steps"]}
    kinds = {(s[1][1], s[1][3]) for r in rows for s in r["steps"] if s[0] == "Callback"}
    need = {("own", "pass"), ("other", "state"), ("stale", "state"), ("badiss", "iss")}
    if [a for a in CONC_ACTIONS if a not in seen] or need - kinds or not any(conc_overlap(r["steps"]) for r in rows):
        raise vlib.MachineryError("vacuity: schedule export of %s lacks %s / %s" % (cfg2, [a for a in CONC_ACTIONS if a not in seen], sorted(need - kinds)))
    cov["schedules_with_foreign_callback_in_flight"] = sum(1 for r in rows if conc_overlap(r["steps"]))
    wits = CONC_WITNESSES if tier == "thorough" else CONC_WITNESSES[:1]
    cov["whatif"] = {}
    for field, inv in wits:
        cfg = "OAuthFlowConc_w%s.cfg" % field
        w = vlib.run_tlc("OAuthFlowConc", cfg, workers=1, timeout=300, heap_gb=2, extra_args=("-noGenerateSpecTE",))
        vlib.tlc_must_pass(w, cfg)
        tlc.append(("%s (what-if: the %s of an attempt kept in a cell of the handler: %s must fail)" % (cfg, field, inv), w))
        if w.violation != inv:
            raise vlib.MachineryError("what-if %s (shared %s) must violate %s; got %s" % (cfg, field, inv, w.violation or "no violation"))
        cov["whatif"][field] = "violates %s (as required)" % inv
    rule = "all %d complete schedules of 2 attempts (%s)" % (len(rows), cfg2)
    if tier == "thorough":
        res3, root3, edges3 = conc_dump("OAuthFlowConc3.cfg", workers=2)
        tlc.append(("OAuthFlowConc3.cfg (3 attempts on one handler: per-attempt invariants; state graph)", res3))
        cnt3 = path_counts(root3, edges3)
        p3 = sample_paths(root3, edges3, cnt3, CONC3_UNIFORM, seed, True) + sample_paths(root3, edges3, cnt3, CONC3_WALKS, seed + 7919, False)
        uniq = sorted({tuple(p) for p in p3})
        rows += [{"id": "conc3-%d" % i, "steps": steps_of(list(p))} for i, p in enumerate(uniq)]
        cov["schedules_3_attempts_total"], cov["schedules_3_attempts_replayed"] = cnt3[root3], len(uniq)
        rule += "; a seeded sample of %d of the %d complete schedules of 3 attempts (uniform + random walks)" % (len(uniq), cnt3[root3])
    cov["rule"] = rule
    return {"tlc": tlc, "rows": rows, "cov": cov}


def conc_env(out, rows):
    cin, cobs = os.path.join(out, "conc.ndjson"), os.path.join(out, "obs_conc.ndjson")
    vlib.write_ndjson(cin, rows)
    if os.path.exists(cobs):
        os.remove(cobs)
    return cin, cobs


# (the four predicates below mirror OAuthFlowConcMon and only NAME the failing attempt; the verdict is the monitor's)
def _c_state_own(a):
    return a["auth"]["called"] and a["cb"]["got"] and a["auth"]["state"] != "" and a["cb"]["state"] == a["auth"]["state"]


def _c_iss_own(a):
    iss = a["cb"]["iss"]
    return (iss == "" or iss == a["issuer"]) and (not a["adv"] or iss != "")


def _c_meta_own(a):
    rs = a["regs"] + a["toks"]
    return all(r["as"] == a["asked"] and a["asked"] != "" for r in rs) and (not a["auth"]["called"] or a["auth"]["as"] == a["asked"] != "") \
        and (a["issuer"] == "" or a["issuer"] == a["asked"])


def _c_pre_own(e, a):
    pid, piss = e["cfg"]["preid"], e["cfg"]["preiss"]
    return all(t["client"] != pid or t["as"] == piss for t in a["toks"]) and \
        (not (a["auth"]["called"] and a["auth"]["client"] == pid) or a["auth"]["as"] == piss)


def conc_context(e, a, steps):
    """the abstract situation of attempt a: registration, the callback it was given, what the attempt that callback belongs to was
    doing, same / another server"""
    cb = a["cb"]
    kind = cb["kind"] if cb["got"] else "none"
    ctx = "reg=%s:cb=%s" % (e["cfg"]["reg"], kind)
    if kind == "other" and 1 <= cb["from"] <= len(e["att"]):
        b = e["att"][cb["from"] - 1]
        ctx += ",server=%s" % ("same" if b["srv"] == a["srv"] else "other")
        done = set()  # was the owner of the callback still in flight when it was delivered?
        for name, args in steps or []:
            if name == "Callback" and args[0] == a["att"]:
                ctx += ",owner=%s" % ("finished" if cb["from"] in done else "in-flight")
                break
            conc_finished(done, name, args)
    ctx += ":iss-advertised=%d" % int(a["adv"])
    return ctx


def conc_sigs(e, inv, steps):
    """signatures of one monitor failure (names the attempts the clause fails for)"""
    n = len(e["att"])
    out = []
    for a in e["att"]:
        bad, got = False, "?"
        if inv == "ExchangeOnlyOwnState":
            bad = any(t["grant"] == "authorization_code" for t in a["toks"]) and not (_c_state_own(a) and _c_iss_own(a))
            got = "exchanged:state=%s,iss=%s" % ("own" if _c_state_own(a) else "not-own", "ok" if _c_iss_own(a) else "bad")
        elif inv == "UsedOnlyIfMatching":
            bad, got = not _c_meta_own(a), "endpoint-of-other-metadata"
        elif inv == "PreregBoundToIssuer":
            bad, got = not _c_pre_own(e, a), "prereg-credentials-to-other-issuer"
        elif inv == "NoTokenAfterFailure":
            seen = {s["token"] for s in e["snaps"]} | {x["after"] for x in e["att"]} | {e["final"]}
            passed = _c_state_own(a) and _c_iss_own(a) and _c_meta_own(a) and _c_pre_own(e, a)
            bad, got = (not passed) and any(t in seen for t in a["issued"]), "token-of-failed-attempt-installed"
        elif inv == "NoPanic":
            bad, got = a["panic"] != "", "panic"
        if bad:
            out.append("conc[%d]:%s:%s:%s" % (n, inv, conc_context(e, a, steps), got))
    return sorted(set(out)) or ["conc[%d]:%s:?" % (n, inv)]


def conc_judge(v, crun, cobs, go_out):
    """monitor verdict over the observations of the replayed schedules; returns (TLC result, schedules replayed, violations, drift
    lines): the caller reports them after those of the sequential behaviours"""
    rows = crun["rows"]
    viols, drifts = [], []
    if not os.path.exists(cobs):
        raise vlib.MachineryError("C15 concurrent harness wrote no observations:\n" + go_out[-2000:])
    obs = vlib.read_ndjson(cobs)
    if len(obs) != len(rows):
        raise vlib.MachineryError("concurrent harness replayed %d of %d schedules" % (len(obs), len(rows)))
    broken = [e for e in obs if e["fail"]]
    stuck = [e for e in obs if any(str(s["token"]).startswith("!") for s in e["snaps"]) or str(e["final"]).startswith("!")]
    if broken or stuck:
        e = (broken or stuck)[0]
        raise vlib.MachineryError("the replay of schedule %s broke down: %s" % (e["id"], e["fail"] or "TokenSource() did not answer"))
    fails, mres = vlib.run_monitor("OAuthFlowConcMon", "OAuthFlowConcMon.cfg", cobs, timeout=900, heap_gb=4)
    by_line = {}
    for f in fails:
        by_line.setdefault(f["line"], []).append(f["monfail"])
    steps_by_id = {r["id"]: r["steps"] for r in rows}
    ndrift, drift_kinds = 0, {}
    for line, invs in sorted(by_line.items()):
        e = obs[line - 1]
        steps = steps_by_id.get(e["id"])
        for inv in invs:
            if inv.startswith("drift"):
                ndrift += 1
                drift_kinds[inv] = drift_kinds.get(inv, 0) + 1
                if drift_kinds[inv] <= 3:
                    det = "; ".join("attempt %d: %s via %s (OAuthFlowConc: %s via %s)" % (a["att"], a["err"], "/".join(a["path"]), a["expres"], "/".join(a["exppath"]))
                                    for a in e["att"] if a["err"] != a["expres"] or a["path"] != a["exppath"])
                    drifts.append("schedule %s (%d attempts on one handler): %s (%s)%s" % (e["id"], e["n"], inv, CONC_DRIFT.get(inv, "?"), (" - " + det) if det else ""))
                continue
            for sig in conc_sigs(e, inv, steps):
                viols.append((sig, "real Authorize violates %s with %d attempts in flight on one handler (schedule %s: %s)" % (
                    inv, e["n"], e["id"], " ".join("%s(%s)" % (s[0], ",".join(str(x) for x in s[1])) for s in (steps or []))),
                    {"conc": {"id": e["id"], "steps": steps}, "observation": e}))
    cov = dict(crun["cov"])
    cov.update({"schedules_replayed": len(obs), "attempts": sum(e["n"] for e in obs),
                "token_requests": sum(len(a["toks"]) for e in obs for a in e["att"]),
                "attempts_refused_at_state_check": sum(1 for e in obs for a in e["att"] if a["err"] == "state"),
                "attempts_refused_at_iss_check": sum(1 for e in obs for a in e["att"] if a["err"] == "iss"),
                "attempts_ok": sum(1 for e in obs for a in e["att"] if a["err"] == "ok"),
                "drift_count": ndrift, "drift_kinds": drift_kinds})
    v.cov["concurrent"] = cov
    return mres, len(obs), viols, drifts


def conc_report(v, viols, drifts):
    """one representative of every violated clause first (vlib prints the first dozen)"""
    firsts, later, seen = [], [], set()
    for x in viols:
        k = x[0].split(":")[1]
        (later if k in seen else firsts).append(x)
        seen.add(k)
    for sig, desc, rep in firsts + later:
        v.violation(sig, desc, rep)
    v.drift.extend(drifts)


# --------------------------------------------------------------------------


def run(tier, seed, replay):
    v = vlib.Verdict(PID, tier, seed)
    v.assumptions = [
        "TLS is not exercised: the injected http.Client has a fake RoundTripper; redirects are not scripted",
        "golang.org/x/oauth2 performs the token request it is asked to (its request is observed at the RoundTripper)",
        "issuer identifiers match modulo one trailing slash (the SDK's documented tolerance); a different port, scheme, userinfo, "
        "query, fragment, host suffix or path (extra segment / strict prefix) is a different issuer; identifiers that differ only in the "
        "letter case of scheme/host or in a trailing dot after the host are neither required to match nor counted as a mismatch "
        "(for metadata and pre-registered credentials; the RFC 9207 iss parameter must be string-equal); resource identifiers must be identical",
        "a served document counts as 'used' iff a later request URL or the authorization URL was taken or derived from it; "
        "the predefined (2025-03-26, server without metadata) endpoints of an authorization server are derived from every answer that "
        "server gave at its well-known locations: a document among them that fails the issuer / PKCE / script-scheme check is a failed "
        "check, not absent metadata (a 5xx, network or JSON failure, or an http-non-loopback endpoint in the document, followed by the "
        "fallback is reported as drift only)",
        "URL classes (scheme class https / http / script-capable x authority class loopback / other / none x form hierarchical / "
        "opaque) are computed by the harness with net/url and net/netip; 'an https or loopback URL' is read as: scheme https, or a "
        "loopback authority under a scheme that is not script-capable (javascript://localhost/... is not a safe request target)",
        "interleavings: N Authorize calls in flight on ONE handler (the doc comments of auth/authorization_code.go state no "
        "restriction on concurrent use; `mu` is documented as protecting concurrent access), each cut into the blocks Meta / Reg / "
        "Callback / Token / Install of OAuthFlowConc.tla = the code between two points where the SDK enters the environment "
        "(registration request, fetcher, token request, NewTokenSource); a schedule is pinned with gates at those points, one attempt "
        "runs at a time, attempts are told apart by a context value; interleavings INSIDE a block (e.g. between generating the state "
        "and invoking the fetcher) are not enumerated; 'the state generated for this attempt' is read as the state parameter of the "
        "authorization URL that attempt's fetcher was handed; the scripted token endpoint answers whatever it is sent; values of one "
        "attempt showing up in another attempt's requests (code_verifier, client id from registration, resource, redirect_uri) are "
        "beyond the text of C15 and reported as drift",
    ]
    out = vlib.outdir(PID)
    rep = None
    if replay:
        # a violation file: replay exactly that behaviour, with the same seed (the harness derives every
        # concrete string from the seed and the behaviour id)
        rep = json.load(open(replay))
        seed = int(rep.get("seed", seed))
        v.seed = seed
    for f in os.listdir(out):  # violation files of earlier runs
        if f.startswith("violation-") and f.endswith(".json"):
            os.remove(os.path.join(out, f))
    workers = min(4, vlib.NCPU)
    # 0. interleaving dimension: a recorded concurrent schedule is replayed alone; otherwise TLC on OAuthFlowConc runs beside the
    # design check of OAuthFlow (a replay of a recorded sequential behaviour leaves the concurrent part out)
    if rep and isinstance(rep.get("replay"), dict) and rep["replay"].get("conc"):
        crun = conc_model(tier, seed, only=rep["replay"]["conc"])
        cin, cobs = conc_env(out, crun["rows"])
        rc_go, gout, wall = vlib.go_test("auth", "^TestVerif_C15Conc$", CONC_HARNESS,
                                         env={"VERIF_IN2": cin, "VERIF_OUT2": cobs, "VERIF_SEED": seed}, timeout=900)
        vlib.go_must_build(rc_go, gout, PID)
        if rc_go != 0:
            raise vlib.MachineryError("C15 concurrent harness failed:\n" + gout[-3000:])
        mres, nobs, cviols, cdrifts = conc_judge(v, crun, cobs, gout)
        conc_report(v, cviols, cdrifts)
        v.add_tlc("OAuthFlowConcMon", mres)
        v.cov["evaluations"] = v.cov["traces_validated_against_impl"] = nobs
        v.cov["rule"] = crun["cov"]["rule"]
        v.cov["exhaustive"] = False
        return v.finish()
    pool = ThreadPoolExecutor(max_workers=2)
    conc_future = None if replay else pool.submit(conc_model, tier, seed)
    res = vlib.run_tlc("OAuthFlowMC", "OAuthFlow_mc.cfg", workers=workers, timeout=600, heap_gb=4)
    vlib.tlc_must_pass(res, "OAuthFlow_mc.cfg")
    v.add_tlc("OAuthFlow_mc.cfg (design invariants, all variant sets)", res)
    if not res.ok:
        raise vlib.MachineryError("OAuthFlow violates its own invariant %s: the model is broken" % res.violation)
    # 1a. unbounded in the length of behaviours: Apalache discharges the inductive invariant OAuthFlow!IndInv (the nine design
    # invariants of OAuthFlow_mc.cfg + what every step has established when the program counter is where it is) for the full
    # variant sets of the module.  Base 23 s + step 137 s under load: thorough tier and only on request
    # (VERIF_APALACHE_SLOW=1); never in replay mode.  Last run 2026-09-25: proved, 137.5 s.
    if tier != "quick" and not replay and os.environ.get("VERIF_APALACHE_SLOW"):
        ra = vlib.run_apalache_inductive("OAuthFlow", "CInit", "IndInit", "IndInv", timeout=1200)
        v.cov.setdefault("apalache_inductive", []).append(ra)
        if ra["status"] == "refuted":
            raise vlib.MachineryError("OAuthFlow: IndInv is not inductive (%s)" % ra.get("detail"))
    # 1b. leads: variants for which the code-shaped model violates an invariant (OAuthFlow.PRMLeadDocs, ChallengeLeads).
    # At present: the challenge "hdr_jslo" (resource_metadata = script-capable scheme, hierarchical form, loopback authority),
    # which checkHTTPSOrLoopback lets through to the client.  ("field_js" was a lead document until /repo 7fe7bee.)
    leads = []
    if LEAD_CFG:
        lead = vlib.run_tlc("OAuthFlowMC", LEAD_CFG, workers=workers, timeout=600, heap_gb=4)
        vlib.tlc_must_pass(lead, LEAD_CFG)
        v.add_tlc(LEAD_CFG + " (lead documents included)", lead)
        leads = [lead.violation] if lead.violation else []
    v.cov["model_leads"] = leads
    # 1c. sensitivity of the design invariant: a discovery that goes on after a fatal outcome must violate it
    wit = vlib.run_tlc("OAuthFlowMC", "OAuthFlow_wit.cfg", workers=workers, timeout=600, heap_gb=4)
    vlib.tlc_must_pass(wit, "OAuthFlow_wit.cfg")
    v.add_tlc("OAuthFlow_wit.cfg (discovery goes on after a fatal outcome: NoFallbackAfterRejected must fail)", wit)
    if wit.ok or wit.violation != "NoFallbackAfterRejected":
        raise vlib.MachineryError("vacuity: OAuthFlow_wit.cfg does not violate NoFallbackAfterRejected (%s)" % wit.violation)
    # 1d. sensitivity of NoScriptSchemes to the URL-class dimension: checkURLScheme left out on the four fields that
    # checkHTTPSOrLoopback looks at as well must violate it (a script-capable scheme with a loopback authority passes the latter)
    wit2 = vlib.run_tlc("OAuthFlowMC", "OAuthFlow_wit2.cfg", workers=1, timeout=300, heap_gb=2)
    vlib.tlc_must_pass(wit2, "OAuthFlow_wit2.cfg")
    v.add_tlc("OAuthFlow_wit2.cfg (no scheme deny-list on the https-or-loopback-checked fields: NoScriptSchemes must fail)", wit2)
    if wit2.ok or wit2.violation != "NoScriptSchemes":
        raise vlib.MachineryError("vacuity: OAuthFlow_wit2.cfg does not violate NoScriptSchemes (%s)" % wit2.violation)
    # 2. behaviours
    wd = vlib.scratch("tlc-")
    dot = os.path.join(wd, "cover.dot")
    rc = vlib.run_tlc("OAuthFlowMC", "OAuthFlow_cover.cfg", workdir=wd, workers=1, timeout=600, heap_gb=4,
                      extra_args=["-dump", "dot,actionlabels", dot])
    vlib.tlc_must_pass(rc, "cover")
    if not rc.ok:
        raise vlib.MachineryError("cover configuration failed: %s" % rc.violation)
    v.add_tlc("OAuthFlow_cover.cfg (state graph modulo ghosts)", rc)
    root, edges = load_graph(dot)
    cnt = path_counts(root, edges)
    # vacuity: every action and every result class occurs in the graph
    seen_actions, seen_results = set(), set()
    for outs in edges.values():
        for (l, _) in outs:
            name, args = graphwalk.parse_label(l)
            seen_actions.add(name)
            if name == "Finish":
                seen_results.add((args[0], args[1]))
    missing = [a for a in ACTIONS if a not in seen_actions] + [r for r in RESULTS if r not in {x for (x, _) in seen_results}]
    if missing or ("ok", True) not in seen_results:
        raise vlib.MachineryError("vacuity: not reachable in the model: %s" % missing)
    rows = []
    if replay:
        rows = [{"id": rep["replay"].get("id", "replay"), "steps": rep["replay"]["steps"]}]
        total_edges = 0
        exhaustive = False
    else:
        paths, total_edges = dag_cover(root, edges, seed)
        rows += [{"id": "cover%d" % i, "steps": steps_of(p)} for i, p in enumerate(paths)]
        nrand = 2000 if tier == "quick" else 120000
        for i, p in enumerate(sample_paths(root, edges, cnt, nrand // 2, seed, True)):
            rows.append({"id": "unif%d" % i, "steps": steps_of(p)})
        for i, p in enumerate(sample_paths(root, edges, cnt, nrand - nrand // 2, seed + 7919, False)):
            rows.append({"id": "walk%d" % i, "steps": steps_of(p)})
        exhaustive = False
        v.cov["graph_nodes"], v.cov["graph_edges"], v.cov["cover_paths"] = len(edges), total_edges, len(paths)
        v.cov["terminal_behaviours_full_model"] = cnt[root]
        if tier == "thorough":
            wd2 = vlib.scratch("tlc-")
            dot2 = os.path.join(wd2, "gen.dot")
            rg = vlib.run_tlc("OAuthFlowMC", "OAuthFlow_gen.cfg", workdir=wd2, workers=1, timeout=600, heap_gb=4,
                              extra_args=["-dump", "dot,actionlabels", dot2])
            vlib.tlc_must_pass(rg, "gen")
            if not rg.ok:
                raise vlib.MachineryError("generation configuration failed: %s" % rg.violation)
            v.add_tlc("OAuthFlow_gen.cfg (reduced variant sets, all terminal behaviours)", rg)
            root2, edges2 = load_graph(dot2)
            allp = all_paths(root2, edges2, 200000)
            rows += [{"id": "gen%d" % i, "steps": steps_of(p)} for i, p in enumerate(allp)]
            v.cov["gen_terminal_behaviours"] = len(allp)
            exhaustive = True
    if not replay:
        # vacuity: every fatal outcome at every location that is not the last one is replayed with 4xx at all later locations
        # (the placement that tells a server whose metadata was REJECTED from a server WITHOUT metadata)
        need = set()
        for u, outs in edges.items():
            for (l, w_) in outs:
                name, args = graphwalk.parse_label(l)
                if name == "FetchASM" and any(graphwalk.parse_label(l2)[0] == "UnreadASM" for (l2, _) in edges.get(w_, [])):
                    need.add((args[0], args[1]))
        have, nunread = set(), 0
        for r in rows:
            k = unread_key(r["steps"])
            if k:
                nunread += 1
                if all(o in ASM_4XX for o in k[2]) and len(k[2]) == len(ASM_LATER[k[0]]):
                    have.add(k[:2])
        if not need or need - have:
            raise vlib.MachineryError("vacuity: fatal outcome then 4xx at the later locations not replayed for %s" % sorted(need - have)[:10])
        v.cov["unread_asm_behaviours"] = nunread
        v.cov["fatal_then_4xx_placements"] = len(need)
    scripts = os.path.join(out, "scripts.ndjson")
    vlib.write_ndjson(scripts, rows)
    # 3. the real code
    obs = os.path.join(out, "obs.ndjson")
    crun = conc_future.result() if conc_future else None
    genv = {"VERIF_IN": scripts, "VERIF_OUT": obs, "VERIF_SEED": seed}
    if crun:
        for name, res in crun["tlc"]:
            v.add_tlc(name, res)
        cin, cobs = conc_env(out, crun["rows"])
        genv.update({"VERIF_IN2": cin, "VERIF_OUT2": cobs})
    rc_go, gout, wall = vlib.go_test("auth", "^TestVerif_C15(Conc)?$" if crun else "^TestVerif_C15$", CONC_HARNESS,
                                     env=genv, timeout=900)
    vlib.go_must_build(rc_go, gout, PID)
    if rc_go != 0:
        raise vlib.MachineryError("C15 harness failed:\n" + gout[-3000:])
    obs_rows = vlib.read_ndjson(obs)
    if len(obs_rows) != len(rows):
        raise vlib.MachineryError("harness replayed %d of %d behaviours" % (len(obs_rows), len(rows)))
    v.cov["go_wall_s"] = round(wall, 1)
    v.cov["evaluations"] = len(obs_rows)
    v.cov["traces_validated_against_impl"] = len(obs_rows)
    distinct = {}
    for r in rows:
        distinct.setdefault(vlib.sha(r["steps"]), r)
    v.cov["distinct_nontrivial"] = sum(1 for r in distinct.values() if any(s[0] in ("FetchPRM", "FetchASM") and s[1][1] != "skip" for s in r["steps"]))
    v.cov["rule"] = ("behaviours = root-to-leaf label sequences of the TLC state graph of OAuthFlow (modulo ghost variables): "
                     "a cover of every labelled edge + seeded samples (half uniform over the terminal behaviours, half random walks)"
                     + ("; plus every terminal behaviour of the reduced generation configuration" if tier == "thorough" else "")
                     + "; every (well-known location, fatal outcome) is followed by 4xx at all later locations in at least one behaviour"
                     + "; distinct by step sequence; non-trivial = at least one metadata request is made")
    v.cov["exhaustive"] = exhaustive
    outcomes = {}
    for e in obs_rows:
        outcomes[e["out"]["err"]] = outcomes.get(e["out"]["err"], 0) + 1
    v.cov["real_outcomes"] = outcomes
    v.cov["real_requests"] = sum(len(e["reqs"]) for e in obs_rows)
    # vacuity of the value classes: every issuer relation class was concretised (relation computed by the harness from
    # the concrete strings) at each place the relation is used
    rel_seen = {"asm_issuer": {}, "prereg_issuer": {}, "iss_param": {}}
    for e in obs_rows:
        for d in e["served"]:
            if d["kind"] == "asm":
                rel_seen["asm_issuer"][d["match"]] = rel_seen["asm_issuer"].get(d["match"], 0) + 1
        if "pre" in e["cfg"]["rc"] or e["cfg"]["rc"] == "all":
            rel_seen["prereg_issuer"][e["cfg"]["prerel"]] = rel_seen["prereg_issuer"].get(e["cfg"]["prerel"], 0) + 1
        if e["ares"]["issrel"] != "-":
            rel_seen["iss_param"][e["ares"]["issrel"]] = rel_seen["iss_param"].get(e["ares"]["issrel"], 0) + 1
    v.cov["issuer_relation_classes_observed"] = rel_seen
    # ... and every URL class in a URL field of a served document of each kind
    ucls_seen = {"prm": {}, "asm": {}}
    for e in obs_rows:
        for d in e["served"]:
            for t in d["ucls"]:
                c = "opaque-script" if t in SCRIPT else class_name(t)
                ucls_seen[d["kind"]][c] = ucls_seen[d["kind"]].get(c, 0) + 1
    v.cov["url_classes_observed_in_served_documents"] = ucls_seen
    if not replay:
        missing_cls = ["%s:%s" % (k, c) for k in ("prm", "asm") for c in URL_CLASSES if c not in ucls_seen[k]]
        if missing_cls:
            raise vlib.MachineryError("vacuity: URL classes never concretised in a served document: %s" % missing_cls)
    if not replay:
        want = set(ISS_NEAR) | set(ISS_EQUIV) | {"exact", "slash", "other"}
        missing_rel = ["%s:%s" % (k, c) for k, seen in sorted(rel_seen.items()) for c in sorted(want) if c not in seen
                       and not (k == "iss_param" and c in ("prefix", "sub"))]
        if missing_rel:
            raise vlib.MachineryError("vacuity: issuer relation classes never concretised: %s" % missing_rel)
    for e in obs_rows[:: max(1, len(obs_rows) // 4)][:4]:
        v.sample({"id": e["id"], "requests": [[r["method"], r["url"]] for r in e["reqs"]], "err": e["out"]["err"], "changed": e["out"]["changed"]})
    # 4. the monitors: verdict and drift (the concurrent one runs beside the sequential one)
    cjudge = pool.submit(conc_judge, v, crun, cobs, gout) if crun else None
    fails, mres = vlib.run_monitor("OAuthFlowMon", "OAuthFlowMon.cfg", obs, timeout=900, heap_gb=6)
    v.add_tlc("OAuthFlowMon", mres)
    by_line = {}
    for f in fails:
        by_line.setdefault(f["line"], []).append(f["monfail"])
    steps_by_id = {r["id"]: r["steps"] for r in rows}
    ndrift = 0
    for line, invs in sorted(by_line.items()):
        e = obs_rows[line - 1]
        for inv in invs:
            if inv == "drift":
                ndrift += 1
                if len(v.drift) < 20:
                    v.drift.append("behaviour %s: real %s/%s/changed=%s differs from OAuthFlow %s/%s/changed=%s" % (
                        e["id"], e["act"], e["out"]["err"], e["out"]["changed"], e["exp"]["reqs"], e["exp"]["result"], e["exp"]["changed"]))
                continue
            for sig in sig_for(e, inv, invs):
                v.violation(sig, "real Authorize violates %s (behaviour %s: err=%s changed=%s)" % (inv, e["id"], e["out"]["err"], e["out"]["changed"]),
                            {"id": e["id"], "steps": steps_by_id.get(e["id"]), "observation": e})
    v.cov["drift_count"] = ndrift
    if cjudge:
        cmres, nconc, cviols, cdrifts = cjudge.result()
        conc_report(v, cviols, cdrifts)
        v.add_tlc("OAuthFlowConcMon", cmres)
        v.cov["evaluations"] += nconc
        v.cov["traces_validated_against_impl"] += nconc
        v.cov["distinct_nontrivial"] += nconc
        v.cov["rule"] += "; interleavings: " + v.cov["concurrent"]["rule"] + ", each pinned on one real handler with gates"
    # leads of the model must show up on the real code, otherwise the model is stale
    found = set(v.known_hit) | {s for (s, _, _) in v.violations}
    for inv in leads:
        if not replay and not any(s.startswith(inv + ":") for s in found):
            v.drift.append("model lead %s (OAuthFlow_lead.cfg) was not reproduced on the real code: the model is stale" % inv)
    return v.finish()
