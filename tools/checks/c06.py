"""C06 — nothing is served before initialize; per-request protocol metadata is validated
(DESIGN.md sections 5.3 and 6 "C06", section 9 lead 4; patterns P1 + P2).

  1. TLC checks the design (spec/Lifecycle.tla, code-shaped Step of ServerSession.handle + the property's phase
     tracker and clauses; a message = method x per-request-meta class x initialize-params class x spelling of the
     _meta member names on the wire: plain / escaped solidus / \\uXXXX x PRESENTATION of the metadata in the params
     object: one exact `_meta` member / only a case variant of it / the exact member next to a case variant that
     supplies the missing or overriding entries / duplicate exact members (the last decides, possibly null) / the
     same three for the entries inside `_meta`; Lifecycle!Carried says which metadata each presentation carries
     and Step, the tracker and the clauses look only at that) on the whole (phase x message) table —
     the joint state graph over the full alphabet, every row evaluated as a state predicate — and on every step of every sequence of core letters up to a
     bound.  The one documented departure of the code-shaped model from the property (lead 4: setLevel /
     subscribe / unsubscribe / roots-list-changed are ungated) is exported as a LEAD, not a verdict.
  2. TLC generates what is replayed: the dumped table graph (every cell behind a shortest prefix + transition
     cover walks), every complete core sequence (length 3 quick / 4 thorough), seeded simulations of length 8.
  3. harness/mcp/c06_lifecycle_test.go replays them on a real mcp.Server with every user-visible handler
     instrumented, over raw transports (io pipes: bytes in / bytes out; in-memory) and over the stateful
     streamable HTTP handler (in process), in testing/synctest bubbles.
  4. The TLA+ monitor spec/LifecycleMon.tla (TLC over obs.ndjson) tracks the phase from messages and replies
     and judges the clauses (verdict); equality with Lifecycle!Step is only "drift".
  5. Handlers with a DURATION (spec/LifecycleRun.tla, LifecycleRunMC.tla): a script is a sequence of events
     send(letter, held) / release(n) - a message may be delivered while the handler of an earlier call or notification is
     still running (parked on a gate).  TLC enumerates every script (phase prefix x parked message x what is sent
     meanwhile x releases), checks PingAlwaysServed at every quiescence and the clauses of Lifecycle on the settled
     observations, shows that a feature call that held the dispatch queue would break the clause (what-if configs),
     and exports the scripts; harness/mcp/c06_run_test.go replays them on a real server whose tool / prompt /
     completion / notification handlers park under testing/synctest; spec/LifecycleRunMon.tla judges.
  6. The HTTP decision table (spec/LifecycleHttp.tla): ONE POST on a stateful handler without session id / on an
     initialized legacy session / on a stateless handler x Mcp-Protocol-Version header class x class of the body's
     per-request _meta x method - header and body crossed.  TLC checks HHolds(c, HExpected(c)) for all cases, a
     header-only what-if must break it, the cases are exported; harness/mcp/c06_http_test.go runs them in process;
     spec/LifecycleHttpMon.tla judges (verdict: the clauses; drift: equality with HExpected, incl. sessions left behind).
"""
import json, os, random, threading
from collections import deque
import vlib, graphwalk

PID = "C06"
TLC_WORKERS = 4
GO_SHARDS = 4     # sequences replayed side by side by the harness (each in its own synctest bubble)
CLAUSES = ["GateBeforeInit", "DuplicateInitRejected", "PrematureInitializedRejected", "RepeatedInitializedRejected", "FirstInitializedTakesEffect",
           "PingAlways", "ModernServedIffMetaComplete", "RemovedMethodsNotFound"]
PROBES = [{"m": "tools/list", "mt": "none", "ip": "na", "sp": "plain", "mk": "exact"},
          {"m": "notifications/initialized", "mt": "none", "ip": "na", "sp": "plain", "mk": "exact"}]
HARNESS = ["mcp/c06_lifecycle_test.go", "mcp/c06_run_test.go", "mcp/c06_http_test.go"]
GO_RUN = "^TestVerif_C06(Run|Http)?$"     # the three tests share one test binary; Run / Http skip without their own VERIF_*_RUN / _HTTP
HTTP_CLAUSES = ["HModernOnlyIfGood", "HModernRefusalCode", "HGateBeforeInit", "HPingAlways", "HRemovedNotFound"]


def msg_name(l):
    s = l["m"]
    if l["m"] == "initialize":
        s += "(%s)" % l["ip"]
    if l["mt"] != "none":
        s += "+meta=" + l["mt"]
        if l.get("sp", "plain") != "plain":   # spelling of the _meta keys on the wire
            s += "~" + l["sp"]
        if l.get("mk", "exact") != "exact":   # presentation of the metadata in params (Lifecycle!Members)
            s += "@" + l["mk"]
    return s


def got_name(o):
    s = o["reply"]
    if o["reply"] == "error":
        s += "(%d%s)" % (o["code"], ",list" if o["nlist"] else "")
    if o["h"]:
        s += "+ran=" + ",".join(o["h"])
    return s


def sig_of(f, e):
    inv, l, o = f["monfail"], e["l"], e["o"]
    if inv == "GateBeforeInit":
        served = o["reply"] == "result" or o["h"]
        # one signature per method: the abstract failing case is "this method is served on a fresh legacy session"
        # (plus the presentation of what is not per-request metadata, when it is not the ordinary one)
        form = "" if l.get("mk", "exact") == "exact" or l["mt"] == "none" else "@" + l["mk"]
        return "preinit:%s%s:%s" % (l["m"], form, "served" if served else "state-changed")
    if inv == "OneReply":
        return "reply:dup:%s" % msg_name(l)
    return "phase=%s:%s:%s" % (f.get("phase", "?"), msg_name(l), got_name(o))


def letter_of(args):
    return {"m": args[0], "mt": args[1], "ip": args[2], "sp": args[3], "mk": args[4]}


def table_sequences(dot, seed):
    """Every edge of the joint state graph = one cell (state, letter) of the table."""
    init, edges = graphwalk.parse_dot(dot)
    if len(init) != 1:
        raise vlib.MachineryError("table graph has %d initial states" % len(init))
    pred = {init[0]: None}
    dq = deque(init)
    while dq:
        u = dq.popleft()
        for (lbl, v) in edges.get(u, []):
            if v not in pred:
                pred[v] = (u, lbl)
                dq.append(v)

    def prefix(n):
        p = []
        while pred[n] is not None:
            u, lbl = pred[n]
            p.append(letter_of(graphwalk.parse_label(lbl)[1]))
            n = u
        p.reverse()
        return p
    cells = []
    for u in sorted(pred):
        pre = prefix(u)
        for (lbl, v) in edges.get(u, []):
            cells.append(pre + [letter_of(graphwalk.parse_label(lbl)[1])] + PROBES)
    ncells = sum(len(edges.get(u, [])) for u in pred)
    walks, total = graphwalk.cover(init, edges, maxlen=12, seed=seed)
    walks = [[letter_of(a) for (_, a) in p] for p in walks]
    return cells, walks, len(pred), ncells


def lkey(l):
    return (l["m"], l["mt"], l["ip"], l.get("sp", "plain"), l.get("mk", "exact"))


def printed_seqs(res):
    return [p["seq"] for p in res.printed if isinstance(p, dict) and "seq" in p]


def apalache_inductive_lifecycle(timeout=600):
    """The two Apalache runs of vlib.run_apalache_inductive (same result dict) on spec/LifecycleInd.tla, in a scratch copy
    of spec/ in which (a) the CommunityModules module Json (not typable by Apalache; used only by the Export* operators)
    is replaced by the typed stub spec/apalache_stubs/Json.tla and (b) the two constant-level ASSUMEs of Lifecycle.tla
    about the alphabet (833 letters x three readings; TLC evaluates them on every run, Apalache needs > 10 min for them)
    are dropped.  Init, Next (the actions) and the invariant are untouched.  Does not touch vlib.SPEC (other model runs
    of this check go on in background threads).  Base ~40 s + step ~85 s on an idle machine: OPT-IN (thorough tier with
    VERIF_APALACHE_LIFECYCLE=1), see run()."""
    import re, shutil, subprocess, time
    res = {"module": "LifecycleInd", "invariant": "IndInv", "instance": "CInit", "status": "unavailable", "wall_s": 0.0}
    exe = shutil.which("apalache-mc")
    if not exe:
        res["detail"] = "apalache-mc not on PATH"
        return res
    d = vlib.scratch("apaspec-")
    for f in os.listdir(vlib.SPEC):
        if f.endswith(".tla"):
            shutil.copy(os.path.join(vlib.SPEC, f), d)
    stubs = os.path.join(vlib.SPEC, "apalache_stubs")
    for f in os.listdir(stubs):
        shutil.copy(os.path.join(stubs, f), d)
    lp = os.path.join(d, "Lifecycle.tla")
    txt = open(lp).read()
    txt, n = re.subn(r"(?m)^ASSUME .*\n(?:[ \t]+\S.*\n)*", "", txt)
    if n != 2:
        raise vlib.MachineryError("Lifecycle.tla: expected 2 ASSUMEs about the alphabet, found %d" % n)
    open(lp, "w").write(txt)
    env = dict(os.environ, TMPDIR=d)     # the launcher's mktemp -d SANY* lands in the scratch dir, which is removed
    t0 = time.time()
    for name, ini, length in (("base", "Init", 0), ("step", "IndInit", 1)):
        cmd = [exe, "check", "--out-dir=" + os.path.join(d, "out"), "--cinit=CInit", "--init=" + ini, "--inv=IndInv",
               "--length=%d" % length, "LifecycleInd.tla"]
        try:
            p = subprocess.run(cmd, cwd=d, env=env, stdout=subprocess.PIPE, stderr=subprocess.STDOUT, timeout=timeout,
                               text=True, errors="replace")
        except subprocess.TimeoutExpired:
            res["detail"] = "%s: timeout after %ds" % (name, timeout)
            res["wall_s"] = round(time.time() - t0, 2)
            return res
        out = p.stdout
        if "The outcome is: NoError" in out:
            continue
        res["wall_s"] = round(time.time() - t0, 2)
        if "The outcome is: Error" in out and "violated" in out:
            res["status"] = "refuted"
            res["detail"] = "%s case: %s" % (name, " ".join(l.strip() for l in out.splitlines() if "violated" in l)[:300])
        else:
            res["detail"] = "%s case: tool error: %s" % (name, out[-300:])
        return res
    res["status"] = "proved"
    res["wall_s"] = round(time.time() - t0, 2)
    return res


# ---------------------------------------------------------------------------------------------------------------------
# handlers with a duration (LifecycleRun) and the HTTP decision table (LifecycleHttp)

RUN_GEN = {"quick": ["LifecycleRun_gen3.cfg"], "thorough": ["LifecycleRun_gen3w.cfg", "LifecycleRun_gen4.cfg"]}
RUN_WHATIF = {"quick": ["LifecycleRun_whatif1.cfg"], "thorough": ["LifecycleRun_whatif1.cfg", "LifecycleRun_whatif2.cfg"]}
RUN_WIT = {"quick": [], "thorough": [("LifecycleRun_wit1.cfg", "NoPingBesideCall"), ("LifecycleRun_wit2.cfg", "NoPingExcused")]}


class Bg(threading.Thread):
    """A model job that runs beside the others (TLC spends most of its wall time starting up)."""

    def __init__(self, fn):
        super().__init__(daemon=True)
        self.fn, self.res, self.exc = fn, None, None
        self.start()

    def run(self):
        try:
            self.res = self.fn()
        except BaseException as e:   # re-raised by get()
            self.exc = e

    def get(self):
        self.join()
        if self.exc is not None:
            raise self.exc
        return self.res


def run_models(tier, seed):
    """TLC on the run model: design check + export of every script, what-ifs (must be violated), witnesses."""
    runs, scripts = [], []
    for cfg in RUN_GEN[tier]:
        res = vlib.run_tlc("LifecycleRunMC", cfg, workers=2, timeout=900, heap_gb=3)
        vlib.tlc_must_pass(res, cfg)
        if not res.ok:
            raise vlib.MachineryError("the LifecycleRun model violates %s: design check failed\n%s" % (res.violation, res.stdout[-1500:]))
        got = [p for p in res.printed if isinstance(p, dict) and "run" in p]
        if not got:
            raise vlib.MachineryError("%s exported no script" % cfg)
        runs.append((cfg + " (PingAlwaysServed at every quiescence, the clauses on the settled observations; scripts exported)", res))
        scripts += got
    for cfg in RUN_WHATIF[tier]:
        res = vlib.run_tlc("LifecycleRunMC", cfg, workers=1, timeout=600, heap_gb=2)
        if res.violation != "InvPingAlwaysServed":
            raise vlib.MachineryError("%s: a feature call that holds the dispatch queue does not break PingAlwaysServed (%s)" % (
                cfg, res.error or res.violation or "no violation"))
        runs.append((cfg + " (what-if: a parked feature call holds the queue; must be violated)", res))
    for cfg, inv in RUN_WIT[tier]:
        res = vlib.run_tlc("LifecycleRunMC", cfg, workers=1, timeout=600, heap_gb=2)
        if res.violation != inv:
            raise vlib.MachineryError("%s: no witness (%s)" % (cfg, res.error or res.violation))
        runs.append((cfg + " (witness, must be violated)", res))
    # distinct scripts (gen3w and gen4 overlap), one raw transport each
    seen, out = set(), []
    for p in scripts:
        k = json.dumps(p["run"], sort_keys=True)
        if k in seen:
            continue
        seen.add(k)
        i = len(out)
        out.append({"id": "g%d" % i, "tr": "io" if (i + seed) % 2 == 0 else "mem", "phase": p["phase"], "run": p["run"]})
    return runs, out


def http_model():
    wd = vlib.scratch("tlc-")
    res = vlib.run_tlc("LifecycleHttpMC", "LifecycleHttpMC.cfg", workdir=wd, workers=1, timeout=600, heap_gb=2)
    vlib.tlc_must_pass(res, "LifecycleHttpMC")
    if not res.ok:
        raise vlib.MachineryError("LifecycleHttp design check failed: " + (res.violation or res.stdout[-2000:]))
    cases = vlib.read_ndjson(os.path.join(wd, "httpcases.ndjson"))
    head = [p for p in res.printed if isinstance(p, dict) and "httpcases" in p]
    if not head or head[0]["httpcases"] != len(cases) or not cases:
        raise vlib.MachineryError("LifecycleHttp exported %d cases, header %s" % (len(cases), head))
    return res, cases


def ev_name(ev):
    if ev["k"] == "release":
        return "release(#%d)" % ev["n"]
    return msg_name(ev["l"]) + ("[held]" if ev["held"] else "")


def mobs_name(m):
    return got_name({"reply": m["reply"], "code": m["code"], "nlist": m["nlist"], "h": m["h"]})


def judge_run(v, out, scripts, obs, hseed, mon):
    """LifecycleRunMon (mon: its run, started beside the main monitor) over the observation lines of the run scripts."""
    rows = vlib.read_ndjson(obs)
    nev = sum(len(s["run"]) for s in scripts)
    if len(rows) != nev:
        raise vlib.MachineryError("run harness recorded %d of %d events" % (len(rows), nev))
    fails, mres = mon.get()
    v.add_tlc("LifecycleRunMon", mres)
    by_id = {s["id"]: s for s in scripts}
    counts = [p["runcounts"] for p in mres.printed if isinstance(p, dict) and "runcounts" in p]
    reps, drift = {}, {}
    for f in fails:
        e = rows[f["line"] - 1]
        sq = by_id[e["seq"]]
        upto = sq["run"][: e["e"]]
        if f["monfail"] == "drift":
            k = "run script [%s] over %s: the exchange differs from the LifecycleRun machine after event %d" % (
                " ; ".join(ev_name(x) for x in upto), e["tr"], e["e"])
            drift.setdefault(k, 0)
            drift[k] += 1
            continue
        if f["monfail"] == "PingAlwaysServed":
            released = {x["n"] for x in upto if x["k"] == "release"}
            running = [x for x in upto if x["k"] == "send" and x["n"] in e["ent"] and x["n"] not in released]
            sig = "pingwait:prefix=%s:running=%s" % (sq["phase"], ",".join(sorted({msg_name(x["l"]) for x in running})) or "nothing")
            desc = ("real server violates PingAlwaysServed over %s: script [%s]: after event %d the ping sent as message %d has no answer "
                    "although no notification / initialize handler entered before it is running (running handlers: %s)" % (
                        e["tr"], " ; ".join(ev_name(x) for x in upto), e["e"], f.get("msg", 0),
                        ", ".join("#%d %s" % (x["n"], msg_name(x["l"])) for x in running) or "none"))
        elif f["monfail"] == "OneReply":
            sig = "run:reply:dup:%s" % ev_name(sq["run"][e["e"] - 1])
            desc = "real server answers one id more than once: script [%s] over %s" % (" ; ".join(ev_name(x) for x in upto), e["tr"])
        else:
            i = f["msg"]
            sends = [x for x in sq["run"] if x["k"] == "send"]
            ml, mo = sends[i - 1]["l"], e["ms"][i - 1]
            sig = "run:prefix=%s:phase=%s:%s:%s:%s" % (sq["phase"], f.get("phase", "?"), msg_name(ml), mobs_name(mo), f["monfail"])
            desc = "real server violates %s (settled observation of message %d: %s got %s) over %s: script [%s]" % (
                f["monfail"], i, msg_name(ml), mobs_name(mo), e["tr"], " ; ".join(ev_name(x) for x in sq["run"]))
        cur = reps.get(sig)
        if cur is None or (len(sq["run"]), e["e"]) < (len(cur[0]["run"]), cur[1]["e"]):
            reps[sig] = (sq, e, f, desc)
    for k, n in sorted(drift.items(), key=lambda kv: -kv[1])[:8]:
        v.drift.append("%s (%d lines)" % (k, n))
    if len(drift) > 8:
        v.drift.append("run scripts: %d further scripts differ from the LifecycleRun machine" % (len(drift) - 8))
    for sig, (sq, e, f, desc) in sorted(reps.items()):
        sent = [r for r in rows if r["seq"] == sq["id"] and r["e"] <= e["e"]]
        desc += " | " + " ; ".join("%s -> %s" % (r["raw"] or "release #%d" % r["n"], r["out"] or "(no answer)") for r in sent)[:900]
        v.violation(sig, desc, {"kind": "run", "id": sq["id"], "tr": sq["tr"], "phase": sq["phase"], "run": sq["run"], "seed": hseed,
                                "clause": f["monfail"], "event": e["e"], "observed": e["ms"]})
    return rows, (counts[0] if counts else {})


def judge_http(v, out, cases, obs, hseed, mon):
    """LifecycleHttpMon (mon: its run) over the outcomes of the HTTP decision table."""
    rows = vlib.read_ndjson(obs)
    fails, mres = mon.get()
    v.add_tlc("LifecycleHttpMon", mres)
    prem = {}
    for p in mres.printed:
        if isinstance(p, dict) and "premises" in p:
            prem = p["premises"]
    seen = set()
    drift = {}
    for f in fails:
        e = rows[f["line"] - 1]
        c, o = e["c"], e["o"]
        l = {"m": c["m"], "mt": c["bv"], "ip": "legacy", "sp": "plain", "mk": "exact"}
        got = got_name(o) + ("" if f["monfail"] != "drift" else " nsess=%d%s" % (o["nsess"], " lists-2026-07-28" if o["lmod"] else ""))
        what = "%s:hdr=%s:%s:%s" % (c["ep"], c["hv"], msg_name(l), got)
        if f["monfail"] == "drift":
            k = "http case %s (HTTP %d): differs from LifecycleHttp!HExpected" % (what, e["status"])
            drift[k] = drift.get(k, 0) + 1
            continue
        sig = "http:%s:%s" % (what, f["monfail"])
        if sig in seen:
            continue
        seen.add(sig)
        v.violation(sig, "real streamable HTTP handler violates %s: endpoint %s, Mcp-Protocol-Version %s, body %s -> HTTP %d %s, handlers %s, "
                         "%d session(s) left | sent %s | received %s" % (
                             f["monfail"], c["ep"], repr(e["hdrver"]) if e["hdrver"] else "absent", msg_name(l), e["status"], got_name(o),
                             o["h"], o["nsess"], e["raw"], e["out"] or "(nothing)"),
                    {"kind": "http", "case": c, "seed": hseed, "clause": f["monfail"], "observed": o, "sent": e["raw"],
                     "header": e["hdrver"], "received": e["out"]})
    for k, n in sorted(drift.items(), key=lambda kv: -kv[1])[:8]:
        v.drift.append("%s (%d lines)" % (k, n))
    if len(drift) > 8:
        v.drift.append("http table: %d further cases differ from LifecycleHttp!HExpected" % (len(drift) - 8))
    return rows, prem


def run(tier, seed, replay):
    v = vlib.Verdict(PID, tier, seed)
    v.assumptions = [
        "one server session per scenario; messages are sent one at a time and the outcome is read at quiescence "
        "(testing/synctest: every goroutine of the bubble durably blocked), so 'no reply' is a fact, not a timeout",
        "'complete' per-request metadata = clientCapabilities present and well-formed, clientInfo well-formed when "
        "present (the SDK documents clientInfo as optional); 'supported' is relative to the endpoint: the stateful "
        "streamable HTTP endpoint serves no 2026-07-28 request except server/discover (which it answers with its "
        "legacy-only version list)",
        "'reaches server-side handlers' is observed as: a result reply, or an invocation of any instrumented "
        "user-visible handler (tool, prompt, resource, completion, subscribe, unsubscribe, roots-changed, progress, "
        "InitializedHandler, receiving middleware); 'session state' is observed through ServerSession.InitializeParams() "
        "(nil-ness, version, which message supplied it) and through the behaviour of the following messages",
        "a session that has served a 2026-07-28 request without any initialize is not a legacy-protocol session: "
        "legacy traffic it then serves is counted (outside_legacy_scope) but not judged",
        "the spelling of the _meta member names (literal, solidus written \\/, characters written \\uXXXX) is part of "
        "the message alphabet: all spellings are the same JSON value, so the property's clauses do not look at it and "
        "every spelling must be answered like the literal one; member VALUES are always written literally",
        "which metadata a request carries is read the way every other member of the request is read: only the member "
        "of params named exactly `_meta` counts (a member differing in letter case is an unknown member and is ignored, "
        "alone or next to the exact one), of several exact members the last decides (null = no metadata), and the same "
        "holds for the three entries inside `_meta`; in the duplicate presentations the earlier occurrences repeat only "
        "keys the last occurrence writes again (a missing entry of the last one is an explicit null), so that 'the last "
        "object decides' and 'the last entry of every key decides' coincide - the property does not choose between them",
        "subscriptions/listen (parks until cancelled) and batches are not in the alphabet; over HTTP no _meta naming "
        "a legacy version is sent (the stateful transport refuses any _meta protocolVersion before the session sees it)",
        "TLC exhaustive results: the full (joint state x letter) table; all core-letter sequences up to the stated length",
        "handlers with a duration (LifecycleRun): 'ping is always served' is read for every phase of a session - also while "
        "the first call of a fresh session, carrying complete 2026-07-28 metadata, is still in flight: a legacy ping that has "
        "been delivered on a healthy connection is answered by the next quiescence without waiting for any running feature-call "
        "handler.  Excused are exactly the pings delivered while a notification (or initialize) handler that was entered earlier "
        "is still running, for as long as it runs: C03 demands that such a handler finishes before later messages are handled.  "
        "Parked are the tool, prompt, completion handlers and the progress / roots-changed / initialized notification handlers; "
        "initialize itself has no user handler to park; at most one message is delivered while a notification handler holds "
        "the queue (the InitializeParams snapshot between two messages let go together is not observable); raw transports only",
        "the HTTP decision table (LifecycleHttp): 'served only if the metadata is complete and names a supported version' is "
        "demanded whatever the Mcp-Protocol-Version header says; the refusal CODE of the property (-32602 / -32022 with a list) "
        "and 'ping is served' are demanded when header and body tell the same story (2026-07-28-or-later metadata under the "
        "header naming the same version; no such metadata under an absent or supported legacy header) - when they contradict "
        "each other the property does not say which defect is reported.  'No session is left registered by a refused request' "
        "is NOT in the property: it is part of the code-shaped HExpected (drift) only",
    ]
    out = vlib.outdir(PID)
    rnd = random.Random(seed)
    seqlen = 3 if tier == "quick" else 4

    model_leads = []
    seqs = []  # {"id","tr","seq"}
    counts = {}
    run_scripts, http_cases = [], []    # LifecycleRun scripts / LifecycleHttp cases to run on the real code
    if replay:
        rep = json.load(open(replay))["replay"]
        hseed = rep.get("seed", seed)
        if rep.get("kind") == "run":
            run_scripts = [{"id": rep.get("id", "replay"), "tr": rep["tr"], "phase": rep.get("phase", "?"), "run": rep["run"]}]
        elif rep.get("kind") == "http":
            http_cases = [dict(rep["case"])]
        else:
            seqs = [{"id": rep.get("id", "replay"), "tr": rep["tr"],
                     "seq": [dict(l, sp=l.get("sp", "plain"), mk=l.get("mk", "exact")) for l in rep["seq"]]}]
    else:
        hseed = seed
        # 0. the run model and the HTTP table are checked beside the other model runs
        bg_run = Bg(lambda: run_models(tier, seed))
        bg_http = Bg(http_model)
        # 1. the (phase x message) table: design check on every row + graph dump
        wd = vlib.scratch("tlc-")
        dot = os.path.join(wd, "table.dot")
        res = vlib.run_tlc("LifecycleMC", "Lifecycle_table.cfg", workdir=wd, workers=TLC_WORKERS, timeout=300, heap_gb=2,
                           extra_args=["-dump", "dot,actionlabels", dot])
        vlib.tlc_must_pass(res, "Lifecycle_table")
        v.add_tlc("Lifecycle_table.cfg (every clause on every cell of the phase x message table)", res)
        if not res.ok:
            raise vlib.MachineryError("the Lifecycle model violates %s on the table: design check failed\n%s" % (
                res.violation, res.stdout[-1500:]))
        model_leads = [p for p in res.printed if isinstance(p, dict) and "lead" in p]
        # what every letter carries, from the model (Lifecycle!Carried)
        carried = {lkey(p["alpha"]): p["carried"] for p in res.printed if isinstance(p, dict) and "alpha" in p}
        if not carried or any(lkey(l) not in carried for l in PROBES):
            raise vlib.MachineryError("alphabet export incomplete: %d letters" % len(carried))
        nrows = len([p for p in res.printed if isinstance(p, dict) and "row" in p])
        cells, walks, nnodes, ncells = table_sequences(dot, seed)
        if nnodes != nrows or nnodes < 8:
            raise vlib.MachineryError("table graph: %d nodes, %d rows exported" % (nnodes, nrows))
        counts.update(table_states=nnodes, table_cells=ncells, cover_walks=len(walks), letters=len(carried),
                      letters_by_presentation={k: sum(1 for a in carried if a[4] == k) for k in sorted({a[4] for a in carried})})

        # 1b. unbounded in the number of messages: Apalache discharges the inductive invariant of the joint machine
        # (LifecycleInd.tla: the 19 rows of the table as three implications + "the last step broke no clause") over the
        # FULL alphabet, without TLC's VIEW.  ~2 min on an idle machine (more than the budget under load): opt-in,
        # thorough tier with VERIF_APALACHE_LIFECYCLE=1.
        if tier == "thorough" and os.environ.get("VERIF_APALACHE_LIFECYCLE") == "1":
            ra = apalache_inductive_lifecycle()
            v.cov.setdefault("apalache_inductive", []).append(ra)
            if ra["status"] == "refuted":
                raise vlib.MachineryError("LifecycleInd: IndInv is not inductive (%s)" % ra.get("detail"))

        # 2. all core sequences of the bounded length: design check on every step + export
        cfg = "Lifecycle_seq%d.cfg" % seqlen
        res = vlib.run_tlc("LifecycleMC", cfg, workers=TLC_WORKERS, timeout=900, heap_gb=4)
        vlib.tlc_must_pass(res, cfg)
        v.add_tlc(cfg + " (every clause on every step of every core sequence; sequences exported)", res)
        if not res.ok:
            raise vlib.MachineryError("the Lifecycle model violates %s on a sequence: design check failed\n%s" % (
                res.violation, res.stdout[-1500:]))
        core = printed_seqs(res)
        ncore = len({json.dumps(s[0], sort_keys=True) for s in core})
        if len(core) != ncore ** seqlen:
            raise vlib.MachineryError("sequence export incomplete: %d of %d^%d" % (len(core), ncore, seqlen))
        counts.update(core_letters=ncore, core_sequences=len(core), core_length=seqlen)

        # 3. vacuity: some behaviour of the model makes every clause's premise true (must be VIOLATED)
        wres = vlib.run_tlc("LifecycleMC", "Lifecycle_wit.cfg", workers=1, timeout=300, heap_gb=2)
        if wres.violation != "NotAllSeen":
            raise vlib.MachineryError("vacuity: no behaviour exercises every clause (%s)" % (wres.error or wres.violation))
        v.cov["tlc_runs"].append({"config": "Lifecycle_wit.cfg (vacuity witness, must be violated)", "distinct": wres.distinct,
                                  "generated": wres.generated, "depth": wres.depth, "wall_s": round(wres.wall, 2),
                                  "result": "witness found: one behaviour makes every clause's premise true"})

        # 4. seeded simulation: longer sequences over the mid alphabet
        nsim = 300 if tier == "quick" else 12000
        sres = vlib.run_tlc("LifecycleMC", "Lifecycle_sim.cfg", workers=1, timeout=900, heap_gb=4,
                            simulate="num=%d" % nsim, depth=9, seed=seed)
        vlib.tlc_must_pass(sres, "Lifecycle_sim")
        if sres.violation:
            raise vlib.MachineryError("the Lifecycle model violates %s in simulation" % sres.violation)
        sims = printed_seqs(sres)
        if len(sims) < nsim:
            raise vlib.MachineryError("simulation exported %d of %d sequences" % (len(sims), nsim))
        v.add_tlc("Lifecycle_sim.cfg (simulate num=%d depth=9 seed=%d)" % (nsim, seed), sres)
        counts.update(simulated_sequences=len(sims))

        # 5. assemble the replay set
        def raw_tr(i):
            return "io" if (i + seed) % 2 == 0 else "mem"

        def no_legacy_meta(s):
            return all(carried[lkey(l)] != "legacy" for l in s)
        for i, s in enumerate(cells):
            seqs.append({"id": "t%d" % i, "tr": raw_tr(i), "seq": s})
        if tier == "thorough":  # the table on the other raw transport as well
            for i, s in enumerate(cells):
                seqs.append({"id": "u%d" % i, "tr": raw_tr(i + 1), "seq": s})
        for i, s in enumerate(cells):
            if no_legacy_meta(s):
                seqs.append({"id": "ht%d" % i, "tr": "http", "seq": s})
        for i, s in enumerate(walks):
            seqs.append({"id": "w%d" % i, "tr": raw_tr(i), "seq": s})
        for i, s in enumerate(core):
            seqs.append({"id": "s%d" % i, "tr": raw_tr(i), "seq": s})
        hcore = core if tier == "thorough" and seqlen == 3 else rnd.sample(core, min(len(core), 1500 if tier == "quick" else 20000))
        for i, s in enumerate(hcore):
            seqs.append({"id": "hs%d" % i, "tr": "http", "seq": s})
        for i, s in enumerate(sims):
            seqs.append({"id": "r%d" % i, "tr": raw_tr(i), "seq": s})
        for i, s in enumerate(sims[: len(sims) // 4]):
            if no_legacy_meta(s):
                seqs.append({"id": "hr%d" % i, "tr": "http", "seq": s})

        # 5b. the scripts with parked handlers, the HTTP decision table
        rruns, run_scripts = bg_run.get()
        for name, res in rruns:
            v.add_tlc(name, res)
        hres, http_cases = bg_http.get()
        v.add_tlc("LifecycleHttpMC (HHolds(c, HExpected(c)) for every case; header-only what-if refuted; cases exported)", hres)
        counts.update(run_scripts=len(run_scripts), run_events=sum(len(s["run"]) for s in run_scripts),
                      run_scripts_by_prefix={k: sum(1 for s in run_scripts if s["phase"] == k) for k in sorted({s["phase"] for s in run_scripts})},
                      http_cases=len(http_cases))

    inp = os.path.join(out, "sequences.ndjson")
    vlib.write_ndjson(inp, seqs)
    rinp, robs_run = os.path.join(out, "run_scripts.ndjson"), os.path.join(out, "run_obs.ndjson")
    hinp, hobs = os.path.join(out, "http_cases.ndjson"), os.path.join(out, "http_obs.ndjson")
    vlib.write_ndjson(rinp, run_scripts)
    vlib.write_ndjson(hinp, http_cases)
    by_id = {s["id"]: s for s in seqs}
    nmsgs = sum(len(s["seq"]) for s in seqs)

    # 6. replay on the real code
    obs = os.path.join(out, "obs.ndjson")
    for f in (obs, obs + ".progress", robs_run, robs_run + ".progress", hobs):
        if os.path.exists(f):
            os.remove(f)
    env = {"VERIF_IN": inp, "VERIF_OUT": obs, "VERIF_SEED": hseed, "VERIF_TIER": tier,
           "VERIF_SHARDS": 1 if replay else GO_SHARDS}
    if replay:
        env["VERIF_RAW"] = 1
    if run_scripts:
        env.update(VERIF_IN_RUN=rinp, VERIF_OUT_RUN=robs_run)
    if http_cases:
        env.update(VERIF_IN_HTTP=hinp, VERIF_OUT_HTTP=hobs, VERIF_REPS=1 if (tier == "quick" or replay) else 3)
    rc, gout, wall = vlib.go_test("mcp", GO_RUN, HARNESS, timeout=1500, env=env)
    vlib.go_must_build(rc, gout, PID)
    if rc != 0 and env["VERIF_SHARDS"] != 1:
        # the shards replay independent sequences side by side; one at a time tells which sequence was in flight
        env["VERIF_SHARDS"] = 1
        rc, gout, wall = vlib.go_test("mcp", GO_RUN, HARNESS, timeout=1500, env=env)
    if rc != 0:
        inflight = ""
        try:
            inflight = open(obs + ".progress").read().strip()
        except Exception:
            pass
        if "TestVerif_C06Run" in gout and "FAIL: TestVerif_C06Run" in gout:
            try:
                inflight = open(robs_run + ".progress").read().strip()
            except Exception:
                pass
        if "panic:" in gout and "blocked goroutines remain" not in gout and "deadlock:" not in gout:
            sq = json.loads(inflight) if inflight else {}
            if "run" in sq:    # a script of LifecycleRun was in flight
                sq["seq"] = [x["l"] for x in sq["run"] if x["k"] == "send"]
            v.violation("panic:%s" % "|".join(msg_name(l) for l in sq.get("seq", [])[:6]),
                        "Go panic while replaying sequence %s" % inflight[:300],
                        dict(sq, seed=hseed, output=gout[-3000:]))
            return v.finish()
        raise vlib.MachineryError("C06 harness failed (in flight: %s):\n%s" % (inflight[:300], gout[-3000:]))
    rows = vlib.read_ndjson(obs)
    if len(rows) != nmsgs:
        raise vlib.MachineryError("harness recorded %d of %d messages" % (len(rows), nmsgs))

    # 7. the monitor: verdict (clauses), drift (equality with Step), notes, premise counts
    # (the two small monitors of the run scripts and of the HTTP table run beside it)
    mon_run = Bg(lambda: vlib.run_monitor("LifecycleRunMon", "LifecycleRunMon.cfg", robs_run, timeout=1200, heap_gb=6)) if run_scripts else None
    mon_http = Bg(lambda: vlib.run_monitor("LifecycleHttpMon", "LifecycleHttpMon.cfg", hobs, timeout=900, heap_gb=4)) if http_cases else None
    fails, notes, prem = [], 0, {c: 0 for c in CLAUSES}
    CH = 250000
    starts = list(range(0, len(rows), CH))
    # cut only at sequence boundaries
    cuts = [0]
    for s in starts[1:]:
        while s < len(rows) and not (rows[s]["n"] == 1):
            s += 1
        if s < len(rows) and s > cuts[-1]:
            cuts.append(s)
    cuts.append(len(rows))
    for a, b in zip(cuts, cuts[1:]):
        if a == b:
            continue
        part = obs if (a == 0 and b == len(rows)) else os.path.join(out, "obs_part.ndjson")
        if part != obs:
            vlib.write_ndjson(part, rows[a:b])
        fl, mres = vlib.run_monitor("LifecycleMon", "LifecycleMon.cfg", part, timeout=1200, heap_gb=6)
        v.add_tlc("LifecycleMon[%d:%d]" % (a, b), mres)
        for f in fl:
            f["line"] += a
            fails.append(f)
        notes += sum(1 for p in mres.printed if isinstance(p, dict) and "note" in p)
        for p in mres.printed:
            if isinstance(p, dict) and "premises" in p:
                for c, n in p["premises"].items():
                    prem[c] = prem.get(c, 0) + n
        if part != obs and os.path.exists(part):
            os.remove(part)

    v.cov["traces_validated_against_impl"] = len(seqs)
    v.cov["evaluations"] = len(rows)
    v.cov["distinct_nontrivial"] = len({json.dumps(s["seq"], sort_keys=True) for s in seqs
                                        if any(l["m"] == "initialize" or l["mt"] != "none" for l in s["seq"])})
    v.cov["rule"] = ("sequences generated by TLC from Lifecycle.tla: every cell of the (joint state x letter) table behind "
                     "a shortest prefix and followed by two probes, transition-cover walks of the table graph, every core "
                     "sequence of the bounded length, seeded simulations of length 8; distinct by letter sequence; "
                     "non-trivial = contains an initialize or a message with per-request _meta.  Plus (counted in "
                     "traces_validated / evaluations, not in distinct_nontrivial): every script of LifecycleRunMC (phase prefix, "
                     "a parked message, what is sent while it runs, releases) and every case of the LifecycleHttp table")
    v.cov["exhaustive"] = not replay
    v.cov.update(counts)
    v.cov["messages_by_transport"] = {}
    for r in rows:
        v.cov["messages_by_transport"][r["tr"]] = v.cov["messages_by_transport"].get(r["tr"], 0) + 1
    v.cov["clause_premises_on_real_code"] = prem
    v.cov["outside_legacy_scope_observations"] = notes
    v.cov["http_route"] = "in-process handler.ServeHTTP with a buffering ResponseWriter + testing/synctest (no sockets)"
    if not replay:
        empty = [c for c in CLAUSES if not prem.get(c)]
        if empty:
            raise vlib.MachineryError("vacuity on the real run: no message exercised %s" % empty)
    for s in seqs[:: max(1, len(seqs) // 5)][:5]:
        got = [r for r in rows if r["seq"] == s["id"]][:4] if len(rows) < 400000 else []
        v.sample({"id": s["id"], "tr": s["tr"], "msgs": [msg_name(l) for l in s["seq"]][:8],
                  "got": [got_name(r["o"]) for r in got]})

    # 7b. handlers with a duration; the HTTP decision table
    if run_scripts:
        rrows, rcounts = judge_run(v, out, run_scripts, robs_run, hseed, mon_run)
        v.cov["traces_validated_against_impl"] += len(run_scripts)
        v.cov["evaluations"] += len(rrows)
        v.cov["run_quiescences_where_ping_clause_speaks"] = rcounts.get("prem", 0)
        v.cov["run_pings_delivered_beside_a_running_feature_call"] = rcounts.get("beside", 0)
        v.cov["run_pings_excused_by_a_running_notification_handler"] = rcounts.get("excused", 0)
        if not replay and not (rcounts.get("beside") and rcounts.get("excused") and rcounts.get("prem")):
            raise vlib.MachineryError("vacuity on the real run (parked handlers): %s" % rcounts)
    if http_cases:
        hrows, hprem = judge_http(v, out, http_cases, hobs, hseed, mon_http)
        v.cov["traces_validated_against_impl"] += len(hrows)
        v.cov["evaluations"] += len(hrows)
        v.cov["http_clause_premises_on_real_code"] = hprem
        if not replay and [c for c in HTTP_CLAUSES if not hprem.get(c)]:
            raise vlib.MachineryError("vacuity on the real run (HTTP table): %s" % hprem)

    # 8. classify
    reps = {}   # sig -> (seq, n, fail, line)
    drift = {}
    failed_cells = set()
    for f in fails:
        e = rows[f["line"] - 1]
        if f["monfail"] == "drift":
            k = "phase=%s %s over %s: observed %s (ipv=%s) differs from Lifecycle!Step" % (
                f.get("phase"), msg_name(e["l"]), e["tr"], got_name(e["o"]), e["o"]["ipv"])
            drift[k] = drift.get(k, 0) + 1
            continue
        sig = sig_of(f, e)
        if f["monfail"] == "GateBeforeInit":
            failed_cells.add((f.get("phase"), e["l"]["m"], e["l"]["mt"]))
        cur = reps.get(sig)
        # representative of a signature: the shortest sequence, a raw transport, the plainest message
        if cur is None or (e["n"], e["tr"] == "http", e["l"]["mt"] != "none") < (cur[1], cur[3]["tr"] == "http", cur[3]["l"]["mt"] != "none"):
            reps[sig] = (by_id[e["seq"]], e["n"], f, e)
    for k, n in sorted(drift.items(), key=lambda kv: -kv[1]):
        v.drift.append("%s (%d lines)" % (k, n))

    # concrete bytes for one representative per signature (re-run with VERIF_RAW)
    concrete = {}
    if reps and not replay:
        rin = os.path.join(out, "rerun.ndjson")
        robs = os.path.join(out, "rerun_obs.ndjson")
        todo = []
        seen = set()
        for sig, (sq, n, f, e) in sorted(reps.items())[:60]:
            if sq["id"] not in seen:
                seen.add(sq["id"])
                todo.append(sq)
        vlib.write_ndjson(rin, todo)
        rc2, gout2, _ = vlib.go_test("mcp", "^TestVerif_C06$", HARNESS, timeout=600,
                                     env={"VERIF_IN": rin, "VERIF_OUT": robs, "VERIF_SEED": hseed, "VERIF_RAW": 1})
        if rc2 == 0:
            for r in vlib.read_ndjson(robs):
                concrete[(r["seq"], r["n"])] = r
    elif replay:
        for r in rows:
            concrete[(r["seq"], r["n"])] = r
    examples = {}
    for sig, (sq, n, f, e) in sorted(reps.items()):
        c = concrete.get((sq["id"], n), {})
        same = bool(c) and c.get("o") == e["o"]
        desc = "real server violates %s in phase %s over %s: step %d of [%s] got %s" % (
            f["monfail"], f.get("phase"), e["tr"], n, " ; ".join(msg_name(l) for l in sq["seq"][:n]), got_name(e["o"]))
        if c.get("raw"):
            desc += " | sent %s | received %s%s" % (c["raw"], c.get("out") or "(nothing)", "" if same else " | (re-run differed)")
        v.violation(sig, desc, {"id": sq["id"], "tr": sq["tr"], "seq": sq["seq"], "step": n, "seed": hseed,
                                "clause": f["monfail"], "observed": e["o"], "sent": c.get("raw"), "received": c.get("out")})
        if sig in v.known:
            examples[sig] = {"tr": e["tr"], "step": n, "sequence": [msg_name(l) for l in sq["seq"][:n]],
                             "sent": c.get("raw"), "received": c.get("out"), "handlers": e["o"]["h"]}
    if examples:
        v.cov["known_finding_examples"] = examples
    if not replay:
        lead_cells = {(p["phase"], p["lead"]["m"], p["lead"]["mt"]) for p in model_leads}
        v.cov["model_leads"] = len(lead_cells)
        v.cov["model_leads_reproduced_on_real_code"] = len(lead_cells & failed_cells)
        v.cov["model_lead_cells"] = sorted("%s:%s" % (p, msg_name({"m": m, "mt": mt, "ip": "na", "sp": "plain", "mk": "exact"})) for (p, m, mt) in lead_cells)
        v.cov["violating_cells_outside_model_leads"] = sorted("%s:%s+%s" % c for c in (failed_cells - lead_cells))
    return v.finish()
