"""C08 — server-side stream resumption is exactly-once, in order, with stable event ids (DESIGN.md section 6, C08).

Shared driver for C08 and C10 (tools/checks/c10.py imports `family_run`): both are judged by the monitor
spec/StreamSrvMon.tla over scenarios executed by harness/mcp/c08_streamsrv_test.go on a real
mcp.StreamableHTTPHandler; spec/StreamSrv.tla is the design model, spec/StreamSrvMC.tla generates the scenarios,
spec/StreamSrvTrace.tla is the strict trace specification (binding / drift)."""
import json, os, random, re
from collections import deque
import vlib, graphwalk, e2echeck

PID = "C08"
HARNESS = ["mcp/c08_streamsrv_test.go"]
VERS_PRIME = "2025-11-25"
VERS_NOPRIME = ["2025-06-18", "2025-03-26"]

FAMILY = {
    "C08": {
        "mc": {"quick": ["StreamSrv_mc_c08_q1.cfg", "StreamSrv_mc_c08_q2.cfg"],
               "thorough": ["StreamSrv_mc_c08_t1.cfg", "StreamSrv_mc_c08_t2.cfg", "StreamSrv_mc_c08_t3.cfg"]},
        # (config, store, json, stateless, prime per session)
        "cover": {"quick": [("StreamSrv_cover_c08_q.cfg", True, False, False, {"s1": True}),
                            ("StreamSrv_cover_c08_qn.cfg", True, False, False, {"s1": False}),
                            ("StreamSrv_cover_c08_qs.cfg", True, False, False, {"s1": False})],
                  "thorough": [("StreamSrv_cover_c08_t.cfg", True, False, False, {"s1": True}),
                               ("StreamSrv_cover_c08_q.cfg", True, False, False, {"s1": True}),
                               ("StreamSrv_cover_c08_qn.cfg", True, False, False, {"s1": False}),
                               ("StreamSrv_cover_c08_qs.cfg", True, False, False, {"s1": False})]},
        "gen": "StreamSrv_gen_c08.cfg",
        "witness": ("StreamSrv_mc_c08_q1.cfg", ["W_NoReplay", "W_NoConflict", "W_NoDetachedWrite", "W_NoTempReplay",
                                                 "W_NoHeldWrite", "W_NoLostToCut"]),
    },
    "C10": {
        "mc": {"quick": ["StreamSrv_mc_c10_q1.cfg", "StreamSrv_mc_c10_q2.cfg", "StreamSrv_mc_c10_q3.cfg", "StreamSrv_mc_c10_q4.cfg"],
               "thorough": ["StreamSrv_mc_c10_t1.cfg", "StreamSrv_mc_c10_t2.cfg", "StreamSrv_mc_c10_t3.cfg",
                            "StreamSrv_mc_c10_q1.cfg", "StreamSrv_mc_c10_q3.cfg", "StreamSrv_mc_c10_q4.cfg",
                            "StreamSrv_mc_c10_q5.cfg"]},
        "cover": {"quick": [("StreamSrv_cover_c10_q.cfg", False, False, False, {"s1": True, "s2": False}),
                            ("StreamSrv_cover_c10_qj.cfg", False, True, False, {"s1": True}),
                            ("StreamSrv_cover_c10_qd.cfg", True, False, False, {"s1": True}),
                            ("StreamSrv_cover_c10_qb.cfg", False, False, False, {"s1": True, "s2": False})],
                  "thorough": [("StreamSrv_cover_c10_t.cfg", True, False, False, {"s1": True}),
                               ("StreamSrv_cover_c10_qd.cfg", True, False, False, {"s1": True}),
                               ("StreamSrv_cover_c10_qb.cfg", False, False, False, {"s1": True, "s2": False}),
                               ("StreamSrv_cover_c10_q.cfg", False, False, False, {"s1": True, "s2": False}),
                               ("StreamSrv_cover_c10_qj.cfg", False, True, False, {"s1": True})]},
        "gen": "StreamSrv_gen_c10.cfg",
        "witness": ("StreamSrv_mc_c10_q2.cfg", ["W_NoJsonBody", "W_NoStandaloneNested"]),
        "witness3": ("StreamSrv_mc_c10_q1.cfg", ["W_NoCancelNoticeSeen"]),
        "witness2": [("StreamSrv_mc_c10_q4.cfg", ["W_NoDupRefused", "W_NoHeldPost"]), ("StreamSrv_mc_c10_q5.cfg", ["W_NoBroadcastSeen"])],
    },
}

# hand-written corner scenarios (races pinned with the store gates, id re-use across sessions, resumption
# interleaved with concurrent requests); sessions are filled in by mk_scenario
CORNERS = {
    "C08": [
        ("held-write-vs-cut", (True, False, False), {"s1": True},
         "post|s1|r1 emit|s1|r1 gateA|s1|r1 emit|s1|r1 cut|p.s1.r1 open get|g1|s1|r1|0 emit|s1|r1 ret|s1|r1 get|g2|s1|r1|1"),
        ("held-replay-vs-write", (True, False, False), {"s1": False},
         "post|s1|r1 emit|s1|r1 cut|p.s1.r1 emit|s1|r1 gateF|g1 get|g1|s1|r1|0 emit|s1|r1 open emit|s1|r1 ret|s1|r1"),
        ("held-write-vs-resume", (True, False, False), {"s1": True},
         "post|s1|r1 cut|p.s1.r1 gateA|s1|r1 emit|s1|r1 get|g1|s1|r1|0 open emit|s1|r1 cut|g1 emit|s1|r1 get|g2|s1|r1|1 ret|s1|r1"),
        ("resume-every-id-after-completion", (True, False, False), {"s1": True},
         "post|s1|r1 emit|s1|r1 emit|s1|r1 ret|s1|r1 get|g1|s1|r1|0 get|g2|s1|r1|1 get|g3|s1|r1|2 get|g4|s1|r1|3"),
        ("response-while-detached", (True, False, False), {"s1": False},
         "post|s1|r1 emit|s1|r1 cut|p.s1.r1 emit|s1|r1 ret|s1|r1 get|g1|s1|r1|0 get|g2|s1|r1|1"),
        ("standalone-detached-writes", (True, False, False), {"s1": True},
         "sa|s1 sa|s1 get|g1|s1|sa|none sa|s1 cut|g1 sa|s1 sa|s1 get|g2|s1|sa|1 sa|s1 cut|g2 get|g3|s1|sa|4"),
        ("write-during-replay-window", (True, False, False), {"s1": False},
         "post|s1|r1 emit|s1|r1 cut|p.s1.r1 emit|s1|r1 emit|s1|r1 gateW|g1 get|g1|s1|r1|0 emit|s1|r1 open emit|s1|r1 ret|s1|r1"),
        ("write-during-replay-window-standalone", (True, False, False), {"s1": True},
         "sa|s1 sa|s1 gateW|g1 get|g1|s1|sa|none sa|s1 open sa|s1 cut|g1 sa|s1 gateW|g2 get|g2|s1|sa|1 sa|s1 open"),
        ("two-cuts-write-while-detached", (True, False, False), {"s1": True},
         "post|s1|r1 emit|s1|r1 cut|p.s1.r1 emit|s1|r1 get|g1|s1|r1|1 emit|s1|r1 cut|g1 emit|s1|r1 get|g2|s1|r1|3 ret|s1|r1"),
        ("failed-replay-of-finished-stream", (True, False, False), {"s1": True},
         "post|s1|r1 emit|s1|r1 cut|p.s1.r1 emit|s1|r1 ret|s1|r1 gateW|g1 get|g1|s1|r1|0 cut|g1 open get|g2|s1|r1|0 get|g3|s1|r1|2"),
        ("purge-during-replay", (True, False, False, 520), {"s1": False},
         "post|s1|r1 emit|s1|r1 cut|p.s1.r1 emit|s1|r1 emit|s1|r1 emit|s1|r1 gateM|g1 get|g1|s1|r1|0 sa|s1 sa|s1 sa|s1 sa|s1 sa|s1 sa|s1 open emit|s1|r1 ret|s1|r1"),
        ("purge-during-replay-2", (True, False, False, 600), {"s1": True},
         "post|s1|r1 emit|s1|r1 cut|p.s1.r1 emit|s1|r1 emit|s1|r1 emit|s1|r1 gateM|g1 get|g1|s1|r1|1 post|s1|r2 emit|s1|r2 emit|s1|r2 emit|s1|r2 emit|s1|r2 emit|s1|r2 emit|s1|r2 emit|s1|r2 open emit|s1|r1 ret|s1|r1 ret|s1|r2"),
        ("held-response-vs-resume", (True, False, False), {"s1": True},
         "post|s1|r1 emit|s1|r1 cut|p.s1.r1 gateA|s1|r1 ret|s1|r1 get|g1|s1|r1|0 open get|g2|s1|r1|1"),
        ("conflict-then-resume", (True, False, False), {"s1": False},
         "post|s1|r1 emit|s1|r1 get|g1|s1|r1|0 cut|p.s1.r1 get|g2|s1|r1|0 emit|s1|r1 get|g3|s1|r1|0 cut|g2 get|g4|s1|r1|1 ret|s1|r1"),
        ("two-sessions-resume", (True, False, False), {"s1": True, "s2": False},
         "post|s1|r1 post|s2|r1 emit|s1|r1 emit|s2|r1 cut|p.s1.r1 cut|p.s2.r1 emit|s2|r1 emit|s1|r1 get|g1|s2|r1|0 get|g2|s1|r1|1 ret|s1|r1 ret|s2|r1"),
    ],
    "C10": [
        ("same-id-posts-raced-at-open", (True, False, False), {"s1": True},
         "post|s1|r1 emit|s1|r1 ret|s1|r1 gateO|p.s1.r2 post|s1|r2 post|s1|d2 emit|s1|d2 open emit|s1|d2 ret|s1|d2 emit|s1|r2 ret|s1|r2"),
        ("same-id-posts-raced-at-open-noprime", (True, False, False), {"s1": False},
         "gateO|p.s1.d1 post|s1|d1 post|s1|r1 emit|s1|r1 open emit|s1|r1 ret|s1|r1 post|s1|d1"),
        ("same-id-sequential-duplicate", (False, False, False), {"s1": True, "s2": False},
         "post|s1|r1 post|s1|d1 post|s2|d1 emit|s1|r1 emit|s2|d1 ret|s1|r1 post|s2|r1 ret|s2|d1"),
        ("broadcast-from-handler-same-id-elsewhere", (False, False, False), {"s1": True, "s2": False, "s3": False},
         "get|g1|s2|sa|none get|g2|s1|sa|none post|s1|r1 post|s2|r1 post|s3|r1 upd|s1|r1 emit|s2|r1 upd|s2|r1 ret|s2|r1 upd|s1|r1 ret|s1|r1 ret|s3|r1"),
        ("broadcast-store-json", (True, True, False), {"s1": True, "s2": True},
         "get|g1|s2|sa|none post|s1|r2 post|s2|r2 upd|s1|r2 cut|g1 upd|s2|r2 get|g2|s2|sa|0 ret|s1|r2 ret|s2|r2"),
        ("abandoned-nested-call-no-standalone", (False, False, False), {"s1": True, "s2": False},
         "post|s1|r1 post|s2|r1 sreq|s1|r1 sreq|s2|r1 abandon|s1|r1 emit|s1|r1 abandon|s2|r1 ret|s1|r1 ret|s2|r1"),
        ("abandoned-nested-call-standalone-attached", (False, False, False), {"s1": False},
         "get|g1|s1|sa|none post|s1|r1 post|s1|r2 sreq|s1|r2 sreq|s1|r1 abandon|s1|r1 ans|s1|r2 sreq|s1|r2 abandon|s1|r2 ret|s1|r1 ret|s1|r2"),
        ("abandoned-nested-call-store-detached", (True, False, False), {"s1": True},
         "get|g1|s1|sa|none post|s1|r1 sreq|s1|r1 cut|p.s1.r1 abandon|s1|r1 get|g2|s1|r1|1 emit|s1|r1 sreq|s1|r1 abandon|s1|r1 ret|s1|r1"),
        ("abandoned-nested-call-json", (True, True, False), {"s1": True},
         "get|g1|s1|sa|none post|s1|r1 sreq|s1|r1 abandon|s1|r1 ret|s1|r1"),
        ("same-id-two-sessions-sse", (False, False, False), {"s1": True, "s2": False},
         "post|s1|r1 post|s2|r1 emit|s2|r1 emit|s1|r1 sreq|s1|r1 ans|s1|r1 ret|s2|r1 emit|s1|r1 ret|s1|r1"),
        ("same-id-three-sessions-json", (False, True, False), {"s1": True, "s2": False, "s3": False},
         "get|g1|s1|sa|none get|g2|s2|sa|none post|s1|r1 post|s2|r1 post|s3|r1 emit|s1|r1 emit|s2|r1 emit|s3|r1 sa|s2 ret|s3|r1 ret|s1|r1 ret|s2|r1"),
        ("two-requests-one-session", (False, False, False), {"s1": True},
         "get|g1|s1|sa|none post|s1|r1 post|s1|r2 emit|s1|r2 emit|s1|r1 sa|s1 ret|s1|r1 emit|s1|r2 ret|s1|r2"),
        ("resumption-interleaved", (True, False, False), {"s1": True, "s2": True},
         "post|s1|r1 post|s1|r2 post|s2|r1 emit|s1|r1 cut|p.s1.r1 emit|s1|r2 emit|s2|r1 emit|s1|r1 get|g1|s1|r1|1 ret|s1|r2 emit|s1|r1 ret|s2|r1 ret|s1|r1"),
        ("stateless-concurrent", (False, False, True), {"s1": True, "s2": True, "s3": False},
         "post|s1|r1 post|s2|r1 post|s3|r1 emit|s2|r1 emit|s1|r1 sreq|s3|r1 emit|s3|r1 ret|s2|r1 ret|s1|r1 ret|s3|r1"),
        ("stateless-json", (False, True, True), {"s1": True, "s2": False},
         "post|s1|r1 post|s2|r1 emit|s1|r1 emit|s2|r1 ret|s2|r1 ret|s1|r1"),
        ("notification-after-response", (True, False, False), {"s1": True},
         "get|g1|s1|sa|none post|s1|r1 emit|s1|r1 ret|s1|r1 sa|s1 post|s1|r2 emit|s1|r2 get|g2|s1|r1|1 ret|s1|r2"),
        ("held-write-other-request", (True, False, False), {"s1": False},
         "post|s1|r1 post|s1|r2 gateA|s1|r1 emit|s1|r1 emit|s1|r2 ret|s1|r2 open ret|s1|r1"),
        ("json-store-standalone-resume", (True, True, False), {"s1": True},
         "get|g1|s1|sa|none post|s1|r1 emit|s1|r1 cut|g1 emit|s1|r1 sa|s1 get|g2|s1|sa|0 ret|s1|r1"),
    ],
}


# --------------------------------------------------------------------------
# scenario construction


def mk_scenario(sid, store, js, stateless, prime, steps, rnd, maxbytes=0):
    sess = []
    for name in sorted(prime):
        sess.append({"name": name, "version": VERS_PRIME if prime[name] else rnd.choice(VERS_NOPRIME)})
    cfg = {"store": bool(store), "json": bool(js), "stateless": bool(stateless)}
    if maxbytes:
        cfg["maxbytes"] = maxbytes
    return {"id": sid, "cfg": cfg, "sessions": sess, "steps": steps}


def steps_of_hist(hist):
    return [h.split("|") for h in hist]


def label_steps(name, a):
    """Environment steps of one seam-level action label of StreamSrvMC (SDK actions give none)."""
    gate = lambda g, key: ([["gateA"] + key] if g else [])
    if name == "SPost":
        return ([["gateO", "p.%s.%s" % (a[0], a[1])]] if a[2] else []) + [["post", a[0], a[1]]]
    if name == "SBcast":
        return [["upd", a[0], a[1]]]
    if name == "SAbandon":
        return [["abandon", a[0], a[1]]]
    if name in ("SEmit", "SSreq", "SRet"):
        op = {"SEmit": "emit", "SSreq": "sreq", "SRet": "ret"}[name]
        return gate(a[2], [a[0], a[1]]) + [[op, a[0], a[1]]]
    if name == "SAns":
        return [["ans", a[0], a[1]]]
    if name == "SSa":
        return gate(a[1], [a[0], "sa"]) + [["sa", a[0]]]
    if name == "SGet":
        return ([["gateF", a[0]]] if a[4] else []) + [["get", a[0], a[1], a[2], "none" if a[3] == -1 else str(a[3])]]
    if name == "SCut":
        return [["cut", a[0]]]
    if name == "SDel":
        return [["del", a[0]]]
    if name == "SOpen":
        return [["open"]]
    return []


def env_cover(init, edges, maxlen, seed, max_paths=None):
    """Paths from the initial states that together traverse every ENVIRONMENT edge of the seam-level graph
    (SDK edges, labelled GSdk, are only travelled)."""
    rnd = random.Random(seed)
    is_env = lambda lbl: not lbl.startswith("GSdk")
    pred = {}
    dq = deque()
    for i in init:
        pred[i] = None
        dq.append(i)
    while dq:
        u = dq.popleft()
        for (lbl, v) in edges.get(u, []):
            if v not in pred:
                pred[v] = (u, lbl)
                dq.append(v)

    def path_to(n):
        p = []
        while pred[n] is not None:
            u, lbl = pred[n]
            p.append((u, lbl, n))
            n = u
        p.reverse()
        return p

    uncovered, total = {}, 0
    for u in pred:
        outs = [(lbl, v) for (lbl, v) in edges.get(u, []) if is_env(lbl) and v != u]
        if outs:
            uncovered[u] = set(outs)
            total += len(outs)

    def mark(u, lbl, v):
        if u in uncovered and (lbl, v) in uncovered[u]:
            uncovered[u].discard((lbl, v))
            if not uncovered[u]:
                del uncovered[u]

    paths = []
    while uncovered and (max_paths is None or len(paths) < max_paths):
        cand = rnd.sample(sorted(uncovered), min(len(uncovered), 8))
        start = min(cand, key=lambda n: len(path_to(n)))
        steps = path_to(start)
        for (u, lbl, v) in steps:
            mark(u, lbl, v)
        cur = start
        nenv = sum(1 for s in steps if is_env(s[1]))
        while nenv < maxlen:
            if cur in uncovered:
                lbl, v = rnd.choice(sorted(uncovered[cur]))
                mark(cur, lbl, v)
                steps.append((cur, lbl, v))
                cur = v
                nenv += 1
                continue
            seen = {cur: None}
            q = deque([cur])
            tgt = None
            while q and len(seen) < 3000:
                y = q.popleft()
                if y in uncovered and y != cur:
                    tgt = y
                    break
                for (l2, z) in edges.get(y, []):
                    if z not in seen:
                        seen[z] = (y, l2)
                        q.append(z)
            if tgt is None:
                break
            hop = []
            n = tgt
            while seen[n] is not None:
                y, l2 = seen[n]
                hop.append((y, l2, n))
                n = y
            hop.reverse()
            henv = sum(1 for s in hop if is_env(s[1]))
            if nenv + henv >= maxlen:
                break
            for (u, lbl, v) in hop:
                mark(u, lbl, v)
            steps.extend(hop)
            nenv += henv
            cur = tgt
        paths.append([graphwalk.parse_label(lbl) for (_, lbl, _) in steps])
    return paths, total


def cover_scenarios(v, cfgname, store, js, stateless, prime, seed, rnd, limit, prefix):
    wd = vlib.scratch("tlc-")
    dot = os.path.join(wd, "g.dot")
    res = vlib.run_tlc("StreamSrvMC", cfgname, workdir=wd, workers=4, timeout=900, heap_gb=6,
                       extra_args=["-dump", "dot,actionlabels", dot])
    vlib.tlc_must_pass(res, cfgname)
    v.add_tlc(cfgname + "(seam graph)", res)
    init, edges = graphwalk.parse_dot(dot)
    os.remove(dot)
    paths, total = env_cover(init, edges, maxlen=22, seed=seed)
    v.cov["graph_env_edges"] = v.cov.get("graph_env_edges", 0) + total
    v.cov["graph_nodes"] = v.cov.get("graph_nodes", 0) + len(edges)
    v.cov["cover_paths_total"] = v.cov.get("cover_paths_total", 0) + len(paths)
    if limit and len(paths) > limit:
        paths = rnd.sample(paths, limit)
    out = []
    for i, p in enumerate(paths):
        steps = [s for (name, args) in p for s in label_steps(name, args)]
        if steps:
            out.append(mk_scenario("%s%d" % (prefix, i), store, js, stateless, prime, steps, rnd))
    return out


def simulate_scenarios(v, cfgname, num, depth, seed, rnd, prefix):
    """-simulate on the seam-level generator: every quiescent state prints its history; the longest history of
    each behaviour becomes a scenario."""
    res = vlib.run_tlc("StreamSrvMC", cfgname, workers=1, timeout=900, heap_gb=4,
                       simulate="num=%d" % num, depth=depth, seed=seed)
    if res.error or res.violation:
        raise vlib.MachineryError("StreamSrvMC simulation failed: %s %s\n%s" % (res.error, res.violation, res.stdout[-1500:]))
    m = re.search(r"The number of states generated: (\d+)", res.stdout)
    if m:
        res.generated = res.distinct = int(m.group(1))
    v.add_tlc(cfgname + "(simulate)", res)
    beh, last = [], None
    for p in res.printed:
        if not isinstance(p, dict) or "steps" not in p:
            continue
        if last is not None and (len(p["steps"]) <= len(last["steps"]) or p["steps"][:len(last["steps"])] != last["steps"]):
            beh.append(last)
        last = p
    if last is not None:
        beh.append(last)
    out, seen = [], set()
    for i, b in enumerate(beh):
        key = json.dumps(b, sort_keys=True)
        if key in seen:
            continue
        seen.add(key)
        steps = steps_of_hist(b["steps"])
        used = {s[1] for s in steps if s[0] in ("post", "sa", "del") and len(s) > 1} | {s[2] for s in steps if s[0] == "get"}
        prime = {k: bool(val) for k, val in b["prime"].items() if k in used or k == "s1"}
        out.append(mk_scenario("%s%d" % (prefix, i), b["store"], b["json"], b["stateless"], prime, steps, rnd))
    return out


def corner_scenarios(pid, rnd):
    out = []
    for name, cfg, prime, text in CORNERS[pid]:
        store, js, stateless = cfg[:3]
        out.append(mk_scenario("corner-" + name, store, js, stateless, prime, steps_of_hist(text.split()), rnd,
                               maxbytes=(cfg[3] if len(cfg) > 3 else 0)))
    return out


# --------------------------------------------------------------------------
# running and judging


def run_harness(pid, scen_rows, seed, nrandom, timeout=1200, prefix=""):
    out = vlib.outdir(pid)
    scen = os.path.join(out, prefix + "scenarios.ndjson")
    vlib.write_ndjson(scen, scen_rows)
    obs = os.path.join(out, prefix + "obs.ndjson")
    if os.path.exists(obs):
        os.remove(obs)
    rc, gout, wall = vlib.go_test("mcp", "^TestVerif_StreamSrv$", HARNESS, timeout=timeout,
                                  env={"VERIF_IN": scen, "VERIF_OUT": obs, "VERIF_SEED": seed, "VERIF_RANDOM": nrandom})
    vlib.go_must_build(rc, gout, pid)
    rows = vlib.read_ndjson(obs) if os.path.exists(obs) else []
    if rc != 0 and not any(r.get("ev") == "panic" for r in rows):
        raise vlib.MachineryError("StreamSrv harness failed:\n" + gout[-3000:])
    if not rows:
        raise vlib.MachineryError("StreamSrv harness produced no observations:\n" + gout[-2000:])
    return obs, rows


def steps_of_trace(trows):
    out = []
    for r in trows:
        if r.get("ev") == "step":
            st = [r.get("op")] + [r.get(k) for k in ("a1", "a2", "a3", "a4") if r.get(k) not in (None, "")]
            out.append(st)
        elif r.get("ev") == "script.end":
            break
    return out


def mode_of(head):
    return "%s/%s/%s" % ("stateless" if head.get("stateless") else "stateful", "json" if head.get("json") else "sse",
                         "store" if head.get("store") else "nostore")


def collapse(ops):
    out = []
    for o in ops:
        if out and out[-1].rstrip("+") == o:
            out[-1] = o + "+"
        else:
            out.append(o)
    return out


def signature(pid, clause, trows, upto, e):
    """Abstract failing case. C08: <clause>:<prime?>:<op pattern on the failing session up to the failure>:<resume
    indices>.  C10: <clause>:<mode>:<overlap at the failure>."""
    head = trows[0] if trows else {}
    sess = e.get("s") or ""
    before = trows[:upto + 1]
    if pid == "C08":
        ops, resumes = [], []
        for r in before:
            if r.get("ev") != "step" or not r.get("applied"):
                continue
            op = r.get("op")
            involved = sess in (r.get("a1"), r.get("a2")) or (op == "cut" and ("." + sess + ".") in (r.get("a1") or "")) \
                or op in ("open", "cut", "gateA", "gateF", "gateW", "gateO", "gateM")
            if not involved:
                continue
            ops.append(op)
            if op == "get":
                resumes.append(str(r.get("ri")))
        prime = (head.get("prime") or {}).get(sess)
        return "%s:%s:%s:%s" % (clause, "prime" if prime else "noprime", ",".join(collapse(ops)), ",".join(resumes) or "-")
    posted, retd, gets, sessions = set(), set(), 0, set()
    for r in before:
        if r.get("ev") != "step" or not r.get("applied"):
            continue
        if r.get("op") == "post":
            posted.add((r.get("a1"), r.get("a2")))
            sessions.add(r.get("a1"))
        elif r.get("op") == "ret":
            retd.add((r.get("a1"), r.get("a2")))
        elif r.get("op") == "get":
            gets += 1
    return "%s:%s:sess=%d,inflight=%d,done=%d,get=%d" % (clause, mode_of(head), len(sessions), len(posted - retd), len(retd), gets)


def judge(v, pid, obs, rows, scen_by_id, replay_key="scenario"):
    fails, mres = vlib.run_monitor("StreamSrvMon", "StreamSrvMon.cfg", obs, timeout=1800, heap_gb=8)
    v.add_tlc("StreamSrvMon", mres)
    traces = vlib.split_traces(rows)
    other, bad = {}, set()
    for f in fails:
        clause = f["monfail"]
        tid, start, trows = vlib.trace_of_line(traces, f["line"])
        e = rows[f["line"] - 1]
        bad.add(tid)
        if clause.startswith("X."):
            raise vlib.MachineryError("harness sanity clause %s failed in trace %s at line %d: %s" % (clause, tid, f["line"], json.dumps(e)[:300]))
        if not clause.startswith(pid + "."):
            other[clause] = other.get(clause, 0) + 1
            continue
        sc = scen_by_id.get(tid)
        if sc is None:
            head = trows[0]
            sc = {"id": tid, "cfg": {"store": head.get("store"), "json": head.get("json"), "stateless": head.get("stateless")},
                  "sessions": [{"name": r["s"], "version": r["ver"]} for r in trows if r.get("ev") == "sess"],
                  "steps": steps_of_trace(trows)}
        ev = dict(e)
        ev.pop("snap", None)
        v.violation(signature(pid, clause, trows, f["line"] - start, e),
                    "%s failed at line %d (trace %s, event %s %s)" % (clause, f["line"], tid, e.get("ev"), e.get("x") or e.get("tag") or ""),
                    {replay_key: sc, "event": ev})
    v.cov["other_property_clauses_failed" if replay_key == "scenario" else "http_other_property_clauses_failed"] = other
    return traces, bad


def strict(v, rows, skip, limit=None, rnd=None):
    """Strict validation against StreamSrv.tla (binding / drift). Traces with a forced DELETE (`delf`: session
    termination while handlers run is not modelled), with a bounded event store (purging is C20's model), with a
    failed setup or a panic are skipped."""
    tr = vlib.split_traces(rows)
    keep = []

    def many_holds(t):
        # more than three gates armed between two `open`s: the interleavings of everything released at once
        # are too many for the trace checker (the monitor still judges the trace)
        n = 0
        for x in t:
            if x.get("ev") == "step" and x.get("applied"):
                if (x.get("op") or "").startswith("gate"):
                    n += 1
                    if n > 3:
                        return True
                elif x.get("op") == "open":
                    n = 0
        return False

    for tid, s, t in tr:
        if tid in skip or t[0].get("maxbytes") or many_holds(t) or \
                any(x.get("ev") in ("panic", "setup.error") or (x.get("ev") == "step" and x.get("op") == "delf") for x in t):
            continue
        keep.append((tid, t))
    if limit and len(keep) > limit:
        keep = [keep[i] for i in sorted(rnd.sample(range(len(keep)), limit))]
    nkeep = len(keep)
    out = vlib.outdir(v.pid)
    accepted = 0
    for attempt in range(6):
        cur = [r for (tid, t) in keep for r in t]
        if not cur:
            break
        sp = os.path.join(out, "obs_strict.ndjson")
        vlib.write_ndjson(sp, cur)
        ok, hwm, res = vlib.run_strict("StreamSrvTrace", "StreamSrvTrace.cfg", sp, timeout=1800, heap_gb=8,
                                       java_opts=["-Dtlc2.tool.queue.IStateQueue=StateDeque"])
        v.add_tlc("StreamSrvTrace(strict)", res)
        if ok:
            accepted = len(keep)
            break
        if res.violation and (hwm is None or hwm < 1):
            v.drift.append("a StreamSrv.tla invariant (%s) is violated on a state of a recorded trace" % res.violation)
            break
        t2 = vlib.split_traces(cur)
        tid, start, trows = vlib.trace_of_line(t2, hwm)
        line = dict(cur[hwm - 1])
        v.drift.append("trace %s: step at line %d not explained by StreamSrv.tla: %s" % (tid, hwm - start, json.dumps(line)[:300]))
        keep = [(t, x) for (t, x) in keep if t != tid]
    v.cov["strict_traces_explained_by_spec"] = accepted
    v.cov["strict_traces_checked"] = nkeep
    return accepted


def coverage(v, traces):
    distinct, nontrivial, evals = set(), 0, 0
    for tid, start, trows in traces:
        steps = steps_of_trace(trows)
        evals += len(steps)
        head = trows[0]
        key = vlib.sha([mode_of(head), head.get("prime"), steps])
        if key in distinct:
            continue
        distinct.add(key)
        ops = {s[0] for s in steps}
        nsess = len({s[1] for s in steps if s[0] == "post"})
        if ops & {"cut", "get", "gateA", "gateF", "gateW", "gateO", "gateM", "upd", "abandon", "del", "delf"} or nsess > 1:
            nontrivial += 1
    v.cov["evaluations"] = evals
    v.cov["traces_validated_against_impl"] = len(traces)
    v.cov["distinct_nontrivial"] = nontrivial
    v.cov["rule"] = ("scenarios = environment-action scripts (transition cover of the seam-level TLC state graph, TLC -simulate "
                     "histories, hand-written gated races, seeded random scripts beyond the model's bounds), each run on a real "
                     "StreamableHTTPHandler under synctest; evaluations = script steps executed; distinct by (mode, versions, "
                     "step list); non-trivial = contains a disconnect, a resumption, a held write/replay, a DELETE, or more "
                     "than one session")


def family_run(pid, tier, seed, replay):
    v = vlib.Verdict(pid, tier, seed)
    v.assumptions = ["the event store honours its contract (mcp.MemoryEventStore, see C20); single server process",
                     "ground truth = the order in which the wrapping EventStore saw Append per (session, stream)",
                     "seam-level scheduling: the SDK runs to quiescence between environment actions; interleavings inside "
                     "the stream lock are pinned only where the store gates (Append, After) allow it",
                     "a client disconnect is the cancellation of the exchange's request context; writes to it fail afterwards",
                     "DELETE while handlers are running (graceful close in progress) is judged by the monitor but not modelled",
                     "StreamSrv.tla exhaustive results are for the stated small constants"]
    rnd = random.Random(seed * 7919 + (8 if pid == "C08" else 10))
    fam = FAMILY[pid]
    import time
    marks = [("start", time.time())]

    def phase(name):
        marks.append((name, time.time()))
        v.cov["phase_wall_s"] = {marks[i][0]: round(marks[i][1] - marks[i - 1][1], 1) for i in range(1, len(marks))}

    rows = []
    if replay:
        rep = json.load(open(replay))["replay"]
        if "e2e_scenario" in rep:   # a violation of the end-to-end part: only that part is replayed
            e2echeck.run_e2e(v, pid, tier, seed, rep["e2e_scenario"])
            return v.finish()
        rows = [rep["scenario"]]
    else:
        # 1. design level: exhaustive model check at lock granularity
        for cfg in fam["mc"][tier]:
            res = vlib.run_tlc("StreamSrvMC", cfg, workers=6, timeout=1500, heap_gb=8 if tier == "quick" else 12)
            vlib.tlc_must_pass(res, cfg)
            v.add_tlc(cfg, res)
            if not res.ok:
                raise vlib.MachineryError("StreamSrv model violates %s on config %s (a lead, not a verdict)" % (res.violation, cfg))
        phase("model")
        # 1b. vacuity witnesses (must be violated)
        if tier == "thorough":
            base, wits = fam["witness"]
            cfgtxt = open(os.path.join(vlib.SPEC, base)).read()
            cfgtxt = re.sub(r"(?m)^INVARIANTS.*$", "", cfgtxt)
            for wit in wits:
                wd = vlib.scratch("tlc-")
                r2 = vlib.run_tlc("StreamSrvMC", "wit.cfg", workdir=wd, workers=4, timeout=600, heap_gb=6,
                                  extra_files={"wit.cfg": cfgtxt + "\nINVARIANT %s\n" % wit})
                if r2.violation != wit:
                    raise vlib.MachineryError("vacuity: witness %s not reachable in %s (%s)" % (wit, base, r2.error or r2.violation))
            nw = len(wits)
            for base2, wits2 in fam.get("witness2", []) + ([(fam["witness3"][0], fam["witness3"][1])] if "witness3" in fam else []):
                cfgtxt = re.sub(r"(?m)^INVARIANTS.*$", "", open(os.path.join(vlib.SPEC, base2)).read())
                for wit in wits2:
                    wd = vlib.scratch("tlc-")
                    r2 = vlib.run_tlc("StreamSrvMC", "wit.cfg", workdir=wd, workers=4, timeout=600, heap_gb=6,
                                      extra_files={"wit.cfg": cfgtxt + "\nINVARIANT %s\n" % wit})
                    if r2.violation != wit:
                        raise vlib.MachineryError("vacuity: witness %s not reachable in %s (%s)" % (wit, base2, r2.error or r2.violation))
                    nw += 1
            v.cov["vacuity_witnesses_reached"] = nw
        phase("witness")
        # 2. scenarios generated by TLC from the model
        limit = 60 if tier == "quick" else 3000
        for i, (cfg, store, js, stateless, prime) in enumerate(fam["cover"][tier]):
            rows += cover_scenarios(v, cfg, store, js, stateless, prime, seed, rnd, limit, "cov%d." % i)
        n_cover = len(rows)
        phase("cover")
        rows += simulate_scenarios(v, fam["gen"], 100 if tier == "quick" else 1200, 70, seed, rnd, "sim")
        v.cov["tlc_generated_scenarios"] = len(rows)
        v.cov["cover_scenarios_run"] = n_cover
        rows += corner_scenarios(pid, rnd)
        if pid == "C10":   # the routing check also runs the resumption corners, and vice versa
            rows += [dict(r, id="x-" + r["id"]) for r in corner_scenarios("C08", rnd)]
        else:
            rows += [dict(r, id="x-" + r["id"]) for r in corner_scenarios("C10", rnd)]
    phase("simulate")
    nrand = 0 if replay else (200 if tier == "quick" else 2500)
    obs, orows = run_harness(pid, rows, seed, nrand)
    phase("go")
    traces, bad = judge(v, pid, obs, orows, {r["id"]: r for r in rows})
    coverage(v, traces)
    phase("monitor")
    if not replay:
        strict(v, orows, bad, limit=(180 if tier == "quick" else 3000), rnd=rnd)
    phase("strict")
    for tid, start, trows in traces[:3]:
        v.sample({"trace": tid, "mode": mode_of(trows[0]), "steps": steps_of_trace(trows)[:14]})
    if pid == "C08" and not replay:   # the end-to-end part (spec/StreamE2E.tla): real client against the real server
        e2echeck.run_e2e(v, pid, tier, seed)
    return v.finish()


def satellite(v, pid, tier, seed, replay_scn=None):
    """The streamable-HTTP part of a connection property (C02, C03, C04): those properties quantify over "every
    transport", and on the streamable server transport answering, ordering and cancellation depend on the stream
    bookkeeping modelled by StreamSrv.tla.  Runs the hand-written gated races of C08/C10, a sample of the transition
    cover of the seam-level TLC graph and seeded random scenarios on a real StreamableHTTPHandler and reports the
    clauses of StreamSrvMon prefixed with `pid` (C02.HttpCallAnswered / HttpAnsweredAtMostOnce, C03.SameStreamOrder,
    C04.CancelNoticeReachesPeer) into the caller's verdict."""
    rnd = random.Random(seed * 104729 + int(pid[1:]))
    if replay_scn is not None:
        rows, nrand = [replay_scn], 0
    else:
        rows = []
        picks = {"C02": [("C10", 1), ("C10", 3)], "C03": [("C08", 0), ("C08", 1)], "C04": [("C10", 0), ("C10", 2)]}[pid]
        limit = 25 if tier == "quick" else 400
        for i, (fam, k) in enumerate(picks):
            cfg, store, js, stateless, prime = FAMILY[fam]["cover"]["quick"][k]
            rows += cover_scenarios(v, cfg, store, js, stateless, prime, seed, rnd, limit, "hcov%d." % i)
        rows += simulate_scenarios(v, FAMILY["C10" if pid != "C03" else "C08"]["gen"], 40 if tier == "quick" else 400, 70, seed, rnd, "hsim")
        rows += corner_scenarios("C08", rnd) + [dict(r, id="x-" + r["id"]) for r in corner_scenarios("C10", rnd)]
        nrand = 60 if tier == "quick" else 800
    obs, orows = run_harness(pid, rows, seed, nrand, prefix="http_")
    traces, bad = judge(v, pid, obs, orows, {r["id"]: r for r in rows}, replay_key="streamsrv_scenario")
    v.cov["http_scenarios_run"] = len(traces)
    v.cov["http_steps_executed"] = sum(len(steps_of_trace(t)) for (_, _, t) in traces)
    v.cov["traces_validated_against_impl"] = v.cov.get("traces_validated_against_impl", 0) + len(traces)
    return traces


def run(tier, seed, replay):
    return family_run(PID, tier, seed, replay)
