"""C05 — see c01.py / conncheck.py."""
from checks.c01 import connrun
PID = "C05"

def run(tier, seed, replay):
    return connrun(PID, tier, seed, replay)
