"""C19 — wire codec and framing round trips (DESIGN.md section 6, C19; pattern P1 + framing pipeline).

TLC (spec/Codec.tla) checks the design of the five decision tables of spec/CodecDefs.tla and exports
their complete case products; the Go harness (harness/mcp/c19_codec_test.go) concretises every case
with seeded values, runs the real encoders / decoders / framers / sessions and records which members
survived; the TLA+ monitor spec/CodecMon.tla judges the recorded comparisons (verdict) and compares
them with the code-shaped expectation (drift).  Level: exploration (see DESIGN.md section 7).
"""
import json, os, shutil
import vlib

PID = "C19"
TABLES = {"msg": "cases_msg.ndjson", "wire": "cases_wire.ndjson", "val": "cases_val.ndjson",
          "req": "cases_req.ndjson", "vc": "cases_vc.ndjson"}
FIELD = {"Method": "method", "Params": "params", "Result": "result", "ErrCode": "error.code",
         "ErrMsg": "error.message", "ErrData": "error.data"}
MISSING = {"text.text": ("TextContent", "text"), "image.data": ("ImageContent", "data"),
           "audio.data": ("AudioContent", "data"), "tool_result.content": ("ToolResultContent", "content"),
           "resource.text|blob": ("ResourceContents", "text|blob"), "resource.resource": ("EmbeddedResource", "resource")}
REQ_MEMBER = {"ListToolsResult": "tools", "ListPromptsResult": "prompts", "ListResourcesResult": "resources",
              "ListResourceTemplatesResult": "resourceTemplates", "ListRootsResult": "roots", "CallToolResult": "content",
              "GetPromptResult": "messages", "ReadResourceResult": "contents", "CompleteResult": "completion.values",
              "CreateMessageWithToolsResult": "content", "TextContent": "text", "ImageContent": "data",
              "AudioContent": "data", "ToolResultContent": "content",
              "CallToolResult+structured": "content", "CallToolResult+structuredArr": "content",
              "CallToolResult+structuredMeta": "content", "CallToolResult+isError": "content",
              "CallToolResult+structured+isError": "content"}


def sigs_of(e, inv):
    """Signatures (abstract failing case) for a monitor failure `inv` on observation `e`."""
    k, c, o = e["k"], e.get("c"), e.get("o")
    if k == "msg":
        name = inv.split(".", 1)[1]
        if name == "IdValue":
            return ["id-class=%s:altered" % c["id"]]
        if name == "IdType":
            return ["id-class=%s:type-changed" % c["id"]]
        if c["method"] == "empty" and name in ("Method", "Class"):
            return ["method-class=empty:lost"]
        if name == "Class":
            return ["decoded-as=%s:kind=%s|framing=%s|dir=%s" % (o["cls"], c["kind"], c["framing"], c["dir"])]
        if name == "Frame":
            return ["framing=%s:broken|flavor=%s|dir=%s" % (c["framing"], c["flavor"], c["dir"])]
        return ["field=%s:lost|kind=%s|payload=%s|framing=%s|dir=%s" % (FIELD[name], c["kind"], c["payload"], c["framing"], c["dir"])]
    if k == "wire":
        shape = "ver=%s,id=%s,method=%s,params=%s,result=%s,error=%s,casing=%s" % (  # valid shapes are few
            c["ver"], c["id"], c["method"], c["params"], c["result"], c["error"], c["casing"])
        if inv == "NoPanic":
            return ["panic:DecodeMessage|" + shape]
        if inv == "CaseSensitive":
            return ["case-insensitive:wire.%s" % c["casing"]]
        return ["valid-wire-not-preserved:decoded-as=%s|%s" % (o["cls"], shape)]
    if k == "val":
        ctx = "cont=%s|ckind=%s" % (c["cont"], c["ckind"])
        if inv == "ValRoundTrip":
            if not o["ok"]:
                if c["arity"] == "nil":
                    return ["roundtrip=%s:arity=nil:decode-error" % c["cont"]]
                return ["roundtrip:decode-error|" + ctx]
            return ["field=%s:lost|%s" % (f, ctx) for f in o["lost"]]
        out = []
        for m in o["missing"]:
            t, mem = MISSING.get(m, (m, "?"))
            out.append("type=%s:null-%s%s" % (t, mem, "@tool_result" if c["nested"] == "zeros" else ""))
        return out
    if k == "req":
        if inv == "Answered":
            return ["type=%s:no-answer|fill=%s" % (c["type"], c["fill"])]
        return ["type=%s:null-%s" % (c["type"], REQ_MEMBER[c["type"]])]
    if k == "vc":
        return ["case-insensitive:%s.%s" % (c["target"], c["member"])]
    if k == "fuzz":
        return ["panic:%s" % e["dec"]]
    return ["?:" + inv]


def nontrivial(e):
    k, c = e["k"], e.get("c")
    if k == "msg":
        return c["framing"] != "raw" or c["flavor"] != "plain" or c["id"] not in ("absent", "zero", "small", "str-ascii")
    if k == "wire":
        return c["casing"] != "exact" or c["ver"] != "2.0" or c["id"] not in ("absent", "int", "str")
    if k == "val":
        return c["fill"] == "zero" or c["meta"] != "none" or c["nested"] not in ("na", "one") or c["arity"] in ("nil", "empty")
    if k == "req":
        return c["fill"] != "one"
    return True


def run(tier, seed, replay):
    v = vlib.Verdict(PID, tier, seed, level="exploration")
    v.assumptions = [
        "byte-level fidelity is compared in the Go harness (field-wise JSON equality with exact numbers); the TLA+ monitor judges the comparison results",
        "every abstract class is concretised with seeded representatives (VERIF_SEED); classes, not all values, are exhaustive",
        "newline-delimited framing is exercised through ioConn over io.Pipe, SSE through writeEvent/scanEvents on an in-memory ResponseWriter",
        "goroutine panics inside ioConn's reader goroutine would crash the test binary and are reported as a process panic",
    ]
    out = vlib.outdir(PID)
    for f in os.listdir(out):  # replay files of earlier runs
        if f.startswith("violation-"):
            os.remove(os.path.join(out, f))
    # 1. design check + case export by TLC
    wd = vlib.scratch("tlc-")
    res = vlib.run_tlc("Codec", "Codec.cfg", workdir=wd, workers=1, timeout=600, heap_gb=4)
    vlib.tlc_must_pass(res, "Codec")
    if not res.ok:
        raise vlib.MachineryError("Codec design check failed: " + (res.violation or res.stdout[-2000:]))
    counts = [p for p in res.printed if isinstance(p, dict) and "msg" in p][0]
    v.add_tlc("Codec(design: Holds(c, Expected(c)) <=> ~Lead(c) on 5 tables; Classify total; witnesses)", res)
    ncases = sum(counts[k] for k in TABLES)
    v.cov["states"] = ncases
    v.cov["transitions"] = ncases
    v.cov["case_counts"] = {k: counts[k] for k in TABLES}
    v.cov["design_leads"] = {k: counts[k + "Leads"] for k in ("msg", "val", "req", "vc")}
    v.cov["lead_id_classes"] = counts["leadIds"]
    indir = os.path.join(out, "in")
    shutil.rmtree(indir, ignore_errors=True)
    os.makedirs(indir)
    for k, f in TABLES.items():
        if replay:
            rep = json.load(open(replay))["replay"]
            rows = [rep["c"]] if rep.get("k") == k else []
            vlib.write_ndjson(os.path.join(indir, f), rows)
        else:
            os.replace(os.path.join(wd, f), os.path.join(indir, f))
    # 2. the real code
    obs = os.path.join(out, "obs.ndjson")
    reps = 1 if tier == "quick" else 5
    nfuzz = 0 if replay and json.load(open(replay))["replay"].get("k") != "fuzz" else (20000 if tier == "quick" else 400000)
    rc, gout, wall = vlib.go_test("mcp", "^TestVerif_C19$", ["mcp/c19_codec_test.go"], timeout=1500,
                                  env={"VERIF_IN": indir, "VERIF_OUT": obs, "VERIF_SEED": seed, "VERIF_REPS": reps,
                                       "VERIF_FUZZ": nfuzz, "VERIF_TIER": tier, "VERIF_WORKERS": 4})
    vlib.go_must_build(rc, gout, PID)
    v.cov["go_wall_s"] = round(wall, 1)
    if rc != 0:
        if "panic:" in gout or "fatal error:" in gout:
            v.violation("panic:process", "the test binary crashed while decoding (panic / fatal error in SDK code)",
                        {"k": "crash", "output": gout[-4000:]})
            return v.finish()
        raise vlib.MachineryError("C19 harness failed:\n" + gout[-3000:])
    rows = vlib.read_ndjson(obs)
    detail = {}
    if os.path.exists(obs + ".detail"):
        for d in vlib.read_ndjson(obs + ".detail"):
            detail[d["line"]] = d
    aborted = None
    if os.path.exists(obs + ".aborted"):
        aborted = open(obs + ".aborted").read().strip()
        v.assumptions.append("run cut short: " + aborted)
    if not replay and not aborted:
        want = reps * (counts["msg"] + counts["wire"] + counts["val"]) + counts["req"] + 4 * reps * counts["vc"]
        got = sum(1 for r in rows if r["k"] != "fuzz")
        if got != want:
            raise vlib.MachineryError("harness produced %d of %d case observations" % (got, want))
    # 3. the monitor judges each distinct (case, outcome) once
    uniq, first = [], {}
    for i, r in enumerate(rows, 1):
        key = json.dumps({k: r[k] for k in r if k != "rep"}, sort_keys=True)
        if key not in first:
            first[key] = i
            uniq.append((i, r))
    # (three TLC instances side by side, each on a third of the log: the judgement is per line)
    from concurrent.futures import ThreadPoolExecutor
    nchunks = 3 if len(uniq) > 30000 else 1
    size = (len(uniq) + nchunks - 1) // nchunks
    chunks = []
    for n in range(nchunks):
        path = os.path.join(out, "obs_unique_%d.ndjson" % n)
        vlib.write_ndjson(path, [r for _, r in uniq[n * size:(n + 1) * size]])
        chunks.append((n * size, path))
    with ThreadPoolExecutor(max_workers=nchunks) as ex:
        results = list(ex.map(lambda ch: vlib.run_monitor("CodecMon", "CodecMon.cfg", ch[1], timeout=1500, heap_gb=4), chunks))
    fails = []
    for (off, _), (fl, mres) in zip(chunks, results):
        fails += [{"monfail": f["monfail"], "line": f["line"] + off} for f in fl]
        v.add_tlc("CodecMon[%d..]" % (off + 1), mres)
    nfz = sum(r["n"] for r in rows if r["k"] == "fuzz")
    v.cov["traces_validated_against_impl"] = len(rows)
    v.cov["evaluations"] = sum(1 for r in rows if r["k"] != "fuzz") + nfz
    v.cov["arbitrary_inputs"] = nfz
    v.cov["distinct_outcomes_judged"] = len(uniq)
    v.cov["distinct_nontrivial"] = len({json.dumps([r["k"], r.get("c")], sort_keys=True) for r in rows if r["k"] != "fuzz" and nontrivial(r)})
    v.cov["rule"] = ("complete products of the five tables enumerated by TLC (Codec!MsgCaseSet, WireCaseSet, ValCaseSet, ReqCaseSet, VcCaseSet), "
                     "every case run %d time(s) with fresh seeded values; non-trivial = framing other than raw, non-plain strings, edge/lossy/string ids, "
                     "invalid or miscased wire shapes, zero-valued / nested / nil / empty values" % reps)
    v.cov["exhaustive"] = not replay and not aborted
    by_kind = {}
    for r in rows:
        by_kind[r["k"]] = by_kind.get(r["k"], 0) + 1
    v.cov["observations_by_table"] = by_kind
    for i in range(0, len(uniq), max(1, len(uniq) // 5)):
        ln, r = uniq[i]
        v.sample({"obs": r, "in": detail.get(ln, {}).get("in", "")[:200]}, limit=5)
    nviol, drift = {}, {}
    for f in fails:
        ln, e = uniq[f["line"] - 1]
        d = detail.get(ln, {})
        if f["monfail"] == "drift":
            key = (e["k"], json.dumps(e.get("o", e), sort_keys=True)[:300])
            g = drift.setdefault(key, [0, e.get("c")])
            g[0] += 1
            continue
        for sig in sigs_of(e, f["monfail"]):
            nviol[sig] = nviol.get(sig, 0) + 1
            v.violation(sig, "real codec outcome violates %s (input %s -> %s)" % (f["monfail"], d.get("in", "")[:300], d.get("out", "")[:300]),
                        {"k": e["k"], "c": e.get("c"), "o": e.get("o", e), "in": d.get("in"), "out": d.get("out"), "inv": f["monfail"]})
    for (k, o), (n, c) in sorted(drift.items(), key=lambda kv: -kv[1][0]):
        v.drift.append("%d observation(s) of table %s differ from the code-shaped expectation of CodecDefs: outcome=%s e.g. case=%s" % (
            n, k, o, json.dumps(c, sort_keys=True)))
    v.cov["states"] = v.cov["transitions"] = ncases  # one "state" per abstract case of the decision tables
    v.cov["failing_observations_by_signature"] = dict(sorted(nviol.items(), key=lambda kv: -kv[1])[:40])
    return v.finish()
