"""C19 — wire codec and framing round trips (DESIGN.md section 6, C19; pattern P1 + framing pipeline).

TLC (spec/Codec.tla) checks the design of the decision tables of spec/CodecDefs.tla (messages, wire
shapes, content values, required members, decoder case sensitivity, frames through the read loops of the real
transports, arity of list/map members of the result types, lifetime of a decoded message when the buffer it came
from is reused, bursts through a buffer-reusing connection into a real session) and exports their complete case
products; TLC (spec/CodecWrite.tla) checks the state machine of concurrent writers over a non-atomic io.Writer
(mutual exclusion => the stream is a sequence of whole frames; without it the frames tear) and exports every
(case, plan of offers); TLC (spec/CodecSSE.tla) checks the state machine of a byte stream that breaks under a reader (writer of
SSE events / newline-delimited frames, a channel that cuts the stream at any byte and ends it with io.EOF,
io.ErrUnexpectedEOF or another read error, the specification's reader, the code-shaped reader, a witness) and exports
every (stream, cut, end), which harness/mcp/c19_break_test.go runs at every byte offset and every chunking of the Reads
on the real scanEvents, streamableClientConn.processStream and ioConn.Read; the Go harness
(harness/mcp/c19_codec_test.go) concretises every case
with seeded values, runs the real encoders / decoders / framers / sessions and records which members
survived; the TLA+ monitor spec/CodecMon.tla judges the recorded comparisons (verdict) and compares
them with the code-shaped expectation (drift).  Level: exploration (see DESIGN.md section 7).
"""
import json, os, re, shutil
import vlib

PID = "C19"
TABLES = {"msg": "cases_msg.ndjson", "wire": "cases_wire.ndjson", "val": "cases_val.ndjson",
          "req": "cases_req.ndjson", "vc": "cases_vc.ndjson", "fr": "cases_fr.ndjson", "ar": "cases_ar.ndjson",
          "lt": "cases_lt.ndjson", "lb": "cases_lb.ndjson", "ww": "cases_ww.ndjson"}
LT_FIELD = {"IdType": "id.type", "IdValue": "id.value", "Method": "method", "Params": "params", "Result": "result",
            "ErrCode": "error.code", "ErrMsg": "error.message", "ErrData": "error.data"}
FIELD = {"Method": "method", "Params": "params", "Result": "result", "ErrCode": "error.code",
         "ErrMsg": "error.message", "ErrData": "error.data"}
MISSING = {"text.text": ("TextContent", "text"), "image.data": ("ImageContent", "data"),
           "audio.data": ("AudioContent", "data"), "tool_result.content": ("ToolResultContent", "content"),
           "resource.text|blob": ("ResourceContents", "text|blob"), "resource.resource": ("EmbeddedResource", "resource")}
REQ_MEMBER = {"ListToolsResult": "tools", "ListPromptsResult": "prompts", "ListResourcesResult": "resources",
              "ListResourceTemplatesResult": "resourceTemplates", "ListRootsResult": "roots", "CallToolResult": "content",
              "GetPromptResult": "messages", "ReadResourceResult": "contents", "CompleteResult": "completion.values",
              "CreateMessageWithToolsResult": "content", "TextContent": "text", "ImageContent": "data",
              "AudioContent": "data", "ToolResultContent": "content",
              "CallToolResult+structured": "content", "CallToolResult+structuredArr": "content",
              "CallToolResult+structuredMeta": "content", "CallToolResult+isError": "content",
              "CallToolResult+structured+isError": "content"}


def sigs_of(e, inv):
    """Signatures (abstract failing case) for a monitor failure `inv` on observation `e`."""
    k, c, o = e["k"], e.get("c"), e.get("o")
    if k == "msg":
        name = inv.split(".", 1)[1]
        if name == "IdValue":
            return ["id-class=%s:altered" % c["id"]]
        if name == "IdType":
            return ["id-class=%s:type-changed" % c["id"]]
        if c["method"] == "empty" and name in ("Method", "Class"):
            return ["method-class=empty:lost"]
        if name == "Class":
            return ["decoded-as=%s:kind=%s|framing=%s|dir=%s" % (o["cls"], c["kind"], c["framing"], c["dir"])]
        if name == "Frame":
            return ["framing=%s:broken|flavor=%s|dir=%s" % (c["framing"], c["flavor"], c["dir"])]
        return ["field=%s:lost|kind=%s|payload=%s|framing=%s|dir=%s" % (FIELD[name], c["kind"], c["payload"], c["framing"], c["dir"])]
    if k == "wire":
        shape = "ver=%s,id=%s,method=%s,params=%s,result=%s,error=%s,casing=%s" % (  # valid shapes are few
            c["ver"], c["id"], c["method"], c["params"], c["result"], c["error"], c["casing"])
        if inv == "NoPanic":
            return ["panic:DecodeMessage|" + shape]
        if inv == "CaseSensitive":
            return ["case-insensitive:wire.%s" % c["casing"]]
        return ["valid-wire-not-preserved:decoded-as=%s|%s" % (o["cls"], shape)]
    if k == "val":
        ctx = "cont=%s|ckind=%s" % (c["cont"], c["ckind"])
        if inv == "ValRoundTrip":
            if not o["ok"]:
                if c["arity"] == "nil":
                    return ["roundtrip=%s:arity=nil:decode-error" % c["cont"]]
                return ["roundtrip:decode-error|" + ctx]
            return ["field=%s:lost|%s" % (f, ctx) for f in o["lost"]]
        out = []
        for m in o["missing"]:
            t, mem = MISSING.get(m, (m, "?"))
            out.append("type=%s:null-%s%s" % (t, mem, "@tool_result" if c["nested"] == "zeros" else ""))
        return out
    if k == "req":
        if inv == "Answered":
            return ["type=%s:no-answer|fill=%s" % (c["type"], c["fill"])]
        return ["type=%s:null-%s" % (c["type"], REQ_MEMBER[c["type"]])]
    if k == "vc":
        return ["case-insensitive:%s.%s" % (c["target"], c["member"])]
    if k == "fuzz":
        return ["panic:%s" % e["dec"]]
    if k == "fr":  # the frame class and the reader; layout, line end, position and version are in the replay
        return ["%s:frame=%s|path=%s" % (o["out"], c["shape"], c["path"])]
    if k == "ar":
        ctx = "%s.%s:arity=%s" % (c["type"], c["member"], c["arity"])
        if inv == "ArDecodes":
            return ["roundtrip=%s:decode-error" % ctx]
        if inv == "ArNilKept":
            return ["roundtrip=%s:decoded-%s" % (ctx, "nil" if o["isnil"] else "non-nil")]
        if inv == "ArSameLen":
            return ["roundtrip=%s:len=%d" % (ctx, o["len"])]
        if inv == "ArSameElems":
            return ["roundtrip=%s:elements-differ" % ctx]
        return ["roundtrip=%s:other-members-lost|fill=%s|rt=%s" % (ctx, c["fill"], c["rt"])]
    if k == "lt":  # Lifetime.<Member> | Lifetime.Reencode[.<Member>] | Lifetime.Class | Lifetime.Later
        ctx = "kind=%s|path=%s|reuse=%s" % (c["kind"], c["path"], c["reuse"])
        name = inv.split(".", 1)[1]
        if name == "Class":
            return ["lifetime:decoded-as=%s|%s" % (o["cls"], ctx)]
        if name == "Later":
            return ["lifetime:next-message-lost|%s" % ctx]
        if name == "Reencode":
            return ["lifetime:reencode-fails|%s" % ctx]
        if name.startswith("Reencode."):
            return ["lifetime:field=%s:lost-on-reencode|%s" % (LT_FIELD[name.split(".", 1)[1]], ctx)]
        return ["lifetime:field=%s:lost|%s" % (LT_FIELD[name], ctx)]
    if k == "lb":
        what = "not-answered" if inv == "BurstAnswered" else "call-not-executed-with-its-arguments"
        return ["lifetime:burst:%s|size=%s|hold=%s" % (what, c["size"], c["hold"])]
    if k == "ww":
        return ["framing=ndjson:concurrent-writes:frames-torn|writers=%d|mix=%s" % (c["k"], c["mix"])]
    if k == "sc":
        return [sc_sig(c, o, inv)]
    return ["?:" + inv]


SC_END = {"eof": "cleanEOF", "ueof": "unexpectedEOF", "err": "readError"}


def sc_sig(c, o, inv):
    """The abstract failing case of a stream that breaks: framing, how the stream ended, whether the cut is inside a
    frame, and what the reader did (who read, the byte offset and the chunking of the Reads are in the replay)."""
    if c["framing"] == "sse" and c["eol"] == "cr":
        return "sse-eol=cr:line-ends-not-recognised"
    n = c["nm"] if c["path"] == "stream" else c["n"]
    unit = "event" if c["framing"] == "sse" else "frame"
    where = "inside-" + unit if c["inside"] else ("complete-stream" if c["cut"] == c["len"] else "between-%ss" % unit)
    if inv == "ScNoGaps":
        kind = "%s-lost" % unit
    else:
        vals = [x for e in o["evs"] for x in (e["name"], e["id"], e["retry"], e["data"])] + \
               [{"part": "prefix", "other": "other"}.get(o["lastid"], "eq")]
        if "other" in vals or "panic" in vals:
            kind = "extra-yield" if len(o["evs"]) > n and "other" not in [x for e in o["evs"][:n] for x in e.values()] else "garbled-yield"
        else:
            kind = "truncated-yield"        # a prefix of a written frame (a field cut off or missing) was handed up
    return "%s-cut:end=%s:%s:%s" % (c["framing"], SC_END[c["end"]], where, kind)


def sc_cases(tier):
    """The state machine of a stream that breaks: design check (the specification's reader; the code-shaped reader breaks the
    property only in the lead classes), witness (a reader that takes io.ErrUnexpectedEOF for the end), exported cases."""
    cfg = "CodecSSE_quick.cfg" if tier == "quick" else "CodecSSE_thorough.cfg"
    res = vlib.run_tlc("CodecSSE", cfg, workers=2, timeout=900, heap_gb=4)
    vlib.tlc_must_pass(res, cfg)
    if not res.ok:
        raise vlib.MachineryError("CodecSSE design check failed: " + str(res.violation or res.stdout[-2000:]))
    wit = vlib.run_tlc("CodecSSE", "CodecSSE_witness.cfg", workers=1, timeout=300, heap_gb=2)
    if wit.violation != "CodeLeads":
        raise vlib.MachineryError("CodecSSE witness: a reader that takes io.ErrUnexpectedEOF for the end of the stream must violate CodeLeads, got %s %s" % (wit.violation, wit.error))
    skey = lambda c: json.dumps(c, sort_keys=True)
    streams = {skey(p["c"]): p for p in res.printed if isinstance(p, dict) and p.get("scs")}
    cases = sorted((p for p in res.printed if isinstance(p, dict) and p.get("sc")),
                   key=lambda p: (skey(p["c"]), p["cut"], p["end"]))
    if len(streams) < 20 or len(cases) < 2000 or any(skey(p["c"]) not in streams for p in cases):
        raise vlib.MachineryError("CodecSSE exported %d streams, %d cases" % (len(streams), len(cases)))
    if len({(skey(p["c"]), p["cut"], p["end"]) for p in cases}) != len(cases):
        raise vlib.MachineryError("CodecSSE exported a case twice")
    leads = {(p["c"]["eol"] == "cr", p["end"]) for p in cases if p["lead"]}
    if (False, "eof") not in leads or any(e != "eof" for cr, e in leads if not cr):   # vacuity: the known lead class is there
        raise vlib.MachineryError("CodecSSE: lead classes of the code-shaped reader are %s" % sorted(leads))
    return res, wit, streams, cases


def ww_cases(tier):
    """The state machine of concurrent writers: design check (guarded), witness (unguarded), and the exported plans."""
    cfg = "CodecWrite_quick.cfg" if tier == "quick" else "CodecWrite_thorough.cfg"
    res = vlib.run_tlc("CodecWrite", cfg, workers=2, timeout=600, heap_gb=4)
    vlib.tlc_must_pass(res, cfg)
    if not res.ok:
        raise vlib.MachineryError("CodecWrite (guarded) design check failed: " + str(res.violation or res.stdout[-2000:]))
    wit = vlib.run_tlc("CodecWrite", "CodecWrite_unguarded.cfg", workers=1, timeout=300, heap_gb=2)
    if wit.violation != "Contiguous":
        raise vlib.MachineryError("CodecWrite witness: without mutual exclusion Contiguous must be violated, got %s %s" % (wit.violation, wit.error))
    by = {}
    for p in res.printed:
        if isinstance(p, dict) and p.get("ww"):
            key = json.dumps([p["k"], p["chunks"], p["mix"], p["cut"], p["plan"]])
            by.setdefault(key, (p, []))
            if p["order"] not in by[key][1]:
                by[key][1].append(p["order"])
    cases = []
    for key in sorted(by):
        p, orders = by[key]
        cases.append({"k": p["k"], "chunks": p["chunks"], "mix": p["mix"], "cut": p["cut"], "plan": p["plan"], "orders": sorted(orders)})
    if len(cases) < 300:
        raise vlib.MachineryError("CodecWrite exported only %d plans" % len(cases))
    return res, wit, cases


def nontrivial(e):
    k, c = e["k"], e.get("c")
    if k == "msg":
        return c["framing"] != "raw" or c["flavor"] != "plain" or c["id"] not in ("absent", "zero", "small", "str-ascii")
    if k == "wire":
        return c["casing"] != "exact" or c["ver"] != "2.0" or c["id"] not in ("absent", "int", "str")
    if k == "val":
        return c["fill"] == "zero" or c["meta"] != "none" or c["nested"] not in ("na", "one") or c["arity"] in ("nil", "empty")
    if k == "req":
        return c["fill"] != "one"
    if k == "fr":
        return c["shape"] not in ("obj-msg", "obj-notif", "obj-resp") or c["pad"] != "none"
    if k == "ar":
        return c["arity"] != "one"
    if k == "sc":  # the stream is cut inside a frame, or ends otherwise than by io.EOF
        return c["inside"] or c["end"] != "eof"
    if k == "ww":  # some offer is made to a writer while another one is inside the underlying writer
        return any(w != c["plan"][0] for w in c["plan"][:1 + c["chunks"][c["plan"][0] - 1]])
    return True


def run(tier, seed, replay):
    v = vlib.Verdict(PID, tier, seed, level="exploration")
    v.assumptions = [
        "byte-level fidelity is compared in the Go harness (field-wise JSON equality with exact numbers); the TLA+ monitor judges the comparison results",
        "every abstract class is concretised with seeded representatives (VERIF_SEED); classes, not all values, are exhaustive",
        "newline-delimited framing is exercised through ioConn over io.Pipe, SSE through writeEvent/scanEvents on an in-memory ResponseWriter",
        "frames: a panic in a goroutine of the SDK (reader goroutines of jsonrpc2 / ioConn / the streamable client) ends the test binary; "
        "the crash is attributed to the frame case in flight (outcome 'crash', judged by the monitor); those paths run last so that every other observation is on disk",
        "arity: nil and empty must be kept apart only for members whose type spells nil by omission and empty by an empty container (CodecDefs!ArDistinguished); elsewhere nil and empty count as equal",
        "concurrent writers: the harness' scheduler steps the writer goroutines along the plan without sleeping; between steps it waits until every writer that has not returned "
        "is parked, which it reads from the runtime's goroutine states (runtime.Stack); the underlying io.Writer identifies a writer by its goroutine",
        "lifetime: the owner of a read buffer may reuse it as soon as the decode call has returned (bufio.Scanner semantics); bursts: the tool handlers are held by a gate until the reader has consumed the whole burst",
        "broken streams: a byte class of CodecSSE (part of a name / of a value) stands for every byte offset inside that name / value: the harness runs every offset "
        "(values longer than 24 bytes (quick) / 160 bytes (thorough): the edges, the offsets around the readers' buffer sizes and seeded ones), each with the three chunkings of the Reads; "
        "streamableClientConn.processStream is called on a connection value built by the harness (incoming / done / failed channels only); what it hands to the decoder is seen through "
        "the messages it delivers, the cursor it returns and the failure it records ('failed to decode event' = a payload that is none of the written ones)",
    ]
    out = vlib.outdir(PID)
    for f in os.listdir(out):  # replay files of earlier runs
        if f.startswith("violation-"):
            os.remove(os.path.join(out, f))
    # 1. design check + case export by TLC
    from concurrent.futures import ThreadPoolExecutor
    wd = vlib.scratch("tlc-")
    with ThreadPoolExecutor(max_workers=3) as ex:  # the three design checks side by side
        fww = ex.submit(ww_cases, tier)
        fsc = ex.submit(sc_cases, tier)
        res = vlib.run_tlc("Codec", "Codec.cfg", workdir=wd, workers=1, timeout=600, heap_gb=4)
        wres, wwit, wcases = fww.result()
        sres, swit, sstreams, scases = fsc.result()
    vlib.write_ndjson(os.path.join(wd, TABLES["ww"]), wcases)
    vlib.tlc_must_pass(res, "Codec")
    if not res.ok:
        raise vlib.MachineryError("Codec design check failed: " + (res.violation or res.stdout[-2000:]))
    counts = [p for p in res.printed if isinstance(p, dict) and "msg" in p][0]
    v.add_tlc("Codec(design: Holds(c, Expected(c)) <=> ~Lead(c) on 9 tables; Classify total; witnesses)", res)
    v.add_tlc("CodecWrite(guarded: TypeOK, Contiguous, Finishes on every plan and hand-over; plans exported)", wres)
    v.add_tlc("CodecWrite(unguarded witness: Contiguous violated)", wwit)
    v.add_tlc("CodecSSE(a stream that breaks: TypeOK, SpecHolds, SpecReports, ChunkIndependent on every cut and end; the code-shaped reader "
              "breaks the property only in its lead classes (CodeLeads); cases exported)", sres)
    v.add_tlc("CodecSSE(witness, a reader that takes io.ErrUnexpectedEOF for the end of the stream: CodeLeads violated)", swit)
    counts["ww"] = len(wcases)
    counts["sc"] = len(scases)
    ncases = sum(counts[k] for k in TABLES) + counts["sc"]
    v.cov["states"] = ncases
    v.cov["transitions"] = ncases
    v.cov["case_counts"] = {k: counts[k] for k in list(TABLES) + ["sc"]}
    v.cov["sc_streams"] = len(sstreams)
    v.cov["sc_design_leads"] = sum(1 for p in scases if p["lead"])
    v.cov["design_leads"] = {k: counts.get(k + "Leads", 0) for k in ("msg", "val", "req", "vc", "fr", "ar", "lt")}
    v.cov["lead_id_classes"] = counts["leadIds"]
    indir = os.path.join(out, "in")
    shutil.rmtree(indir, ignore_errors=True)
    os.makedirs(indir)
    for k, f in TABLES.items():
        if replay:
            rep = json.load(open(replay))["replay"]
            rows = [rep["c"]] if rep.get("k") == k else []
            vlib.write_ndjson(os.path.join(indir, f), rows)
        else:
            os.replace(os.path.join(wd, f), os.path.join(indir, f))
    skey = lambda c: json.dumps(c, sort_keys=True)
    if replay:
        rep = json.load(open(replay))["replay"]
        sc_in = []
        if rep.get("k") == "sc":
            c = rep["c"]
            base = {f: c[f] for f in ("framing", "shapes", "eol", "colon", "comment")}
            sc_in = [sstreams[skey(base)], dict({f: c[f] for f in ("cut", "len", "end", "n", "k", "nm", "km", "inside", "exp")}, sc=True, c=base, lead=False)]
    else:
        sc_in = list(sstreams.values()) + scases
    vlib.write_ndjson(os.path.join(indir, "cases_sc.ndjson"), sc_in)
    # 2. the real code
    obs = os.path.join(out, "obs.ndjson")
    for stale in (obs, obs + ".inflight", obs + ".aborted", obs + ".detail", obs + ".sc", obs + ".sc.detail"):
        if os.path.exists(stale):
            os.remove(stale)
    reps = 1 if tier == "quick" else 5
    nfuzz = 0 if replay and json.load(open(replay))["replay"].get("k") != "fuzz" else (20000 if tier == "quick" else 400000)
    rc, gout, wall = vlib.go_test("mcp", "^TestVerif_C19(Break)?$", ["mcp/c19_break_test.go", "mcp/c19_codec_test.go"], timeout=1500,
                                  env={"VERIF_IN": indir, "VERIF_OUT": obs, "VERIF_SEED": seed, "VERIF_REPS": reps,
                                       "VERIF_FUZZ": nfuzz, "VERIF_TIER": tier, "VERIF_WORKERS": 4})
    vlib.go_must_build(rc, gout, PID)
    v.cov["go_wall_s"] = round(wall, 1)
    crashed = None
    if rc != 0:
        m = re.search(r"^(panic: .*|fatal error: .*)$", gout, re.M)
        if not m or "test timed out" in m.group(1):
            raise vlib.MachineryError("C19 harness failed:\n" + gout[-3000:])
        # The process died of a panic / fatal error.  In the harness's own goroutines SDK code runs under recover,
        # so this is a goroutine of the SDK: real-code behaviour.  The frame case in flight (if any) gets the
        # outcome "crash" and goes to the monitor with everything that was observed before.
        stack = gout[m.start():]
        blk = re.search(r"goroutine \d+ \[running\]:\n((?:.+\n)+)", stack)
        funcs = [l for l in (blk.group(1).splitlines() if blk else []) if not l.startswith("\t")
                 and not l.startswith(("panic(", "runtime.", "testing.", "created by"))]
        if funcs and re.search(r"/mcp\.(c19\w*|TestVerif_C19)[.(\[]", funcs[0]):
            raise vlib.MachineryError("the C19 harness itself panicked:\n" + stack[:3000])
        crashed = {"msg": m.group(1)[:300], "stack": stack[:2500]}
    rows = []
    for ln in open(obs, errors="replace") if os.path.exists(obs) else []:
        ln = ln.strip()
        if ln:
            try:
                rows.append(json.loads(ln))
            except ValueError:
                break  # truncated last line after a crash
    detail = {}
    if os.path.exists(obs + ".detail"):
        for ln in open(obs + ".detail", errors="replace"):
            try:
                d = json.loads(ln)
                detail[d["line"]] = d
            except ValueError:
                break
    if crashed:
        if os.path.exists(obs + ".inflight"):
            row = json.load(open(obs + ".inflight"))
            frame = row.pop("frame", "")
            rows.append(row)
            detail[len(rows)] = {"line": len(rows), "in": "frame in flight " + frame,
                                 "out": crashed["msg"] + " | " + " ".join(crashed["stack"].split())[:1200]}
            v.assumptions.append("the test binary died (%s) while a frame case was in flight; cases after it were not run" % crashed["msg"])
        else:
            v.violation("panic:process", "the test binary crashed outside the frame table (panic / fatal error in a goroutine of the SDK): " + crashed["msg"],
                        {"k": "crash", "output": crashed["stack"]})
    aborted = None
    if os.path.exists(obs + ".aborted"):
        aborted = open(obs + ".aborted").read().strip()
        v.assumptions.append("run cut short: " + aborted)
    if not replay and not aborted and not crashed:
        want = (reps * (counts["msg"] + counts["wire"] + counts["val"] + counts["fr"] + counts["lt"] + counts["lb"]) + counts["req"]
                + 4 * reps * (counts["vc"] + counts["ar"]) + counts["ww"])
        got = sum(1 for r in rows if r["k"] != "fuzz")
        if got != want:
            raise vlib.MachineryError("harness produced %d of %d case observations" % (got, want))
    # the streams that break (written first, by TestVerif_C19Break)
    sc_rows = vlib.read_ndjson(obs + ".sc") if os.path.exists(obs + ".sc") else None
    if sc_rows is None and not crashed:
        raise vlib.MachineryError("the C19 harness did not write " + obs + ".sc")
    if sc_rows is not None:
        if not replay:
            want_sc = sum(2 if p["c"]["framing"] == "sse" else 1 for p in scases)
            seen_sc = {(skey({f: r["c"][f] for f in ("framing", "shapes", "eol", "colon", "comment")}), r["c"]["cut"], r["c"]["end"], r["c"]["path"]) for r in sc_rows}
            if len(seen_sc) != want_sc:
                raise vlib.MachineryError("harness ran %d of %d (case, reader) pairs of the broken streams" % (len(seen_sc), want_sc))
        if os.path.exists(obs + ".sc.detail"):
            for d in vlib.read_ndjson(obs + ".sc.detail"):
                detail[len(rows) + d["line"]] = {"line": len(rows) + d["line"], "in": d["in"], "out": d["out"]}
        rows += sc_rows
        v.cov["sc_concrete_runs"] = sum(r["cnt"] for r in sc_rows)
    # 3. the monitor judges each distinct (case, outcome) once
    uniq, first = [], {}
    for i, r in enumerate(rows, 1):
        key = json.dumps({k: r[k] for k in r if k not in ("rep", "cnt")}, sort_keys=True)
        if key not in first:
            first[key] = i
            uniq.append((i, r))
    # (three TLC instances side by side, each on a third of the log: the judgement is per line)
    nchunks = 1 if len(uniq) <= 30000 else 3 if len(uniq) <= 120000 else 4
    size = (len(uniq) + nchunks - 1) // nchunks
    chunks = []
    for n in range(nchunks):
        path = os.path.join(out, "obs_unique_%d.ndjson" % n)
        vlib.write_ndjson(path, [r for _, r in uniq[n * size:(n + 1) * size]])
        chunks.append((n * size, path))
    with ThreadPoolExecutor(max_workers=nchunks) as ex:
        results = list(ex.map(lambda ch: vlib.run_monitor("CodecMon", "CodecMon.cfg", ch[1], timeout=1500, heap_gb=4), chunks))
    fails = []
    for (off, _), (fl, mres) in zip(chunks, results):
        fails += [{"monfail": f["monfail"], "line": f["line"] + off} for f in fl]
        v.add_tlc("CodecMon[%d..]" % (off + 1), mres)
    nfz = sum(r["n"] for r in rows if r["k"] == "fuzz")
    v.cov["traces_validated_against_impl"] = len(rows)
    v.cov["evaluations"] = sum(1 for r in rows if r["k"] != "fuzz") + nfz
    v.cov["arbitrary_inputs"] = nfz
    v.cov["distinct_outcomes_judged"] = len(uniq)
    v.cov["distinct_nontrivial"] = len({json.dumps([r["k"], r.get("c")], sort_keys=True) for r in rows if r["k"] != "fuzz" and nontrivial(r)})
    v.cov["rule"] = ("complete products of the tables enumerated by TLC (Codec!MsgCaseSet, WireCaseSet, ValCaseSet, ReqCaseSet, VcCaseSet, FrCaseSet, ArCaseSet, "
                     "LtCaseSet, LbCaseSet), every (case, plan) of the terminal states of CodecWrite (writers x pieces per frame x interleaving of calls and pieces) "
                     "and every (stream, cut, end) of the terminal states of CodecSSE (event shapes x line ends x layouts x cut after every byte class x end of the stream), run at "
                     "every byte offset of the class, with three chunkings of the Reads, on scanEvents and processStream (SSE) / ioConn.Read (newline-delimited), "
                     "every case run %d time(s) with fresh seeded values (plans once); non-trivial = framing other than raw, non-plain strings, edge/lossy/string ids, "
                     "invalid or miscased wire shapes, zero-valued / nested / nil / empty values, frames other than a plain single message, nil / empty members, "
                     "every lifetime and burst case, plans that offer a step to a second writer while the first is inside the underlying writer, streams cut inside a frame or ended otherwise than by io.EOF" % reps)
    v.cov["exhaustive"] = not replay and not aborted and not crashed
    by_kind = {}
    for r in rows:
        by_kind[r["k"]] = by_kind.get(r["k"], 0) + 1
    v.cov["observations_by_table"] = by_kind
    for i in range(0, len(uniq), max(1, len(uniq) // 5)):
        ln, r = uniq[i]
        v.sample({"obs": r, "in": detail.get(ln, {}).get("in", "")[:200]}, limit=5)
    nviol, drift = {}, {}
    # (a stream with bare CRs: the whole stream, cleanly ended, is the example to show)
    def later(f):
        e = uniq[f["line"] - 1][1]
        return e["k"] == "sc" and e["c"]["eol"] == "cr" and not (e["c"]["cut"] == e["c"]["len"] and e["c"]["end"] == "eof")
    fails.sort(key=later)
    for f in fails:
        ln, e = uniq[f["line"] - 1]
        d = detail.get(ln, {})
        if f["monfail"] == "drift":
            key = (e["k"], json.dumps(e.get("o", e), sort_keys=True)[:300])
            g = drift.setdefault(key, [0, e.get("c")])
            g[0] += 1
            continue
        for sig in sigs_of(e, f["monfail"]):
            nviol[sig] = nviol.get(sig, 0) + 1
            if e["k"] == "fuzz":
                d = {"in": "%s inputs into %s, first panic" % (e["gen"], e["dec"]), "out": e.get("sample", "")}
            v.violation(sig, "real codec outcome violates %s (input %s -> %s)" % (f["monfail"], d.get("in", "")[:300], d.get("out", "")[:300]),
                        {"k": e["k"], "c": e.get("c"), "o": e.get("o", e), "in": d.get("in"), "out": d.get("out"), "inv": f["monfail"]})
    for (k, o), (n, c) in sorted(drift.items(), key=lambda kv: -kv[1][0]):
        v.drift.append("%d observation(s) of table %s differ from the code-shaped expectation of %s: outcome=%s e.g. case=%s" % (
            n, k, "CodecSSEDefs (reader \"code\")" if k == "sc" else "CodecDefs", o, json.dumps(c, sort_keys=True)))
    v.cov["states"] = v.cov["transitions"] = ncases  # one "state" per abstract case of the decision tables
    v.cov["failing_observations_by_signature"] = dict(sorted(nviol.items(), key=lambda kv: -kv[1])[:40])
    return v.finish()
