"""C13 — keep-alive closes dead sessions after the configured misses, never live ones
(DESIGN.md section 6, C13; patterns P2 + P4).

  1. TLC checks the design (spec/KeepAlive.tla: ticker loop + clock + peer outcome script) exhaustively:
     Accuracy / Completeness / Timing / SilentStop / NoLeftovers for every outcome script up to length 6,
     every threshold, both ways the owner may close the session; reachability witnesses guard against vacuity.
  2. TLC exports every case (script, threshold, closing mode) with the code-shaped expectation.
  3. harness/mcp/c13_keepalive_test.go runs the cases on the real code under testing/synctest at three levels
     (startKeepalive with a scripted pinger; real ServerSession; real legacy-protocol ClientSession over a scripted
     Connection) and records what the peer and the owner observe.
  4. The TLA+ monitor spec/KeepAliveMon.tla (TLC over obs.ndjson) gives the verdict with the same predicates;
     equality with the exported expectation is only "drift".
"""
import json, os, random, threading
import vlib

PID = "C13"
WITNESSES = ("NeverClosed", "NeverStopped", "NeverTolerated", "NeverReset", "NeverLateClose", "NeverDrained")
LEVELS = ("func", "server", "client")
TLC_WORKERS = 4


def consumed(c):
    """The part of the script the keep-alive loop can consume, plus what makes two cases the same run."""
    n = min(c["nping"], len(c["pattern"]))
    pre = "".join(c["pattern"][:n])
    if c["closeAt"] >= 0:
        return (pre, c["T"], "-", 0)
    # open runs differ by when the owner closes (script length) and how
    return (pre, c["T"], c["end"] + str(c["drain"]), len(c["pattern"]))


def got_of(e):
    if e["closed"] >= 0:
        n = sum(1 for p in e["pings"] if p["at"] <= e["closed"])
        return "closed@%d" % n
    return "open"


def sig_of(inv, e):
    n = len(e["pings"])
    pre = "".join(p["o"] for p in e["pings"]) or "-"
    s = "%s:%s:pattern=%s:T=%d:%s" % (inv, e["level"], pre, e["T"], got_of(e))
    if e["closed"] < 0:
        s += ":end=" + e["end"] + (str(e["drain"]) if e["end"] == "drain" else "")
    if inv == "NoLeftovers":
        s += ":left=%d:exit=%s" % (e["left"], "clean" if e["exit"] == "clean" else "stuck")
    return s


def run(tier, seed, replay):
    v = vlib.Verdict(PID, tier, seed)
    v.assumptions = [
        "time is virtual (testing/synctest); all instants are exact, in microseconds since the scenario start",
        "a ping counts as answered when the reply arrives within interval/2 (the anchored ping timeout)",
        "connection error = one message rejected by the transport (jsonrpc2.ErrRejected, as the streamable transports "
        "report a failed delivery) or an error reply other than method-not-found; a fatal write error ends the "
        "connection on its own and is outside this property",
        "client-side keep-alive exists only on legacy-protocol sessions: client scenarios pin 2024-11-05 .. 2025-11-25",
        "'no timer left behind' is observed as: no ping, no goroutine and a clean bubble exit during 24 virtual hours; "
        "an unreferenced, never-firing-into-anything ticker cannot be observed from Go",
        "ping attempts are observed with a sending middleware (session levels), so pings refused locally by a closing connection count",
        "owner-Close-during-drain: the peer's request (tools/call on servers, sampling/createMessage on clients) runs a handler that "
        "ignores its context and is released 1 or 2 intervals after Close began",
        "TLC exhaustive results are for scripts of length <= 6 and the stated thresholds",
    ]
    out = vlib.outdir(PID)

    # 1. design check (thorough: more thresholds and answer delays; quick: done by the generation run below,
    #    which checks the same invariants and properties on the configuration it exports)
    if tier == "thorough" and not replay:
        cfg = "KeepAlive_mc_thorough.cfg"
        res = vlib.run_tlc("KeepAliveMC", cfg, workers=TLC_WORKERS, timeout=900, heap_gb=4)
        vlib.tlc_must_pass(res, cfg)
        v.add_tlc(cfg, res)
        if not res.ok:
            raise vlib.MachineryError("the KeepAlive model violates %s: design check failed" % res.violation)

    # 1b. vacuity witnesses: each must be violated
    if not replay:
        base = open(os.path.join(vlib.SPEC, "KeepAlive_wit.cfg")).read()
        wres = {}

        def wit(w):
            wd = vlib.scratch("tlc-")
            wres[w] = vlib.run_tlc("KeepAliveMC", "wit.cfg", workdir=wd, extra_files={"wit.cfg": base + "INVARIANT %s\n" % w},
                                   workers=1, timeout=300, heap_gb=1)
        ths = [threading.Thread(target=wit, args=(w,)) for w in WITNESSES]
        [t.start() for t in ths]
        [t.join() for t in ths]
        for w in WITNESSES:
            if wres[w].violation != w:
                raise vlib.MachineryError("vacuity: witness %s not reachable (%s)" % (w, wres[w].error or wres[w].violation))

    # 2. cases
    gres = vlib.run_tlc("KeepAliveMC", "KeepAlive_gen.cfg", workers=TLC_WORKERS, timeout=900, heap_gb=4)
    vlib.tlc_must_pass(gres, "KeepAlive_gen.cfg")
    v.add_tlc("KeepAlive_gen.cfg (design check + case export)", gres)
    if not gres.ok:
        raise vlib.MachineryError("the KeepAlive model violates %s: design check failed" % gres.violation)
    cases = [p for p in gres.printed if isinstance(p, dict) and "pattern" in p and "closeAt" in p]
    cases.sort(key=lambda c: (len(c["pattern"]), c["pattern"], c["T"], c["end"], c["drain"]))
    for i, c in enumerate(cases):
        c["id"] = i
    ncases = len(cases)
    if ncases < 1000:
        raise vlib.MachineryError("TLC exported only %d cases" % ncases)
    v.cov["cases_exported"] = ncases

    # 3. which levels run which cases
    rng = random.Random(seed)
    seeds = [seed]
    if replay:
        rep = json.load(open(replay))["replay"]
        want = rep["case"]
        match = [c for c in cases if c["pattern"] == want["pattern"] and c["T"] == want["T"] and c["end"] == want["end"]
                 and c["drain"] == want.get("drain", 0)]
        if not match:
            raise vlib.MachineryError("replay case not in the exported case set")
        match[0]["levels"] = [rep["level"]]
        run_cases = [match[0]]
        seeds = [rep["seed"]]
    else:
        seen = set()
        extra = 2000 if tier == "quick" else ncases
        pick = set(rng.sample(range(ncases), min(extra, ncases)))
        for c in cases:
            key = consumed(c)
            first = key not in seen
            seen.add(key)
            c["levels"] = list(LEVELS) if (first or c["id"] in pick or tier == "thorough") else ["func"]
            if c["end"] == "drain":
                # a Close that waits for a request handler only exists on real sessions
                c["levels"] = [l for l in c["levels"] if l != "func"]
        run_cases = [c for c in cases if c["levels"]]
        v.cov["distinct_runs"] = len(seen)
        if tier == "thorough":
            seeds = [seed, seed + 1000, seed + 2000]
    cases_path = os.path.join(out, "cases.ndjson")
    vlib.write_ndjson(cases_path, run_cases)
    expected = sum(len(c["levels"]) for c in run_cases)

    # 4. real code
    obs_path = os.path.join(out, "obs.ndjson")
    rows = []
    with open(obs_path, "w") as allobs:
        for sd in seeds:
            part = os.path.join(out, "obs-%d.ndjson" % sd)
            rc, gout, wall = vlib.go_test("mcp", "^TestVerif_C13$", ["mcp/c13_keepalive_test.go"],
                                          env={"VERIF_IN": cases_path, "VERIF_OUT": part, "VERIF_SEED": sd}, timeout=1500)
            vlib.go_must_build(rc, gout, PID)
            if rc != 0:
                if "panic:" in gout or "fatal error:" in gout:
                    v.violation("panic", "the SDK panicked while a keep-alive scenario was running",
                                {"output": gout[-4000:], "seed": sd})
                    return v.finish()
                raise vlib.MachineryError("C13 harness failed:\n" + gout[-3000:])
            part_rows = vlib.read_ndjson(part)
            if len(part_rows) != expected:
                raise vlib.MachineryError("harness ran %d of %d scenarios" % (len(part_rows), expected))
            bad = [r for r in part_rows if r["exit"].startswith("harness:") or r["exit"].startswith("connect:")]
            if bad:
                raise vlib.MachineryError("scenario could not be set up (%d): %s %s" % (len(bad), bad[0]["exit"], json.dumps(bad[0])[:400]))
            for r in part_rows:
                r["seed"] = sd
                allobs.write(json.dumps(r, separators=(",", ":")) + "\n")
            rows += part_rows
            os.remove(part)

    # 5. monitor: the verdict
    fails, mres = vlib.run_monitor("KeepAliveMon", "KeepAliveMon.cfg", obs_path, timeout=1200, heap_gb=6)
    v.add_tlc("KeepAliveMon", mres)
    v.cov["traces_validated_against_impl"] = len(rows)
    v.cov["evaluations"] = len(rows)
    by_level = {}
    distinct = set()
    for r in rows:
        by_level[r["level"]] = by_level.get(r["level"], 0) + 1
        if r["pings"]:
            distinct.add((r["level"], "".join(p["o"] for p in r["pings"]), r["T"], (r["end"] + str(r["drain"])) if r["closed"] < 0 else "-",
                          len(r["pattern"]) if r["closed"] < 0 else 0))
    v.cov["scenarios_by_level"] = by_level
    v.cov["distinct_nontrivial"] = len(distinct)
    v.cov["closed_by_keepalive"] = sum(1 for r in rows if r["closed"] >= 0)
    v.cov["stopped_on_method_not_found"] = sum(1 for r in rows if any(p["o"] == "m" for p in r["pings"]))
    v.cov["owner_closed_with_ping_in_flight"] = sum(1 for r in rows if any(p["o"] == "u" for p in r["pings"]))
    v.cov["owner_closed_while_handler_running"] = sum(1 for r in rows if r["released"] >= 0)
    v.cov["rule"] = ("cases = every terminal behaviour of KeepAlive.tla (all outcome scripts over {a,t,m,c} of length <= 6 x thresholds "
                     "{0,1,2,3} x owner closes idle / with a ping in flight / while a request handler keeps Close waiting for 1 or 2 intervals (session levels only)), each run at the function level; session levels (server, client) run every "
                     "distinct run (consumed script prefix, threshold, closing mode) plus a seeded sample (quick) or every case (thorough, "
                     "3 concretisation seeds); distinct = (level, outcomes actually consumed, threshold, closing mode); non-trivial = at least one ping")
    v.cov["exhaustive"] = not replay
    for r in rows[:: max(1, len(rows) // 5)][:5]:
        v.sample({k: r[k] for k in ("level", "pattern", "T", "end", "drain", "I", "pings", "attempts", "closed", "userClose", "kaEarly", "kaAlive", "left", "exit")})
    vio = []
    for f in fails:
        e = rows[f["line"] - 1]
        if f["monfail"] == "drift":
            v.drift.append("%s pattern=%s T=%d end=%s I=%dus: observed pings/closing differ from KeepAlive.tla (%s, pings at %s, exp %s)" % (
                e["level"], "".join(e["pattern"]) or "-", e["T"], e["end"], e["I"], got_of(e), [p["at"] for p in e["pings"]], e["exp"]))
        else:
            vio.append((len(e["pings"]), sig_of(f["monfail"], e), f["monfail"], e))
    vio.sort(key=lambda x: (x[0], x[1]))
    v.cov["monitor_failures"] = len(vio)
    seen_sig = set()
    for _, sig, inv, e in vio:
        if sig in seen_sig:
            continue
        seen_sig.add(sig)
        if len(seen_sig) > 12 and sig not in v.known:
            continue
        case = {"pattern": e["pattern"], "T": e["T"], "end": e["end"], "drain": e["drain"]}
        v.violation(sig, "real keep-alive run violates %s: level=%s script=%s threshold=%d interval=%dus: %s, pings %s, owner close %s, left=%d exit=%s" % (
            inv, e["level"], "".join(e["pattern"]) or "-", e["T"], e["I"], got_of(e),
            [(p["at"], p["o"]) for p in e["pings"]], "%s (ping attempts %s, keep-alive loops alive after Close began %d / settled %d)" % (
                e["userClose"], e["attempts"], e["kaEarly"], e["kaAlive"]), e["left"], e["exit"][:80]),
            {"case": case, "level": e["level"], "seed": e["seed"], "observation": e})
    return v.finish()
