"""C13 — keep-alive closes dead sessions after the configured misses, never live ones
(DESIGN.md section 6, C13; patterns P2 + P4).

  1. TLC checks the design (spec/KeepAlive.tla: ticker loop + clock + peer outcome script) exhaustively:
     Accuracy / Completeness / Timing / SilentStop / NoLeftovers for every outcome script up to length 6,
     every threshold, every way the owner may close the session and (scripts up to length 4) every instant at
     which the peer completes the handshake (keep-alive starts at Connect, before it) and every fate of the
     context given to Connect (kept / cancelled after tick k); pings that the session's own transport holds past
     their deadline or past one / two ticks (the ticker keeps one tick and drops the rest: the loop catches up off
     the ticker's phase) and the ways the pinging side's session is established (legacy initialize / initialize after
     a rejected server/discover / a protocol version without ping); reachability witnesses guard against vacuity.
  2. TLC exports every case (script, threshold, closing mode, handshake slot, Connect-context slot) with the
     code-shaped expectation.
  3. harness/mcp/c13_keepalive_test.go runs the cases on the real code under testing/synctest at three levels
     (startKeepalive with a scripted pinger; real ServerSession; real legacy-protocol ClientSession over a scripted
     Connection) and records what the peer and the owner observe.
  4. The TLA+ monitor spec/KeepAliveMon.tla (TLC over obs.ndjson) gives the verdict with the same predicates;
     equality with the exported expectation is only "drift".
  5. Transport dimension (KeepAlive.tla Part 1b + spec/KeepAliveTr.tla): for each transport (stream connection,
     streamable HTTP client, streamable HTTP server pinging its client, legacy SSE client) the table of the concrete
     ways a ping can fail and what the property makes of each (a miss of a possibly-live peer, tolerated up to the
     threshold / the connection is dead or the session terminated, the session may end at once).  TLC enumerates the
     scripts of classes (<= threshold + 1 pings, thresholds 1..3), runs the same ticker loop on their verdicts and
     exports the cases; harness/mcp/c13_transport_test.go plays them on a real ClientSession over the real
     StreamableClientTransport / SSEClientTransport (scripted RoundTripper), on a real Server behind
     StreamableHTTPHandler.ServeHTTP and on the stream levels; the same monitor judges, taking each ping's verdict
     from the model's table.
"""
import json, os, random, re, time
import vlib

PID = "C13"
WITNESSES = ("NeverClosed", "NeverStopped", "NeverTolerated", "NeverReset", "NeverLateClose", "NeverDrained",
             "NeverPingBeforeHandshake", "NeverClosedBeforeHandshake", "NeverAnsweredBeforeHandshake",
             "NeverPingAfterCtxCancel", "NeverClosedAfterCtxCancel",
             "NeverCatchUp", "NeverDroppedTick", "NeverRecoveredAfterHold", "NeverToleratedHold", "NeverClosedByHold",
             "NeverClosedAfterFallback", "NeverModern", "NeverLeftWithTickWaiting")
LEVELS = ("func", "server", "client")
TR_LEVELS = {"mem": ["client", "server"], "httpc": ["httpc"], "https": ["https"], "sse": ["sse"]}
HARNESS_FILES = ["mcp/c13_keepalive_test.go", "mcp/c13_transport_test.go"]
TLC_WORKERS = 4
TR_QUICK_SAMPLE = 300
TR_THOROUGH_RESAMPLE = 4000


def consumed(c):
    """The part of the script the keep-alive loop can consume, plus what makes two cases the same run."""
    n = min(c["nping"], len(c["pattern"]))
    pre = "".join(c["pattern"][:n])
    env = (c["hs"], c["cc"], c["est"])
    if c["closeAt"] >= 0:
        return (pre, c["T"], "-", 0, env)
    # open runs differ by when the owner closes (script length) and how
    return (pre, c["T"], c["end"] + str(c["drain"]), len(c["pattern"]), env)


def levels_of(c):
    """Where a case can be run is the model's statement (KeepAlive.tla, SidesOf): the handshake slot is the peer's
    doing on the side that waits for initialize (a ServerSession); the way of establishing the session is the
    doing of the side that chooses it (a ClientSession); the context given to Connect and a Close that waits for
    a request handler only exist on real sessions."""
    return tuple(l for l in LEVELS if l in c["sides"])


def env_of(e):
    if e.get("tr"):
        return ""
    return (("" if e["hs"] == 0 else ":hs=%d" % e["hs"]) + ("" if e["cc"] < 0 else ":cc=%d" % e["cc"])
            + ("" if e["est"] == "init" else ":est=" + e["est"]))


def got_of(e):
    if e["closed"] >= 0:
        n = sum(1 for p in e["pings"] if p["at"] <= e["closed"])
        return "closed@%d" % n
    return "open"


LATE_TICK_SIG = "SilentStop:ping-attempted-after-owner-close:tick-waiting-behind-held-ping"


def late_tick(e):
    """The one shape with a signature of its own (it does not depend on the rest of the script, the threshold or the
    level): the owner closed the session while the transport held a ping and a tick was waiting; when the transport
    let go the loop served that tick - exactly one ping attempt after the owner's Close, at the instant the held
    ping returned, which a real session refuses locally (the scripted session of the function level has no
    connection to refuse it: there it shows as one unanswered ping at that instant) - and then left."""
    if e["end"] != "held" or e["userClose"] < 0:
        return False
    pings = [p for p in e["pings"] if p["at"] <= e["userClose"]]
    after = [p for p in e["pings"] if p["at"] > e["userClose"]]
    if not pings or pings[-1]["o"] != "l":
        return False
    ret = pings[-1]["at"] + pings[-1]["h"]
    late = [t for t in e["attempts"] if t > e["userClose"]]
    return (pings[-1]["at"] <= e["userClose"] < ret and late == [ret] and len(e["attempts"]) == len(pings) + 1
            and (not after if e["level"] != "func" else [(p["at"], p["o"]) for p in after] == [(ret, "u")])
            and e["kaAlive"] == 0 and e["left"] == 0 and e["exit"] == "clean")


def sig_of(inv, e):
    if inv == "SilentStop" and late_tick(e):
        return LATE_TICK_SIG
    if e.get("tr"):
        # transport dimension: the classes the scripted peer played, at the level they were played at
        lvl = e["level"] if e["level"] == e["tr"] else e["tr"] + "-" + e["level"]
        pre = ",".join(p["cls"] for p in e["pings"]) or "-"
        if len(e["attempts"]) > len(e["pings"]) and inv in ("SilentStop", "Completeness"):
            pre += "+%dx" % (len(e["attempts"]) - len(e["pings"]))   # attempts that never reached the peer
        s = "%s:%s:classes=%s:T=%d:%s" % (inv, lvl, pre, e["T"], got_of(e))
        if inv == "NoLeftovers":
            s += ":left=%d:exit=%s" % (e["left"], "clean" if e["exit"] == "clean" else "stuck")
        return s
    n = len(e["pings"])
    pre = "".join(p["k"] if p["o"] == "l" else p["o"] for p in e["pings"]) or "-"
    if len(e["attempts"]) > len(e["pings"]):
        pre += "+%dx" % (len(e["attempts"]) - len(e["pings"]))   # attempts that never reached the peer
    s = "%s:%s:pattern=%s:T=%d:%s" % (inv, e["level"], pre, e["T"], got_of(e))
    if e["closed"] < 0:
        s += ":end=" + e["end"] + (str(e["drain"]) if e["end"] == "drain" else "")
    s += env_of(e)
    if inv == "NoLeftovers":
        s += ":left=%d:exit=%s" % (e["left"], "clean" if e["exit"] == "clean" else "stuck")
    return s


def reap(part):
    """Kill (by PID) the test binaries of THIS run that outlived their `go test`: they are the processes whose
    environment names our private observation file."""
    import signal
    mark = ("VERIF_OUT=" + part).encode()
    killed = []
    for pid in os.listdir("/proc"):
        if not pid.isdigit() or int(pid) == os.getpid():
            continue
        try:
            with open("/proc/%s/environ" % pid, "rb") as fh:
                if mark not in fh.read().split(b"\0"):
                    continue
            os.kill(int(pid), signal.SIGKILL)
            killed.append(int(pid))
        except (OSError, IOError):
            pass
    return killed


def run_harness(out, cases_path, part, sd, tier):
    """One seed of the harness. A test process that gets stuck (watchdog, or the go test timeout when even the
    watchdog cannot run) is an infrastructure fault, not an observation: its output is kept, leftovers are killed,
    and the process is started again. Returns (rc, output)."""
    stuck = []
    for attempt in (1, 2, 3):
        rc, gout, wall = vlib.go_test("mcp", "^TestVerif_C13$", HARNESS_FILES,
                                      env={"VERIF_IN": cases_path, "VERIF_OUT": part, "VERIF_SEED": sd},
                                      timeout=180 if tier == "quick" else 900)
        wd = [l for l in gout.splitlines() if l.startswith("C13-WATCHDOG")]
        if not wd and rc != 124 and "Test killed" not in gout:
            return rc, gout, stuck
        reap(part)
        if os.path.exists(part):
            os.remove(part)
        log = os.path.join(out, "stuck-seed%d-attempt%d.log" % (sd, attempt))
        with open(log, "w") as fh:
            fh.write(gout)
        stuck.append((wd[0] if wd else "go test timed out after %.0f s (watchdog silent)" % wall) + " [" + log + "]")
        print("C13: harness process got stuck (attempt %d): %s" % (attempt, stuck[-1]), flush=True)
    raise vlib.MachineryError("the harness got stuck in every attempt (no verdict):\n  " + "\n  ".join(stuck))


def run(tier, seed, replay):
    v = vlib.Verdict(PID, tier, seed)
    v.assumptions = [
        "time is virtual (testing/synctest); all instants are exact, in microseconds since the scenario start",
        "a ping counts as answered when the reply arrives within interval/2 (the anchored ping timeout)",
        "connection error = one message rejected by the transport (jsonrpc2.ErrRejected, as the streamable transports "
        "report a failed delivery) or an error reply other than method-not-found; a fatal write error ends the "
        "connection on its own: no miss of the peer's but the end of the session (class 'broken' of the transport dimension)",
        "client-side keep-alive exists only on legacy-protocol sessions: client scenarios pin 2024-11-05 .. 2025-11-25",
        "a goroutine count that differs from the expected one is never taken for a leftover: the goroutine dump of the bubble decides "
        "(the count is the process's and moves with goroutines outside the bubble); the dumps of one test process are limited to 1 GiB in "
        "total, which only an implementation leaking thousands of goroutines reaches - censuses after that are marked and a run that has "
        "them and found nothing ends with exit 2",
        "'no timer left behind' is observed as: no ping, no goroutine and a clean bubble exit during 24 virtual hours; "
        "an unreferenced, never-firing-into-anything ticker cannot be observed from Go",
        "ping attempts are observed with a sending middleware (session levels), so pings refused locally by a closing connection count",
        "late handshake (server sessions): the peer's initialize arrives 3/8 of an interval after tick j (or never); what it does "
        "with the pings it receives before that is the script's business; Connect context (server and client sessions): cancelled 7/8 "
        "of an interval after tick k or kept until the scenario is over; combined with scripts of length <= 4",
        "every wait of the harness ends at an instant fixed by the script; a real-time watchdog outside the bubbles shortens the quiet "
        "period of a scenario after 3 s; a scenario that does not return within 12 s of real time ends the test process (SIGQUIT dump "
        "kept in out/C13); the process is then started again (3 attempts; go1.25.0's synctest occasionally leaves a bubble spinning "
        "inside the runtime, independently of the code under test) and the run ends with exit 2, naming the scenario, if every attempt got stuck",
        "owner-Close-during-drain: the peer's request (tools/call on servers, sampling/createMessage on clients) runs a handler that "
        "ignores its context and is released 1 or 2 intervals after Close began",
        "held pings: the session's own transport holds the write of a ping for 9/16 of an interval (past the ping's deadline), "
        "1 + 1/16 or 2 + 1/16 intervals (past one / two ticks) whatever the ping's context says, then lets it out and the peer "
        "answers at once; such a ping is a miss (no answer within interval/2 of the session sending it) and is recorded at the "
        "instant the session handed it to the transport; a ping handed over with a context that has already ended is refused by "
        "the transport (as ioConn.Write does) and is an attempt, not a ping the peer missed; at most one held ping per script, "
        "scripts of length <= 4; a ping held past a tick is followed by the ping the loop sends for the tick that was waiting, or (held "
        "past two ticks, the script's last) the owner closes the session a quarter of an interval after the first of them; the time bound of the property is extended by the time a ping was held beyond what "
        "it is allotted (an interval when another follows, a ping timeout when it is the last)",
        "how a ClientSession is established: legacy version asked for / latest version (by default or spelled out) with the peer "
        "rejecting server/discover in six ways (method-not-found, unsupported-version with and without a supported list, a result "
        "listing legacy versions only, internal error, unsupported-then-method-not-found) and then accepting initialize / "
        "server/discover accepted; 'keep-alive is in force' is judged on the version the real session reports afterwards "
        "(ping exists below 2026-07-28, ClientOptions.KeepAlive documents the same); scripts of length <= 3; server sessions are "
        "established by the peer's initialize only (a ServerSession whose peer uses server/discover is not exercised)",
        "transport dimension: what each concrete way of failing a ping is for the property (a miss, tolerated below the threshold / "
        "connection dead or session terminated, the session may end at once) is stated by KeepAlive.tla Part 1b from the property text "
        "(answered / timed out / method-not-found / connection error are its outcome classes) and from what the SDK documents "
        "(isTransientHTTPStatus: 429 500 502 503 504 'should not permanently break the connection'; docs/mcpgodebug.md "
        "noprotocolerrorbody: a non-2xx response with a JSON-RPC error body is a per-call rejection, 'any non-transient error will "
        "permanently fail the connection' otherwise; Connection.Close 'implicitly called whenever a Read or Write fails'; 404 = session "
        "terminated), never from what the code does; where nothing is documented (202 in reply to a request, a JSON body that is cut or "
        "is no JSON-RPC, an event stream that ends before the response, an unknown content type, every POST error of the legacy SSE "
        "client) the permissive class is used: the session may end at once or count a failed ping, and coverage reports which it did",
        "transport dimension: the peers are scripted (http.RoundTripper for the clients, an in-process caller of ServeHTTP for the server); "
        "statuses without JSON-RPC body carry no body, a text/plain or a text/html body (seeded); the streamable client's standalone GET is "
        "answered 405 or disabled (seeded); the streamable server's client keeps its standalone stream attached and detaches it an eighth of "
        "an interval before the tick of a ping that is to be undeliverable (no event store); a session that ended because its connection was "
        "reported dead is given the threshold's intervals and a ping timeout before its keep-alive loop must be gone (it can only find out "
        "by its own pings failing); owner's Close between two pings only; resumable streams (event ids) are C09's",
        "TLC exhaustive results are for scripts of length <= 6 and the stated thresholds",
    ]
    out = vlib.outdir(PID)
    stage, t_stage = {}, [time.time()]

    def lap(name):
        stage[name] = round(stage.get(name, 0) + time.time() - t_stage[0], 1)
        t_stage[0] = time.time()
    for f in os.listdir(out):
        if f.startswith("stuck-seed"):
            os.remove(os.path.join(out, f))

    # 1. design check (thorough: more thresholds and answer delays; quick: done by the generation run below,
    #    which checks the same invariants and properties on the configuration it exports)
    if tier == "thorough" and not replay:
        cfg = "KeepAlive_mc_thorough.cfg"
        res = vlib.run_tlc("KeepAliveMC", cfg, workers=TLC_WORKERS, timeout=900, heap_gb=4)
        vlib.tlc_must_pass(res, cfg)
        v.add_tlc(cfg, res)
        if not res.ok:
            raise vlib.MachineryError("the KeepAlive model violates %s: design check failed" % res.violation)

    # 1b. vacuity witnesses: each must be violated
    if not replay:
        # one run (one worker: the witnesses already refuted are kept in TLC registers) reports the first state
        # that refutes each witness
        wres = vlib.run_tlc("KeepAliveMC", "KeepAlive_wit.cfg", workers=1, timeout=300, heap_gb=2)
        vlib.tlc_must_pass(wres, "KeepAlive_wit.cfg")
        reached = {p["wit"] for p in wres.printed if isinstance(p, dict) and "wit" in p}
        for w in WITNESSES:
            if w not in reached:
                raise vlib.MachineryError("vacuity: witness %s not reachable (%s)" % (w, wres.error or wres.violation or sorted(reached)))
        v.add_tlc("KeepAlive_wit.cfg (%d reachability witnesses)" % len(WITNESSES), wres)

    lap("design_and_witnesses")
    # 2. cases
    gres = vlib.run_tlc("KeepAliveMC", "KeepAlive_gen.cfg", workers=TLC_WORKERS, timeout=900, heap_gb=4)
    vlib.tlc_must_pass(gres, "KeepAlive_gen.cfg")
    v.add_tlc("KeepAlive_gen.cfg (design check + case export)", gres)
    if not gres.ok:
        raise vlib.MachineryError("the KeepAlive model violates %s: design check failed" % gres.violation)
    cases = [p for p in gres.printed if isinstance(p, dict) and "pattern" in p and "closeAt" in p]
    cases.sort(key=lambda c: (len(c["pattern"]), c["pattern"], c["T"], c["end"], c["drain"], c["hs"] != 0, c["cc"] >= 0, c["hs"], c["cc"], c["est"]))
    # the model's statement about the environment dimensions: when the handshake completes, what becomes of the Connect
    # context and a fallback from server/discover to initialize do not change what the loop does
    base = {(tuple(c["pattern"]), c["T"], c["end"], c["drain"]): c for c in cases if c["hs"] == 0 and c["cc"] < 0 and c["est"] == "init"}
    for c in cases:
        b = base.get((tuple(c["pattern"]), c["T"], c["end"], c["drain"]))
        if c["est"] == "modern":
            if c["nping"] != 0 or c["closeAt"] >= 0:
                raise vlib.MachineryError("KeepAlive.tla: a session without ping is pinged: %s" % json.dumps(c))
        elif b is None or any(b[f] != c[f] for f in ("nping", "closeAt", "userAt", "final", "ticks", "holds")):
            raise vlib.MachineryError("KeepAlive.tla: handshake slot %d / Connect-context slot %d / establishing by %s changes the run of %s" % (
                c["hs"], c["cc"], c["est"], json.dumps(b)))
    for c in cases:
        c["tr"], c["cls"], c["dlag"] = "", [], 0
    for i, c in enumerate(cases):
        c["id"] = i
    ncases = len(cases)
    if ncases < 1000:
        raise vlib.MachineryError("TLC exported only %d cases" % ncases)
    v.cov["cases_exported"] = ncases
    v.cov["cases_late_or_no_handshake"] = sum(1 for c in cases if c["hs"] != 0)
    v.cov["cases_connect_context_cancelled"] = sum(1 for c in cases if c["cc"] >= 0)
    v.cov["cases_with_held_ping"] = sum(1 for c in cases if any(x.startswith("l") for x in c["pattern"]))
    v.cov["cases_by_establishment"] = {m: sum(1 for c in cases if c["est"] == m) for m in ("init", "fallback", "modern")}

    # 3. which levels run which cases
    rng = random.Random(seed)
    seeds = [seed]
    if replay:
        rep = json.load(open(replay))["replay"]
        want = rep["case"]
        match = [c for c in cases if not want.get("tr") and c["pattern"] == want["pattern"] and c["T"] == want["T"] and c["end"] == want["end"]
                 and c["drain"] == want.get("drain", 0) and c["hs"] == want.get("hs", 0) and c["cc"] == want.get("cc", -1)
                 and c["est"] == want.get("est", "init")]
        if not match and not want.get("tr"):
            raise vlib.MachineryError("replay case not in the exported case set")
        run_cases = []
        if match:
            match[0]["levels"] = [rep["level"]]
            run_cases = [match[0]]
        seeds = [rep["seed"]]
    else:
        seen = set()
        extra = 2000 if tier == "quick" else ncases
        pick = set(rng.sample(range(ncases), min(extra, ncases)))
        for c in cases:
            key = consumed(c)
            first = key not in seen
            seen.add(key)
            c["levels"] = list(LEVELS) if (first or c["id"] in pick or tier == "thorough") else ["func"]
            c["levels"] = [l for l in c["levels"] if l in levels_of(c)]
        run_cases = [c for c in cases if c["levels"]]
        v.cov["distinct_runs"] = len(seen)
        if tier == "thorough":
            seeds = [seed, seed + 1000, seed + 2000]
    lap("case_export")
    # 3b. transport dimension: the cases of KeepAliveTr (same loop, scripts of classes per transport)
    skip_later = set()
    tcfg = "KeepAliveTr_gen.cfg" if tier == "quick" else "KeepAliveTr_thorough.cfg"
    tres = vlib.run_tlc("KeepAliveTr", tcfg, workers=TLC_WORKERS, timeout=900, heap_gb=4)
    vlib.tlc_must_pass(tres, tcfg)
    v.add_tlc(tcfg + " (design check + case export, transport x failure class)", tres)
    if not tres.ok:
        raise vlib.MachineryError("the KeepAlive model (transport dimension) violates %s: design check failed" % tres.violation)
    tcases = [p for p in tres.printed if isinstance(p, dict) and p.get("tr") and "cls" in p and "closeAt" in p]
    tcases.sort(key=lambda c: (c["tr"], len(c["cls"]), c["cls"], c["T"]))
    table = {}
    for c in tcases:
        for cl, ver in zip(c["cls"], c["verdicts"]):
            table[(c["tr"], cl)] = ver
        if c["end"] != "idle" or c["hs"] != 0 or c["cc"] >= 0 or c["est"] != "init" or len(c["cls"]) != len(c["pattern"]):
            raise vlib.MachineryError("KeepAliveTr.tla: a case of the transport dimension is not a plain one: %s" % json.dumps(c))
    # vacuity of the dimension: every transport has an answered class, a miss by silence, a miss by error and a dead class;
    # a miss below the threshold is followed by more pings, a dead class ends the run
    for trn in TR_LEVELS:
        have = {ver for (t, _), ver in table.items() if t == trn}
        if not {"a", "t", "c", "m", "d"} <= have:
            raise vlib.MachineryError("KeepAliveTr.tla: transport %s lacks a verdict class (has %s)" % (trn, sorted(have)))
    if not any(c["closeAt"] >= 0 and c["verdicts"][-1] == "d" and c["nping"] < max(c["T"], 1) for c in tcases) or \
       not any(c["closeAt"] < 0 and any(x in "tc" for x in c["verdicts"]) for c in tcases):
        raise vlib.MachineryError("KeepAliveTr.tla: no case ends at once on a dead connection / tolerates a miss")
    for i, c in enumerate(tcases):
        c["id"] = ncases + i
        c["levels"] = list(TR_LEVELS[c["tr"]])
    v.cov["transport_cases_exported"] = len(tcases)
    v.cov["transport_classes"] = {trn: {cl: ver for (t, cl), ver in sorted(table.items()) if t == trn} for trn in TR_LEVELS}
    if replay:
        want = json.load(open(replay))["replay"]["case"]
        if want.get("tr"):
            match = [c for c in tcases if c["tr"] == want["tr"] and c["cls"] == want["cls"] and c["T"] == want["T"]]
            if not match:
                raise vlib.MachineryError("replay case not in the exported case set (transport dimension)")
            match[0]["levels"] = [rep["level"]]
            run_cases = [match[0]]
    else:
        if tier == "quick":
            # every script of at most two classes, and a seeded sample of the longer ones
            short = [c for c in tcases if len(c["cls"]) <= 2]
            longer = [c for c in tcases if len(c["cls"]) > 2]
            trun = short + rng.sample(longer, min(TR_QUICK_SAMPLE, len(longer)))
        else:
            trun = tcases
            # the further concretisation seeds (interval, bodies of the statuses, protocol version) run every script of at most
            # two classes and a seeded sample of the longer ones
            longer = [c for c in tcases if len(c["cls"]) > 2]
            keep = {c["id"] for c in rng.sample(longer, min(TR_THOROUGH_RESAMPLE, len(longer)))}
            skip_later = {c["id"] for c in longer} - keep
        run_cases = run_cases + trun
        v.cov["transport_cases_run"] = len(trun)
    lap("transport_case_export")
    cases_path = os.path.join(out, "cases.ndjson")
    vlib.write_ndjson(cases_path, run_cases)
    expected = sum(len(c["levels"]) for c in run_cases)
    later_cases, later_path = run_cases, cases_path
    if skip_later:
        later_cases = [c for c in run_cases if c["id"] not in skip_later]
        later_path = os.path.join(out, "cases-later-seeds.ndjson")
        vlib.write_ndjson(later_path, later_cases)
    expected_later = sum(len(c["levels"]) for c in later_cases)

    # 4. real code
    obs_path = os.path.join(out, "obs.ndjson")
    rows = []
    with open(obs_path, "w") as allobs:
        for sd in seeds:
            part = os.path.join(out, "obs-%d-%d.ndjson" % (sd, os.getpid()))
            first_seed = sd == seeds[0]
            rc, gout, stuck = run_harness(out, cases_path if first_seed else later_path, part, sd, tier)
            if stuck:
                v.cov.setdefault("harness_restarts", []).extend(stuck)
            vlib.go_must_build(rc, gout, PID)
            if rc != 0:
                if "panic:" in gout or "fatal error:" in gout:
                    v.violation("panic", "the SDK panicked while a keep-alive scenario was running",
                                {"output": gout[-4000:], "seed": sd})
                    return v.finish()
                raise vlib.MachineryError("C13 harness failed:\n" + gout[-3000:])
            part_rows = vlib.read_ndjson(part)
            if len(part_rows) != (expected if first_seed else expected_later):
                raise vlib.MachineryError("harness ran %d of %d scenarios" % (len(part_rows), expected if first_seed else expected_later))
            bad = [r for r in part_rows if r["exit"].startswith("harness:") or r["exit"].startswith("connect:")]
            if bad:
                raise vlib.MachineryError("scenario could not be set up (%d): %s %s" % (len(bad), bad[0]["exit"], json.dumps(bad[0])[:400]))
            for r in part_rows:
                r["seed"] = sd
                allobs.write(json.dumps(r, separators=(",", ":")) + "\n")
            rows += part_rows
            os.remove(part)

    lap("real_code")
    # 5. monitor: the verdict
    fails, mres = vlib.run_monitor("KeepAliveMon", "KeepAliveMon.cfg", obs_path, timeout=1200, heap_gb=6)
    v.add_tlc("KeepAliveMon", mres)
    lap("monitor")
    v.cov["stage_wall_s"] = stage
    v.cov["traces_validated_against_impl"] = len(rows)
    v.cov["evaluations"] = len(rows)
    by_level = {}
    distinct = set()
    for r in rows:
        by_level[r["level"]] = by_level.get(r["level"], 0) + 1
        if r["pings"]:
            distinct.add((r["level"], "".join(p["k"] for p in r["pings"]), r["T"], (r["end"] + str(r["drain"])) if r["closed"] < 0 else "-",
                          len(r["pattern"]) if r["closed"] < 0 else 0, r["hs"], r["cc"], r["est"]))
    v.cov["scenarios_by_level"] = by_level
    v.cov["distinct_nontrivial"] = len(distinct)
    v.cov["closed_by_keepalive"] = sum(1 for r in rows if r["closed"] >= 0)
    v.cov["stopped_on_method_not_found"] = sum(1 for r in rows if any(p["o"] == "m" for p in r["pings"]))
    v.cov["owner_closed_with_ping_in_flight"] = sum(1 for r in rows if any(p["o"] == "u" for p in r["pings"]))
    v.cov["owner_closed_while_ping_held"] = sum(1 for r in rows if r["end"] == "held" and r["userClose"] >= 0)
    v.cov["owner_closed_while_handler_running"] = sum(1 for r in rows if r["released"] >= 0)
    v.cov["pinged_before_handshake"] = sum(1 for r in rows if r["hs"] != 0 and any(r["hsAt"] < 0 or p["at"] < r["hsAt"] for p in r["pings"]))
    v.cov["closed_before_handshake"] = sum(1 for r in rows if r["hs"] != 0 and r["closed"] >= 0 and r["hsAt"] < 0)
    v.cov["pinged_after_connect_context_cancelled"] = sum(1 for r in rows if r["ccAt"] >= 0 and any(p["at"] > r["ccAt"] for p in r["pings"]))
    v.cov["closed_after_connect_context_cancelled"] = sum(1 for r in rows if 0 <= r["ccAt"] < r["closed"])
    v.cov["held_pings_seen"] = sum(1 for r in rows for p in r["pings"] if p["o"] == "l")
    v.cov["caught_up_after_held_ping"] = sum(1 for r in rows if any(p["o"] == "l" and p["h"] > r["I"] for p in r["pings"][:-1]))
    v.cov["closed_with_held_ping_in_run"] = sum(1 for r in rows if r["closed"] >= 0 and any(p["o"] == "l" for p in r["pings"][-max(1, r["T"]):]))
    v.cov["client_sessions_by_establishment"] = {m: sum(1 for r in rows if r["level"] == "client" and r["est"] == m) for m in ("init", "fallback", "modern")}
    v.cov["fallback_sessions_pinged"] = sum(1 for r in rows if r["est"] == "fallback" and r["pings"])
    v.cov["discover_rejections"] = {d: sum(1 for r in rows if r["disc"] == d) for d in sorted({r["disc"] for r in rows if r["est"] == "fallback"})}
    v.cov["quiet_period_cut_by_watchdog"] = sum(1 for r in rows if r["quietCut"])
    # transport dimension: what was played, and what the session did at a ping of each class (not a verdict: the
    # classes without documented meaning may go either way)
    trows = [r for r in rows if r["tr"]]
    v.cov["transport_scenarios_by_level"] = {}
    treat = {}
    for r in trows:
        lvl = r["level"] if r["level"] == r["tr"] else r["tr"] + "-" + r["level"]
        v.cov["transport_scenarios_by_level"][lvl] = v.cov["transport_scenarios_by_level"].get(lvl, 0) + 1
        for i, p in enumerate(r["pings"]):
            last = i == len(r["pings"]) - 1
            ended = last and r["closed"] >= 0 and r["closed"] >= p["at"]
            d = treat.setdefault("%s/%s" % (r["tr"], p["cls"]), {"played": 0, "session_ended_at_it": 0, "session_went_on": 0})
            d["played"] += 1
            d["session_ended_at_it" if ended else "session_went_on"] += 1
    v.cov["transport_class_treatment"] = {k: treat[k] for k in sorted(treat)}
    if not replay:
        unplayed = [("%s/%s" % (t, cl)) for t in v.cov["transport_classes"] for cl in v.cov["transport_classes"][t]
                    if ("%s/%s" % (t, cl)) not in treat]
        if unplayed:
            raise vlib.MachineryError("classes of the transport dimension that no scenario played: %s" % unplayed)
    v.cov["transport_sessions_ended_by_dead_connection"] = sum(
        1 for r in trows if r["closed"] >= 0 and r["pings"] and v.cov["transport_classes"][r["tr"]].get(r["pings"][-1]["cls"]) == "d")
    v.cov["transport_misses_tolerated"] = sum(
        1 for r in trows for i, p in enumerate(r["pings"])
        if v.cov["transport_classes"][r["tr"]].get(p["cls"]) in ("t", "c") and (r["closed"] < 0 or i < len(r["pings"]) - 1))
    v.cov["rule"] = ("cases = every terminal behaviour of KeepAlive.tla (all outcome scripts over {a,t,m,c} of length <= 6 x thresholds "
                     "{0,1,2,3} x owner closes idle / with a ping in flight / while a request handler keeps Close waiting for 1 or 2 intervals (session levels only) "
                     "/ while the transport holds the script's last ping past two ticks; "
                     "scripts of length <= 4 also x peer completes the handshake after tick 1..4 or never (server sessions) + context given to Connect cancelled "
                     "after tick 0..4 (server and client sessions); scripts of length <= 4 with one ping held by the transport for 9/16, 1 1/16 or 2 1/16 intervals "
                     "(not last when past a tick); scripts of length <= 3 x client session established by fallback from server/discover to initialize / by "
                     "server/discover (no ping)), each run at the function level where it exists there; session levels (server, client) run every "
                     "distinct run (consumed script prefix, threshold, closing mode) plus a seeded sample (quick) or every case (thorough, "
                     "3 concretisation seeds); transport dimension: every script of at most threshold + 1 classes of the transport's table that can be "
                     "consumed to its end (scripts longer than 2: at most 2 distinct classes in the quick tier), thresholds 1..3 (thorough 0..3), owner closes "
                     "between two pings; quick runs every script of <= 2 classes and a seeded sample of %d longer ones, thorough all (its 2nd and 3rd concretisation "
                     "seed: every script of <= 2 classes and a seeded sample of %d longer ones); distinct = (level," % (TR_QUICK_SAMPLE, TR_THOROUGH_RESAMPLE) + " outcomes actually consumed, threshold, closing mode, handshake slot, context slot, way of establishing); non-trivial = at least one ping")
    v.cov["exhaustive"] = not replay
    for r in rows[:: max(1, len(rows) // 5)][:5]:
        v.sample({k: r[k] for k in ("level", "pattern", "T", "end", "drain", "hs", "cc", "est", "disc", "neg", "pingable", "hsAt", "ccAt", "I", "pings", "attempts", "closed", "userClose", "kaEarly", "kaAlive", "left", "exit")})
    for r in trows[:: max(1, len(trows) // 3)][:3]:
        v.sample({k: r[k] for k in ("level", "tr", "cls", "pattern", "T", "I", "pings", "attempts", "closed", "userClose", "kaEarly", "kaAlive", "kaLate", "left", "exit")})
    vio = []
    # a run whose only deviation is a known finding is reported as that finding, not again as drift
    explained = {f["line"] for f in fails if f["monfail"] != "drift" and sig_of(f["monfail"], rows[f["line"] - 1]) in v.known}
    for f in fails:
        e = rows[f["line"] - 1]
        if f["monfail"] == "drift" and f["line"] in explained:
            v.cov["drift_explained_by_known_finding"] = v.cov.get("drift_explained_by_known_finding", 0) + 1
        elif f["monfail"] == "drift":
            v.drift.append("%s pattern=%s T=%d end=%s%s I=%dus: observed pings/closing differ from KeepAlive.tla (%s, pings at %s, handshake %d, context %d, exp %s)" % (
                e["level"], "".join(e["pattern"]) or "-", e["T"], e["end"], env_of(e), e["I"], got_of(e), [p["at"] for p in e["pings"]],
                e["hsAt"], e["ccAt"], e["exp"]))
        else:
            vio.append((len(e["pings"]), sig_of(f["monfail"], e), f["monfail"], e))
    vio.sort(key=lambda x: (x[0], x[1]))
    v.cov["monitor_failures"] = len(vio)
    # A census whose goroutine count was off and that could not be settled by a goroutine dump (dump budget used up,
    # which takes an implementation that leaks goroutines by the thousand) is no observation: what was found until then
    # is reported, but "nothing found" is not a result.
    blind = sum(r["uninspected"] for r in rows)
    v.cov["censuses_not_inspected"] = blind
    if blind and not vio:
        raise vlib.MachineryError("%d goroutine censuses could not be inspected (dump budget used up) and nothing else was found: no verdict" % blind)
    seen_sig = set()
    for _, sig, inv, e in vio:
        if sig in seen_sig:
            continue
        seen_sig.add(sig)
        if len(seen_sig) > 12 and sig not in v.known:
            continue
        case = {"pattern": e["pattern"], "T": e["T"], "end": e["end"], "drain": e["drain"], "hs": e["hs"], "cc": e["cc"], "est": e["est"]}
        if e["tr"]:
            case["tr"], case["cls"] = e["tr"], e["cls"]
            tab = v.cov["transport_classes"][e["tr"]]
            v.violation(sig, "real keep-alive run violates %s: transport %s (level %s), script of classes %s (for the property: %s), threshold=%d interval=%dus: %s; "
                        "pings (at, class played, for the property) %s, ping attempts %s, session ended on its own at %s, owner close %s, keep-alive loops alive "
                        "after Close began %d / once settled %d / after the threshold's intervals %d, left=%d exit=%s" % (
                            inv, e["tr"], e["level"], ",".join(e["cls"]), "".join(tab.get(x, "?") for x in e["cls"]), e["T"], e["I"], got_of(e),
                            [(p["at"], p["cls"], tab.get(p["cls"], "unscripted")) for p in e["pings"]], e["attempts"], e["closed"], e["userClose"],
                            e["kaEarly"], e["kaAlive"], e["kaLate"], e["left"], e["exit"][:80]),
                        {"case": case, "level": e["level"], "seed": e["seed"], "observation": e})
            continue
        v.violation(sig, "real keep-alive run violates %s: level=%s script=%s threshold=%d interval=%dus, session established by %s, peer completes the handshake: %s, Connect context %s: %s, pings (handed to the transport at, outcome, held for) %s, owner close %s, left=%d exit=%s" % (
            inv, e["level"], "".join(e["pattern"]) or "-", e["T"], e["I"],
            e["est"] if e["est"] == "init" else "%s (asked for %s, server/discover %s, speaks %s)" % (e["est"], e["hand"], e["disc"], e["neg"] or "?"),
            "%dus" % e["hsAt"] if e["hsAt"] >= 0 else ("never" if e["hs"] < 0 else "not while the session lasted (due after tick %d)" % e["hs"]),
            "cancelled at %dus" % e["ccAt"] if e["ccAt"] >= 0 else "kept alive", got_of(e),
            [(p["at"], p["o"], p["h"]) for p in e["pings"]], "%s (ping attempts %s, keep-alive loops alive after Close began %d / settled %d)" % (
                e["userClose"], e["attempts"], e["kaEarly"], e["kaAlive"]), e["left"], e["exit"][:80]),
            {"case": case, "level": e["level"], "seed": e["seed"], "observation": e})
    return v.finish()
