"""Binding demonstrations (DESIGN.md section 10): not part of any property's verdict.

For the trace specifications and monitors of the connection family and of the event store: take a real, accepted
observation log, corrupt one logged field / drop one event / swap two events, and require that TLC rejects it;
feed a hand-made violating observation to the monitor and require a `monfail`.
  bin/check selftest
"""
import copy, json, os
import vlib, conncheck

PID = "selftest"


def run(tier, seed, replay):
    ok = True
    out = vlib.outdir(PID)
    report = []

    def expect(name, cond):
        nonlocal ok
        report.append((name, bool(cond)))
        if not cond:
            ok = False

    # ---- connection family: a real corner trace, accepted as it is
    rows = vlib.read_ndjson(os.path.join(vlib.HARNESS, "scenarios", "conn_corner.ndjson"))
    rows = [r for r in rows if r["id"] in ("corner.peerCancelOne.server", "corner.lateResponseAfterCancel.client", "corner.twoClosesAndWait.server")]
    obs, orows, gout = conncheck.run_scenarios(PID, rows, seed, 0)
    base = os.path.join(out, "base.ndjson")
    vlib.write_ndjson(base, orows)
    strict = lambda path: vlib.run_strict("ConnTrace", "ConnTrace.cfg", path, java_opts=["-Dtlc2.tool.queue.IStateQueue=StateDeque"])
    acc, hwm, _ = strict(base)
    expect("ConnTrace accepts the unmodified real traces", acc)
    fails, _ = vlib.run_monitor("ConnMon", "ConnMon.cfg", base)
    expect("ConnMon raises nothing on the unmodified real traces", not [f for f in fails if not f["monfail"].startswith("C02.Dup")])

    def mutate(name, f, want_strict_reject=True, want_monfail=None):
        rr = copy.deepcopy(orows)
        f(rr)
        p = os.path.join(out, name + ".ndjson")
        vlib.write_ndjson(p, rr)
        if want_strict_reject:
            a, h, _ = strict(p)
            expect("ConnTrace rejects: " + name, not a)
        if want_monfail:
            fl, _ = vlib.run_monitor("ConnMon", "ConnMon.cfg", p)
            expect("ConnMon reports %s: %s" % (want_monfail, name), any(x["monfail"] == want_monfail for x in fl))

    cs_idx = [i for i, r in enumerate(orows) if r.get("ev") == "cs" and r["s"]["incoming"] == 2]
    cs_idx = [i for i in cs_idx]
    # only the part of a trace between "ready" and "cleanup" is validated (not the handshake, not the harness' clean-up)
    live, on = set(), False
    for i, r in enumerate(orows):
        if r.get("ev") == "ready":
            on = True
        elif r.get("ev") in ("cleanup", "reset"):
            on = False
        elif on:
            live.add(i)
    acc_idx = [i for i, r in enumerate(orows) if i in live and r.get("ev") == "cs" and r["fn"].endswith("processResult")]
    cs_live = [i for i in cs_idx if i in live]
    mutate("corrupt-one-snapshot-field", lambda rr: rr[cs_live[0]]["s"].__setitem__("incoming", 1))
    mutate("drop-one-critical-section", lambda rr: rr.pop(acc_idx[0]))
    we = [i for i, r in enumerate(orows) if r.get("ev") == "wr.end" and r.get("kind") == "resp" and r.get("ref")]
    mutate("swap-response-write-before-its-check", lambda rr: rr.__setitem__(slice(we[0] - 2, we[0] + 1), [rr[we[0]], rr[we[0] - 2], rr[we[0] - 1]]))
    ce = [i for i, r in enumerate(orows) if r.get("ev") == "call.end" and r.get("kind") == "result"]
    mutate("duplicate-call-end", lambda rr: rr.insert(ce[0] + 1, dict(rr[ce[0]])), want_strict_reject=False, want_monfail="C01.CompleteOnce")
    mutate("wrong-payload-in-call-end", lambda rr: rr[ce[0]].__setitem__("tag", "somebody-else"), want_strict_reject=False, want_monfail="C01.OwnResponse")
    hc = [i for i, r in enumerate(orows) if r.get("ev") == "h.ctxdone"]
    def other_handler(rr):
        rr[hc[0]]["r"] = "r2"
    mutate("cancel-observed-by-the-wrong-handler", other_handler, want_strict_reject=False, want_monfail="C04.OnlyMatchingCancelled")
    rs = [i for i, r in enumerate(orows) if r.get("ev") == "wr.end" and r.get("kind") == "resp" and r.get("outcome") == "ok" and r.get("ref")]
    mutate("second-response-for-one-request", lambda rr: rr.insert(rs[0] + 1, dict(rr[rs[0]])), want_strict_reject=True, want_monfail="C02.AnsweredAtMostOnce")

    # ---- snapshot-level monitor (the one evaluated over the repository's own tests)
    snap, tid = [], "t0"
    for r in orows:
        if r.get("ev") == "reset":
            tid = r.get("trace", "t")
        elif r.get("ev") == "cs":
            snap.append({"c": tid, "fn": r["fn"], "s": r["s"]})
    def snapfails(rr, name):
        p = os.path.join(out, name + ".ndjson")
        vlib.write_ndjson(p, rr)
        return [x["monfail"] for x in vlib.run_monitor("ConnSnap", "ConnSnap.cfg", p)[0]]
    expect("ConnSnap raises nothing (not even drift) on the unmodified critical sections", not snapfails(snap, "snap-base"))
    rr = copy.deepcopy(snap)
    k = [i for i, r in enumerate(rr) if r["s"]["closing"] and not r["s"]["done"] and i + 1 < len(rr) and rr[i + 1]["c"] == r["c"]][0]
    rr[k + 1]["s"]["queue"] += 1
    rr[k + 1]["s"]["incoming"] += 1
    expect("ConnSnap reports C05.NothingEnqueuedAfterClose on a queue that grows after Close", "C05.NothingEnqueuedAfterClose" in snapfails(rr, "snap-enq"))
    rr = copy.deepcopy(snap)
    k = [i for i, r in enumerate(rr) if r["s"]["done"]][0]
    rr[k]["s"]["out"] = 1
    expect("ConnSnap reports C05.IdleWhenDone on a connection that is done with a call in flight", "C05.IdleWhenDone" in snapfails(rr, "snap-done"))
    rr = copy.deepcopy(snap)
    k = [i for i, r in enumerate(rr) if r["fn"].endswith("handleAsync")][0]
    rr.pop(k)
    expect("ConnSnap reports drift when one critical section is dropped", "drift" in snapfails(rr, "snap-drop"))

    # ---- event store
    import importlib
    c20 = importlib.import_module("checks.c20")
    hist = os.path.join(out, "hist.ndjson")
    vlib.write_ndjson(hist, [{"id": "st1", "ops": [["SetMax", [3]], ["AppendSz", ["s1", "t1", 2]], ["AppendSz", ["s1", "t2", 2]], ["After", ["s1", "t1", -1]],
                                                     ["AppendSz", ["s2", "t1", 3]], ["After", ["s1", "t2", 0]], ["Closed", ["s1"]], ["After", ["s2", "t1", -1]]]}])
    eobs = os.path.join(out, "es.ndjson")
    rc, g, w = vlib.go_test("mcp", "^TestVerif_C20$", ["mcp/c20_eventstore_test.go"], env={"VERIF_IN": hist, "VERIF_OUT": eobs, "VERIF_SEED": seed, "VERIF_RANDOM": 0})
    erows = vlib.read_ndjson(eobs)
    a, h, _ = vlib.run_strict("EventStoreTrace", "EventStoreTrace.cfg", eobs)
    expect("EventStoreTrace accepts the unmodified real trace", a)
    rr = copy.deepcopy(erows)
    i = [k for k, r in enumerate(rr) if r.get("op") == "after" and r["res"]["kind"] == "items" and r["res"]["items"]][0]
    rr[i]["res"]["items"] = rr[i]["res"]["items"][:-1] + [[99, 1]]
    p = os.path.join(out, "es-bad.ndjson")
    vlib.write_ndjson(p, rr)
    a, h, _ = vlib.run_strict("EventStoreTrace", "EventStoreTrace.cfg", p)
    expect("EventStoreTrace rejects a corrupted After result", not a)
    fl, _ = vlib.run_monitor("EventStoreMon", "EventStoreMon.cfg", p)
    expect("EventStoreMon reports AfterExact on it", any(x["monfail"] == "AfterExact" for x in fl))

    # ---- streamable server: the clauses the connection properties borrow from StreamSrvMon (C02/C03/C04 satellites)
    import random
    c08 = importlib.import_module("checks.c08")
    rnd = random.Random(seed)
    want = ("corner-standalone-detached-writes", "corner-two-requests-one-session", "corner-abandoned-nested-call-standalone-attached")
    scen = [r for r in c08.corner_scenarios("C08", rnd) + c08.corner_scenarios("C10", rnd) if r["id"] in want]
    sobs, srows = c08.run_harness(PID, scen, seed, 0, prefix="ss_")
    smon = lambda path: [x["monfail"] for x in vlib.run_monitor("StreamSrvMon", "StreamSrvMon.cfg", path)[0]]
    expect("StreamSrvMon raises nothing on the unmodified real traces", not smon(sobs))

    def smutate(name, f, clause):
        rr = copy.deepcopy(srows)
        f(rr)
        pth = os.path.join(out, "ss-" + name + ".ndjson")
        vlib.write_ndjson(pth, rr)
        expect("StreamSrvMon reports %s: %s" % (clause, name), clause in smon(pth))

    # two consecutive events of one resumed standalone exchange (both have a position in the stream's history)
    evs = [i for i, r in enumerate(srows) if r.get("ev") == "x.ev" and r.get("kind") == "notif"]
    pair = [(a, b) for a, b in zip(evs, evs[1:]) if srows[a].get("x") == srows[b].get("x") and srows[a].get("tag") != srows[b].get("tag")]
    def swap(rr):
        a, b = pair[0]
        ta, tb = rr[a]["tag"], rr[b]["tag"]
        rr[a]["tag"], rr[b]["tag"] = tb, ta
    smutate("two-messages-of-one-stream-arrive-swapped", swap, "C03.SameStreamOrder")
    resp = [i for i, r in enumerate(srows) if r.get("ev") == "x.ev" and r.get("kind") == "resp" and r.get("tag")]
    presp = [i for i in resp if str(srows[i].get("x", "")).startswith("p.")]
    smutate("response-missing-on-its-post", lambda rr: rr.pop(presp[0]), "C02.HttpCallAnswered")
    smutate("response-twice-on-one-exchange", lambda rr: rr.insert(resp[0] + 1, dict(rr[resp[0]])), "C02.HttpAnsweredAtMostOnce")
    canc = [i for i, r in enumerate(srows) if r.get("ev") == "x.ev" and r.get("kind") == "cancel"]
    smutate("cancellation-notice-never-arrives", lambda rr: [rr.pop(i) for i in reversed(canc)], "C04.CancelNoticeReachesPeer")

    for name, good in report:
        print(("ok   " if good else "FAIL ") + name)
    print("selftest:", "all binding demonstrations behave as required" if ok else "SOME DEMONSTRATIONS FAILED")
    return 0 if ok else 2
