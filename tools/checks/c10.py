"""C10 — streamable server routes messages to the right stream, never across sessions (DESIGN.md section 6, C10).

Shares the specification (spec/StreamSrv.tla), the scenario harness (harness/mcp/c08_streamsrv_test.go), the monitor
(spec/StreamSrvMon.tla, clauses prefixed "C10.") and the driver with C08; see tools/checks/c08.py."""
from checks import c08

PID = "C10"


def run(tier, seed, replay):
    return c08.family_run(PID, tier, seed, replay)
