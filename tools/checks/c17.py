"""C17 — paginated listing (DESIGN.md section 6, C17; patterns P2 + P3).

model     Paginate.tla / PaginateMC.tla checked exhaustively by TLC (5 ids, page sizes 1..3, bounded histories,
          traversals under a visibility filter that hides a set of ids: pages arrive shortened or empty with a cursor;
          every id has an identifier class size/flavour per feature kind, tEndCls = class of the identifier that
          ended the last non-final page, i.e. of the unique id inside the cursor)
generate  transition cover (tools/graphwalk.py) of the reduced Paginate state graph -> histories
          (StartTraversal(H) / Iterate(H) for the hidden sets H of the tier);
          transition cover of the boundary graph (PaginateMC!BoundarySpec: kind x page size x class map, view with
          kind, cls, tEndCls) -> histories that put every class at a page boundary for every kind and page size;
          seeded random histories and cursor jobs are generated inside the Go harness
replay    harness/mcp/c17_paginate_test.go: real Server + real Client over in-memory transports, 4 feature kinds;
          the filter is a receiving middleware on the real server
judge     PaginateMon.tla (property only -> verdict), PaginateTrace.tla (strict -> drift)
"""
import base64, json, os, re, subprocess, threading, time
import vlib, graphwalk

PID = "C17"
KINDS = ["tools", "prompts", "resources", "templates"]
HARNESS = ["mcp/c17_paginate_test.go"]
MAX_RESTARTS = 8


def parse_set(txt):
    return [int(x) for x in re.findall(r"-?\d+", txt)]


def cover_histories(v, seed, tier):
    wd = vlib.scratch("tlc-")
    dot = os.path.join(wd, "g.dot")
    cfg = "Paginate_cover.cfg" if tier == "quick" else "Paginate_cover_thorough.cfg"
    rc = vlib.run_tlc("PaginateMC", cfg, workdir=wd, timeout=600, heap_gb=4, workers=4,
                      extra_args=["-dump", "dot,actionlabels", dot])
    vlib.tlc_must_pass(rc, "cover")
    if not rc.ok:
        raise vlib.MachineryError("cover model violates %s" % rc.violation)
    v.add_tlc(cfg, rc)
    init, edges = graphwalk.parse_dot(dot)
    paths, total_edges = graphwalk.cover(init, edges, maxlen=40, seed=seed, skip_selfloops=False)
    v.cov["graph_edges"] = total_edges
    v.cov["graph_nodes"] = len(edges)
    v.cov["cover_paths"] = len(paths)
    rows = []
    for i, p in enumerate(paths):
        if not p or p[0][0] != "Setup":
            raise vlib.MachineryError("cover path %d does not start with Setup: %r" % (i, p[:2]))
        init_set, ps = parse_set(str(p[0][1][0])), int(p[0][1][1])
        ops = []
        for (name, args) in p[1:]:
            if name in ("CStartTraversal", "CIterate"):  # the argument is the hidden set
                args = parse_set(str(args[0])) if args else []
            ops.append([name, args])
        kinds = range(4) if tier == "thorough" else [(i + seed) % 4, (i + seed + 2) % 4]
        for k in kinds:
            rows.append({"id": "cover%d.%s" % (i, KINDS[k]), "kind": k, "ps": ps, "init": init_set, "ops": ops})
    return rows


def strings_of(txt):
    return re.findall(r'"((?:[^"\\]|\\.)*)"', str(txt))


def slim(rows):
    """What TLC reads: the same lines without the fields that only serve replay (cursor bytes, concrete unique ids)."""
    return [{k: x for k, x in r.items() if k not in ("raw", "names", "panic", "stems")} for r in rows]


def boundary_histories(v, seed, tier):
    """Edge cover of the boundary graph: BSetup(kind, ps, class map) then traversals, iterator runs and removal of
    the identifier the cursor was made from. Returns (rows, classes per kind, class maps per kind, required
    (kind, ps, class) triples: the classes of the uniform maps, which end a non-final page for every ps)."""
    wd = vlib.scratch("tlc-")
    dot = os.path.join(wd, "b.dot")
    cfg = "Paginate_boundary.cfg" if tier == "quick" else "Paginate_boundary_thorough.cfg"
    rc = vlib.run_tlc("PaginateMC", cfg, workdir=wd, timeout=600, heap_gb=4, workers=4,
                      extra_args=["-dump", "dot,actionlabels", dot])
    vlib.tlc_must_pass(rc, "boundary")
    if not rc.ok:
        raise vlib.MachineryError("boundary model violates %s" % rc.violation)
    v.add_tlc(cfg, rc)
    init, edges = graphwalk.parse_dot(dot)
    paths, total_edges = graphwalk.cover(init, edges, maxlen=40, seed=seed, skip_selfloops=False)
    v.cov["boundary_graph"] = {"nodes": len(edges), "edges": total_edges, "paths": len(paths)}
    rows, classes, maps, required = [], {}, {}, set()
    for i, p in enumerate(paths):
        if not p or p[0][0] != "BSetup":
            raise vlib.MachineryError("boundary path %d does not start with BSetup: %r" % (i, p[:2]))
        kind, ps, m = p[0][1][0], int(p[0][1][1]), strings_of(p[0][1][2])
        if kind not in KINDS or len(m) != 5:
            raise vlib.MachineryError("boundary path %d: bad BSetup %r" % (i, p[0]))
        classes.setdefault(kind, set()).update(m)
        if m not in maps.setdefault(kind, []):
            maps[kind].append(m)
        if len(set(m)) == 1:
            required.add((kind, ps, m[0]))
        ops = []
        for (name, args) in p[1:]:
            name = {"BRemove": "Remove", "BIterate": "Iterate"}.get(name, name)
            if name in ("CStartTraversal", "Iterate"):
                args = []
            ops.append([name, args])
        rows.append({"id": "bound%d.%s" % (i, kind), "kind": KINDS.index(kind), "ps": ps, "init": [1, 2, 3, 4, 5], "cls": m, "ops": ops})
    return rows, {k: sorted(c) for k, c in classes.items()}, maps, required


def run_shard(binpath, shard, nshards, part, env, timeout, result):
    """One shard of the harness (jobs with index % nshards == shard). When the process dies inside the code under
    test, the pending line (the request in flight, err=crash) is appended to the log and the shard is restarted
    after the crashed job."""
    rows, outputs, skip, exhausted = [], [], 0, False
    for attempt in range(MAX_RESTARTS + 1):
        for p in (part, part + ".pending"):
            if os.path.exists(p):
                os.remove(p)
        e = dict(os.environ)
        e.update({k: str(x) for k, x in env.items()})
        e.update({"VERIF_OUT": part, "VERIF_SKIP": str(skip), "VERIF_SHARD": str(shard), "VERIF_SHARDS": str(nshards)})
        try:
            p = subprocess.run([binpath, "-test.run", "^TestVerif_C17$", "-test.count", "1", "-test.timeout", "%ds" % timeout],
                               cwd=os.path.join(vlib.REPO, "mcp"), env=e, stdout=subprocess.PIPE, stderr=subprocess.STDOUT,
                               timeout=timeout + 60, text=True, errors="replace")
            rc, gout = p.returncode, p.stdout
        except subprocess.TimeoutExpired as ex:
            rc, gout = 124, (ex.stdout or b"").decode(errors="replace") if isinstance(ex.stdout, bytes) else (ex.stdout or "")
        outputs.append(gout)
        rows.extend(vlib.read_ndjson(part) if os.path.exists(part) else [])
        pend = vlib.read_ndjson(part + ".pending") if os.path.exists(part + ".pending") else []
        if rc == 0 or ("DATA RACE" in gout and not pend):
            break
        if rc == 124 or not pend:
            result[shard] = ("error", "C17 harness shard %d failed without a request in flight (rc %d):\n%s" % (shard, rc, gout[-3000:]))
            return
        crash = pend[0]
        crash["panic"] = "\n".join([l for l in gout.splitlines() if l.startswith("panic:") or l.startswith("fatal error:")][:2])
        rows.append(crash)
        skip = crash["job"] + 1
    else:
        exhausted = True  # the crash lines recorded so far are still judged; coverage is incomplete
    for p in (part, part + ".pending"):
        if os.path.exists(p):
            os.remove(p)
    result[shard] = ("ok", rows, "\n".join(outputs), exhausted)


def run_harness(out, hist_path, seed, nrand, ncur, narb, cursor_replay=None, race=False, nshards=4, cursor_how=None, classes=None):
    """Builds the test binary once (go test -c through vlib.go_test, overlay) and runs it in nshards processes."""
    wd = vlib.scratch("c17bin-")
    binpath = os.path.join(wd, "c17.test")
    rc, gout, wall = vlib.go_test("mcp", "^$", HARNESS, race=race, timeout=900, extra_args=["-c", "-o", binpath])
    vlib.go_must_build(rc, gout, PID)
    if rc != 0 or not os.path.exists(binpath):
        raise vlib.MachineryError("C17 harness does not build:\n" + gout[-3000:])
    env = {"VERIF_IN": hist_path, "VERIF_SEED": seed, "VERIF_RANDOM": nrand, "VERIF_CURSORS": ncur, "VERIF_CURSORN": narb}
    if classes:
        env["VERIF_CLASSES"] = json.dumps(classes)
    if cursor_replay:
        env["VERIF_CURSOR_REPLAY"] = ",".join(cursor_replay)
        env["VERIF_CURSOR_HOW"] = cursor_how or "replay"
    result, threads = {}, []
    for i in range(nshards):
        t = threading.Thread(target=run_shard, args=(binpath, i, nshards, os.path.join(out, "obs_part%d.ndjson" % i), env, 1500, result))
        t.start()
        threads.append(t)
    for t in threads:
        t.join()
    all_rows, outputs, exhausted = [], [], False
    for i in range(nshards):
        r = result.get(i)
        if r is None or r[0] != "ok":
            raise vlib.MachineryError(r[1] if r else "C17 harness shard %d died" % i)
        all_rows.extend(r[1])
        outputs.append(r[2])
        exhausted = exhausted or r[3]
    # traces in job order (a trace = consecutive lines of one job within its shard)
    order, keyed = {}, []
    for n, r in enumerate(all_rows):
        keyed.append((r.get("job", 0), n, r))
    keyed.sort(key=lambda x: (x[0], x[1]))
    all_rows = [r for (_, _, r) in keyed]
    obs = os.path.join(out, "obs.ndjson")
    vlib.write_ndjson(obs, all_rows)
    obs_tlc = os.path.join(out, "obs_tlc.ndjson")  # same lines, same numbering
    vlib.write_ndjson(obs_tlc, slim(all_rows))
    return obs_tlc, all_rows, "\n".join(outputs), exhausted


def ops_of(trows, upto):
    """Reconstruct the executed abstract history of a trace from its log lines."""
    ops = []
    for r in trows[1:upto]:
        ev = r.get("ev")
        if ev == "mut":
            ops.append([{"add": "Add", "replace": "Replace", "remove": "Remove"}[r["op"]], [r["id"]]])
        elif ev == "start":
            ops.append(["StartTraversal", list(r.get("hid") or [])])
        elif ev == "page":
            ops.append(["FetchPage", []])
        elif ev == "iter" and r.get("cls") == "start":
            ops.append(["Iterate", list(r.get("hid") or [])])
    return ops


def run(tier, seed, replay):
    v = vlib.Verdict(PID, tier, seed)
    v.assumptions = [
        "universe of 5 unique ids per server (concrete names/URIs drawn from a seeded pool, ranked bytewise); page sizes 1-3 exhaustively, 1-6 in random histories",
        "identifier classes are those of Paginate.tla (size x flavour per feature kind: tool names up to the 128-byte limit; prompt names, "
        "resource URIs and URI templates short / 150-200 B / ~1 KB / 4-6.5 KB; percent-escapes, query strings, non-ASCII, characters JSON escapes, "
        "template expressions); a class is realised by a seeded filler of that size and flavour appended to the pool name; unique ids the SDK "
        "itself refuses at registration (control characters, broken %XX, characters a URI template does not admit) are not generated",
        "a cursor is 'malformed' iff the reference decoder of the documented format (base64url(gob(pageToken{LastUID}))) rejects it",
        "a request that does not return within 20 s (real time) counts as a hang; a crash of the test process is attributed to the request in flight",
        "in-memory transports; one client session per server; TTL 0 (no client-side caching of list results)",
        "pages that are shortened or empty on arrival yet carry a cursor come from a receiving middleware on the real server that "
        "removes a fixed set of ids from every list result for the duration of one traversal (what is registered as far as the client "
        "can tell is registered minus hidden); the filter never changes during a traversal",
        "the iterator replay of a history (iterrun) holds each list request of the iterator in a sending middleware of the client "
        "until the matching page fetch of the manual run, and compares the yielded sequence only",
        "TLC exhaustive results are for the stated small constants"]
    out = vlib.outdir(PID)
    phases, t_last = {}, [time.time()]

    def phase(name):
        now = time.time()
        phases[name] = round(now - t_last[0], 1)
        t_last[0] = now
    v.cov["phase_wall_s"] = phases
    for f in os.listdir(out):  # stale violation files of earlier runs
        if f.startswith("violation-") and not (replay and os.path.abspath(replay) == os.path.join(out, f)):
            os.remove(os.path.join(out, f))

    # 1. exhaustive model check of the design
    cfg = "Paginate_mc_quick.cfg" if tier == "quick" else "Paginate_mc_thorough.cfg"
    res = vlib.run_tlc("PaginateMC", cfg, timeout=1500, heap_gb=4 if tier == "quick" else 10, workers=4 if tier == "quick" else 8)
    vlib.tlc_must_pass(res, cfg)
    v.add_tlc(cfg, res)
    if not res.ok:
        raise vlib.MachineryError("model violates %s: the Paginate model no longer satisfies its own invariants" % res.violation)
    if tier != "quick":
        # the long histories above run without a filter; every hidden set (all 32) under mutation is a second run
        res = vlib.run_tlc("PaginateMC", "Paginate_mc_hidden.cfg", timeout=1500, heap_gb=10, workers=8)
        vlib.tlc_must_pass(res, "Paginate_mc_hidden.cfg")
        v.add_tlc("Paginate_mc_hidden.cfg", res)
        if not res.ok:
            raise vlib.MachineryError("model violates %s under a visibility filter" % res.violation)
    phase("model")
    # 1b. vacuity witnesses: these must be violated (run side by side, small constants)
    wits = ("NeverStaleCursor", "NeverDoneMutated", "NeverUnstableSeen", "NeverMultiPage", "NeverEmptyPageThenItems", "NeverShortPage")
    witres = {}

    def one_witness(wit):
        cfgtxt = ("SPECIFICATION MCSpec\nCONSTANTS\n  Ids = {1,2,3,4}\n  PageSizes = {1,2}\n  MaxMut = 2\n  MaxTrav = 1\n"
                  "CONSTANT HiddenSets <- SomeHidden\nCONSTANT ClassMaps <- MixedMap\nCONSTRAINT Bound\nVIEW MCView\nINVARIANT %s\n" % wit)
        witres[wit] = vlib.run_tlc("PaginateMC", "wit.cfg", extra_files={"wit.cfg": cfgtxt}, timeout=300, workers=1, heap_gb=1)

    threads = [threading.Thread(target=one_witness, args=(w,)) for w in wits]
    for t in threads:
        t.start()
    for t in threads:
        t.join()
    for wit in wits:
        r2 = witres.get(wit)
        if r2 is None or r2.violation != wit:
            raise vlib.MachineryError("vacuity: witness %s not reachable (%s)" % (wit, r2 and (r2.error or r2.violation)))

    phase("witnesses")
    # 2. histories
    hist_path = os.path.join(out, "histories.ndjson")
    cursor_replay = cursor_how = None
    if replay:
        rep = json.load(open(replay))["replay"]
        rows = []
        if rep.get("ops") is not None:
            rows = [{"id": "replay", "kind": KINDS.index(rep["kind"]), "ps": rep["ps"], "init": rep["init"],
                     "ops": rep["ops"], "uids": rep.get("uids") or [], "cls": rep.get("cls") or [], "stems": rep.get("stems") or [],
                     "salt": rep.get("salt", 0), "scheme": rep.get("scheme", "")}]
        if rep.get("cursors"):
            cursor_replay, cursor_how = rep["cursors"], rep.get("how")
        nrand = ncur = narb = 0
        classes, required = {}, set()
        for r in rows:  # the classes of the replayed history are enough for the harness
            classes.setdefault(KINDS[r["kind"]], sorted(set(r["cls"])))
    else:
        brows, classes, maps, required = boundary_histories(v, seed, tier)
        rows = cover_histories(v, seed, tier)
        # the histories of the main graph are abstract over kind and classes: every second one runs under a class map
        # of the TLC family of its kind, the others under classes drawn from the seed inside the harness
        for n, r in enumerate(rows):
            if n % 2 == 1:
                fam = maps[KINDS[r["kind"]]]
                r["cls"] = fam[(n // 2 + seed) % len(fam)]
        rows = brows + rows
        nrand, ncur, narb = (400, 24, 150) if tier == "quick" else (6000, 200, 400)
    vlib.write_ndjson(hist_path, rows)

    phase("generate")
    # 3. run on the real code
    obs, obs_rows, gout, exhausted = run_harness(out, hist_path, seed, nrand, ncur, narb, cursor_replay, race=(tier == "thorough"),
                                                      cursor_how=cursor_how, classes=classes)
    if "DATA RACE" in gout:
        v.violation("race", "data race reported by the race detector", {"output": gout[-3000:]})
    phase("go")
    traces = vlib.split_traces(obs_rows)
    v.cov["evaluations"] = sum(1 for r in obs_rows if r.get("ev") in ("page", "iter", "iterrun", "cursor"))
    v.cov["traces_validated_against_impl"] = len(traces)
    v.cov["pages"] = sum(1 for r in obs_rows if r.get("ev") == "page")
    v.cov["cursor_probes"] = sum(1 for r in obs_rows if r.get("ev") == "cursor")
    v.cov["iterator_runs"] = sum(1 for r in obs_rows if r.get("ev") in ("iter", "iterrun"))
    # pages that arrived shortened / empty although they carry a cursor, and the iterator runs that crossed one
    empty_pages = sum(1 for r in obs_rows if r.get("ev") == "page" and not r.get("err") and r.get("more") and not r.get("ids"))
    iter_over_empty = sum(1 for r in obs_rows if r.get("ev") == "iter" and r.get("emptycur", 0) > 0)
    iter_over_short = sum(1 for r in obs_rows if r.get("ev") == "iter" and r.get("shortcur", 0) > 0)
    iterrun_over_empty = 0
    for tid, start, trows in traces:
        ntr, empties = 0, {}
        for r in trows[1:]:
            if r["ev"] == "start":
                ntr += 1
            elif r["ev"] == "page" and not r.get("err") and r.get("more") and not r.get("ids"):
                empties[ntr] = True
            elif r["ev"] == "iterrun" and empties.get(r.get("trav")):
                iterrun_over_empty += 1
    v.cov["filtered"] = {
        "traversals_under_a_filter": sum(1 for r in obs_rows if r.get("ev") == "start" and r.get("hid")),
        "iterator_runs_under_a_filter": sum(1 for r in obs_rows if r.get("ev") in ("iter", "iterrun") and r.get("hid")),
        "hidden_sets": len(set(tuple(r["hid"]) for r in obs_rows if r.get("ev") in ("start", "iter") and r.get("hid"))),
        "manual_pages_empty_with_cursor": empty_pages,
        "iter_lines_over_an_empty_page_with_cursor": iter_over_empty,
        "iter_lines_over_a_shortened_page_with_cursor": iter_over_short,
        "iterrun_lines_over_an_empty_page_with_cursor": iterrun_over_empty}
    # (decided after the monitor has judged the log: on a changed tree the same cause may show up as a violation)
    vacuous_filter = not replay and (iter_over_empty == 0 or iterrun_over_empty == 0 or iter_over_short == 0)
    # identifier classes at page boundaries: (kind, page size, class) of the identifier inside a cursor that a manual
    # traversal then followed, i.e. the next page fetch of the same traversal was answered with a page
    at_boundary, followed, curlens = set(), set(), {}
    for tid, start, trows in traces:
        head, prev = trows[0], None
        for r in trows[1:]:
            if r["ev"] == "start":
                prev = None
            elif r["ev"] == "page":
                if prev is not None and not r.get("err"):
                    followed.add(prev)
                prev = None
                if not r.get("err") and r.get("more") and r.get("endcls", "none") != "none":
                    prev = (head.get("kind"), head.get("ps"), r["endcls"])
                    at_boundary.add(prev)
                    size = r["endcls"].split("/")[0]
                    lo, hi = curlens.get(size, (r["curlen"], r["curlen"]))
                    curlens[size] = (min(lo, r["curlen"]), max(hi, r["curlen"]))
    missing_boundary = sorted(required - followed)
    v.cov["identifier_classes"] = {
        "classes_per_kind": {k: len(c) for k, c in sorted(classes.items())},
        "kind_x_pagesize_x_class_required_at_a_page_boundary": len(required),
        "kind_x_pagesize_x_class_seen_at_a_page_boundary": len(at_boundary),
        "of_which_cursor_followed": len(followed),
        "cursor_length_by_size_class": {k: list(x) for k, x in sorted(curlens.items())},
        "traces_with_a_non_short_identifier": sum(1 for (_, _, tr) in traces if any(c != "short/plain" for c in tr[0].get("clsmap") or []))}
    cls = {}
    for r in obs_rows:
        if r.get("ev") == "cursor":
            k = "%s/%s->%s" % (r["cls"], r["op"], r["err"] or "page")
            cls[k] = cls.get(k, 0) + 1
    v.cov["cursor_outcomes"] = cls
    distinct, nontrivial, kinds_seen = set(), 0, set()
    for tid, start, trows in traces:
        kinds_seen.add(trows[0].get("kind"))
        key = vlib.sha([trows[0].get("ps"), trows[0].get("init"), ops_of(trows, len(trows))])
        if key in distinct:
            continue
        distinct.add(key)
        # non-trivial: a traversal of at least two pages with a change of the registered set in between
        pages, mut, mut_between = 0, False, False
        for r in trows[1:]:
            if r["ev"] == "start":
                pages, mut = 0, False
            elif r["ev"] == "page":
                pages += 1
                if pages >= 2 and mut:
                    mut_between = True
            elif r["ev"] == "mut" and pages >= 1:
                mut = True
        if mut_between:
            nontrivial += 1
    v.cov["distinct_nontrivial"] = nontrivial
    v.cov["feature_kinds"] = sorted(k for k in kinds_seen if k)
    v.cov["rule"] = ("histories = transition cover of the TLC state graph of PaginateMC!CoverSpec (every edge, StartTraversal(H) and Iterate(H) "
                     "for every hidden set H of the tier: 4 in quick, all 32 in thorough; graph reduced by a "
                     "VIEW that hides ghost variables) x feature kinds x identifier class maps + transition cover of the boundary graph "
                     "(PaginateMC!BoundarySpec: every kind x page size x class map of the tier, every class ends a non-final page) "
                     "+ seeded random histories + cursor jobs; distinct by "
                     "(page size, initial set, operation sequence); non-trivial = a traversal fetched a page after the "
                     "registered set changed behind an earlier page")
    v.cov["exhaustive"] = False
    for tid, start, trows in traces[:1] + traces[-1:]:
        v.sample({"trace": tid, "kind": trows[0].get("kind"), "ps": trows[0].get("ps"), "init": trows[0].get("init"),
                  "lines": [{k: r[k] for k in ("ev", "op", "id", "cls", "hid", "ids", "more", "err", "seq") if r.get(k) not in (None, "", [], 0)}
                            for r in trows[1:9]]})

    phase("stats")
    # 4. monitor: the verdict
    fails, mres = vlib.run_monitor("PaginateMon", "PaginateMon.cfg", obs, timeout=1500, heap_gb=8)
    v.add_tlc("PaginateMon", mres)
    for f in fails:
        tid, start, trows = vlib.trace_of_line(traces, f["line"])
        e = obs_rows[f["line"] - 1]
        head = trows[0]
        upto = f["line"] - start + 1
        if e["ev"] == "cursor":
            got = e["err"] or "page"
            if not e["alive"] and e["err"] not in ("crash", "hang"):
                got += "+dead"
            sig = "cursor=%s/%s:%s" % (e["cls"], e["op"], got)
            rep = {"cursors": [e.get("raw", "")], "how": e["op"], "kind": head.get("kind"), "text": base64.b64decode(e.get("raw", "")).decode("latin-1")[:200]}
        else:
            sig = "%s:%s" % (f["monfail"], e["ev"])
            if e.get("err") in ("crash", "hang"):
                sig += ":" + e["err"]
            rep = {"kind": head.get("kind"), "ps": head.get("ps"), "init": head.get("init"), "uids": head.get("names", []),
                   "cls": head.get("clsmap", []), "stems": head.get("stems", []), "salt": head.get("salt", 0), "scheme": head.get("scheme", ""),
                   "ops": ops_of(trows, upto), "history_hash": vlib.sha(ops_of(trows, upto))}
        rep["line"] = e
        ctx = ""
        if e["ev"] == "page":  # the cursor this request followed: which identifier it embeds
            prev = [r for r in trows[1:upto - 1] if r["ev"] in ("page", "start")]
            if prev and prev[-1]["ev"] == "page" and prev[-1].get("more"):
                ctx = " [followed a %d-byte cursor issued for an identifier of class %s]" % (prev[-1].get("curlen", 0), prev[-1].get("endcls"))
        v.violation(sig, "monitor %s failed at log line %d, trace %s (%s, page size %s): %s" % (
            f["monfail"], f["line"], tid, head.get("kind"), head.get("ps"),
            json.dumps({k: e.get(k) for k in ("ev", "cls", "op", "hid", "ids", "more", "err", "seq", "man", "trav", "alive", "panic") if e.get(k) not in (None, "", [])})[:400] + ctx), rep)

    phase("monitor")
    if vacuous_filter and not v.violations:
        raise vlib.MachineryError("vacuity: no iterator run crossed a page that arrived empty/shortened with a cursor: %r" % v.cov["filtered"])
    if missing_boundary and not v.violations:
        raise vlib.MachineryError("vacuity: %d (kind, page size, class) triples of the boundary graph never ended a non-final page whose "
                                  "cursor was then followed, e.g. %r" % (len(missing_boundary), missing_boundary[:5]))
    if exhausted and not v.violations:
        raise vlib.MachineryError("the harness process crashed more than %d times (all known findings): coverage incomplete" % MAX_RESTARTS)
    v.cov["harness_restarts_exhausted"] = exhausted

    # 5. strict: binding / drift
    bad_traces = set(vlib.trace_of_line(traces, f["line"])[0] for f in fails)
    cur_rows = [r for (tid, s, tr) in traces if tid not in bad_traces for r in tr]
    for attempt in range(5):
        sp = os.path.join(out, "obs_strict.ndjson")
        vlib.write_ndjson(sp, slim(cur_rows))
        ok, hwm, sres = vlib.run_strict("PaginateTrace", "PaginateTrace.cfg", sp, timeout=1500, heap_gb=8)
        v.add_tlc("PaginateTrace", sres)
        if ok:
            os.remove(sp)  # identical to obs.ndjson minus rejected traces; kept only when there is drift
            break
        tr2 = vlib.split_traces(cur_rows)
        if hwm is None or hwm < 1:
            v.drift.append("strict spec invariant violated on a real trace: %s" % sres.violation)
            break
        tid, start, trows = vlib.trace_of_line(tr2, hwm)
        v.drift.append("trace %s line %d not explained by the Paginate spec: %s" % (tid, hwm, json.dumps(cur_rows[hwm - 1])[:300]))
        cur_rows = [r for (t2, s, tr) in tr2 if t2 != tid for r in tr]
    phase("strict")
    return v.finish()
