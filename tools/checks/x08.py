"""X08 — the HTTP+SSE satellite of the connection properties C01, C02, C03, C05 run on its own for all four prefixes
(tools/ssesat.py; spec/SSESat*.tla; harness/mcp/sse_sat_test.go).  The checks of C01/C02/C03/C05 call ssesat.satellite
for their own prefix; this entry point exists so that the satellite can be run and its evidence inspected by itself."""
import json
import ssesat, vlib

PID = "X08"


def run(tier, seed, replay):
    v = vlib.Verdict(PID, tier, seed)
    known = vlib.load_known()
    v.known = {sig: txt for pid in ssesat.PIDS for sig, txt in known.get(pid, {}).items()}
    v.known.update(known.get(PID, {}))
    scn = None
    if replay:
        scn = json.load(open(replay))["replay"]["ssesat_scenario"]
    ssesat.satellite(v, PID, tier, seed, replay_scn=scn, prefixes=ssesat.PIDS)
    c = v.cov["sse"]
    v.cov["evaluations"] = c["steps_executed"]
    v.cov["distinct_nontrivial"] = c["distinct_with_fault_or_two_sessions"]
    v.cov["exhaustive"] = False
    v.cov["rule"] = ("scenarios = environment-action scripts (transition cover of the seam-level TLC state graphs of SSESat.tla, TLC "
                     "-simulate histories of a larger configuration, hand-written corner scripts, seeded random scripts beyond the "
                     "model's bounds), each run on a real mcp.Client + SSEClientTransport against a real SSEHandler + mcp.Server under "
                     "synctest; evaluations = script steps executed; distinct by step list; non-trivial = contains a fault (cut, Close, "
                     "failed POST, foreign stream element) or two sessions")
    return v.finish()
