"""C09 — streamable client survives stream cuts: exactly-once delivery, or a clean error
(DESIGN.md sections 5.5, 6 "C09", 9 lead 5; pattern P2).

  1. TLC checks the design (spec/StreamCli.tla): with the three repair switches on, every property
     invariant holds exhaustively on the bounded configuration (the property is satisfiable and the
     monitor does not over-demand); with the switches off (the code as it stands) types, termination and
     "never hangs" hold, and the other invariants are expected to fail: leads, confirmed only by replay.
     Reachability witnesses guard against vacuity.
  2. TLC exports behaviours of the as-is model as scenarios (environment choices + code-shaped expectation +
     predicted violated invariants): every single-cut behaviour (gen1), every two-cut behaviour of a reduced
     configuration (gen2), three-cut behaviours (gen3), scripts of up to six cuts in which progress and no
     progress alternate (genI: the budget is per stretch without progress), runs of k resumed bodies that end at
     offset 0 for every k up to MaxRetries + 1 after progress was made (genR), the same runs against a STUCK server
     that never relents (genK: the client must give up; TLC's Terminates is the same statement about the model),
     every sequence of reconnect answers over the whole class of transient statuses {429, 500, 502, 503, 504}, the
     transport error and the non-transient statuses {404, 403, 501} (genS), and the single-cut table of the
     13-event reference stream (gen1L) that is joined to the byte-level runs; and the two budgets CROSSED (genB, genBA, genB5):
     after a first cut that left the stream resumable the environment chooses per attempt refused / transient status / 200 with
     no event / 200 with a `retry:` event only (bare, named as the SDK's server writes it, with the id resumed from) / 200 with
     the rest - every sequence for MaxRetries 1 and 2 (genBA), the grid k = 0..MaxRetries+1 fruitless resumptions x j =
     1..MaxRetries failed attempts at every position for MaxRetries 2, 3 (genB) and the default 5, option left unset (genB5);
     the server is stuck once the script is used up, so a client that does not give up is seen polling; and a resumption REFUSED
     WITH A JSON-RPC ERROR BODY (genJ): after a first cut that left the stream resumable the reconnect GET is answered, at attempt
     1 or (after a refused / 503 attempt) 2, with a non-2xx, non-transient status (400, 409, 404) whose body is a JSON-RPC error
     response carrying the id of the pending call, another id, or null: the call must end with an error, never hang.
  3. harness/mcp/c09_streamcli_test.go runs them on a real mcp.Client over a real StreamableClientTransport
     with a scripted RoundTripper inside testing/synctest, plus EVERY byte offset of the reference bodies x
     {read error, clean EOF} at session level and at function level (scanEvents alone).
  4. The TLA+ monitor spec/StreamCliMon.tla (TLC over obs.ndjson) gives the verdict with the constant-level
     predicates of StreamCli.tla; equality with the exported expectation is only "drift".
"""
import json, os, random, threading, time
import vlib, e2echeck

PID = "C09"
TLC_WORKERS = 4
WITNESSES = ("NeverResumed", "NeverExhausted", "NeverGaveUpAttempts", "NeverSynthetic", "NeverStandaloneDone",
             "NeverGaveUpOnStuck", "NeverRetriedStatus")
# witnesses of the budget-crossing family: TLC tags every exported behaviour of genB with the ones it is (BudgetWit)
BUDGET_WITNESSES = ("CrossedBudgets", "GaveUpOnRetryOnly")
ALL_RETRY = '{"none", "bare", "named", "idd"}'
ALL_CLASSES = '{"bnd", "field", "name", "id", "idfull", "data", "datafull"}'
# reconnect answers are values: "ok", "terr" (transport error) or an HTTP status.  The status class is enumerated
# in full by genS / mc_status; the multi-cut configurations carry one transient and one non-transient member each
# (a different one per configuration, so that no status is "the" representative of its class).
TRANSIENT = ("429", "500", "502", "503", "504")
NONTRANSIENT = ("404", "403", "501")
ALL_ANSWERS = '{"terr", "ok", "503", "404"}'
FULL_ANSWERS = '{"terr", "ok", %s}' % ", ".join('"%s"' % x for x in TRANSIENT + NONTRANSIENT)
# a non-2xx, non-transient status whose body is a JSON-RPC error response: "<status>:<id of that response>" (ErrBodyAnswers in
# StreamCli.tla; id = the pending call's / another / null)
ERRBODY = ("400:own", "400:other", "400:null", "409:own", "409:other", "409:null", "404:own")
ERRBODY_ANSWERS = '{"terr", "ok", "503", %s}' % ", ".join('"%s"' % x for x in ERRBODY)
STATUS_ANSWERS = FULL_ANSWERS[:-1] + ", " + ", ".join('"%s"' % x for x in ERRBODY) + "}"

CFG_TMPL = """SPECIFICATION Spec
CONSTANTS
  KindSet = %(kinds)s
  ShapeSet <- %(shapes)s
  SchemeSet = %(schemes)s
  MSet = %(ms)s
  MRSet = %(mrs)s
  MaxCuts = %(cuts)d
  ClassSet = %(classes)s
  AnswerSet = %(answers)s
  TailSet = %(tails)s
  RetrySet = %(retries)s
  FixScanner = %(fixscanner)s
  FixCursor = %(fixcursor)s
  Fix5xx = %(fix5xx)s
%(tail)s
CHECK_DEADLOCK FALSE
"""

PROP_INVS = ("INVARIANTS TypeOK InvExactlyOnce InvNoTruncated InvResumeCursor InvRealResponse InvCleanFailure InvBoundedRetries\n"
             "PROPERTIES Terminates")
ASIS_INVS = "INVARIANTS TypeOK InvCleanFailure InvNoTruncated\nPROPERTIES Terminates"
# under a state CONSTRAINT (behaviours are cut off): the safety part only
PROP_SAFETY = "INVARIANTS TypeOK InvExactlyOnce InvNoTruncated InvResumeCursor InvRealResponse InvCleanFailure InvBoundedRetries"


# ---- THE CODE AS IT STANDS: which of the three repairs of StreamCli.tla /repo has received.
# These are the constants FixScanner / FixCursor / Fix5xx of every configuration that models the real code
# (behaviour export gen1/gen2/gen3/gen1L = the code-shaped expectation, mc_asis, the vacuity witnesses) and the
# code-shaped expectation of the function-level scanEvents table in StreamCliMon.tla (field "fx" of scan lines).
# Flip an entry to True when the corresponding repair lands in /repo; the verdict predicates do not depend on them.
#   scanner: scanEvents discards an event not terminated by a blank line when the input ends cleanly
#   cursor:  the resume cursor (last event id) survives from one response body to the next
#   5xx:     a transient HTTP status answering a reconnect GET is retried within the budget
# VERIF_C09_REPAIRED="scanner,cursor,5xx" (any subset, or "none") overrides the table for one run.
REPAIRED = {"scanner": False, "cursor": True, "5xx": True}
if os.environ.get("VERIF_C09_REPAIRED") is not None:
    _on = {x.strip() for x in os.environ["VERIF_C09_REPAIRED"].split(",") if x.strip() and x.strip() != "none"}
    if _on - set(REPAIRED):
        raise vlib.MachineryError("VERIF_C09_REPAIRED: unknown repair %s" % sorted(_on - set(REPAIRED)))
    REPAIRED = {k: k in _on for k in REPAIRED}


def tla_bool(b):
    return "TRUE" if b else "FALSE"


def cfg_text(fix=None, **kw):
    """fix=None: the code as it stands (REPAIRED); fix="TRUE": the design the property asks for (all repairs)."""
    d = dict(kinds='{"post", "sa"}', shapes="AllShapes", schemes='{"dec", "nested"}', ms="{2, 3}", mrs="{0, 1, 2}",
             cuts=2, classes=ALL_CLASSES, answers=ALL_ANSWERS, tails='{"good"}', retries='{"none"}', tail="INVARIANTS Export")
    if fix is None:
        d.update(fixscanner=tla_bool(REPAIRED["scanner"]), fixcursor=tla_bool(REPAIRED["cursor"]), fix5xx=tla_bool(REPAIRED["5xx"]))
    else:
        d.update(fixscanner=fix, fixcursor=fix, fix5xx=fix)
    d.update(kw)
    return CFG_TMPL % d


def budget_cfg(constraint, mrs, kinds='{"post", "sa"}', shapes="FirstOnly", cuts=5, fix=None, tail=None):
    """the budget-crossing family (Budgets* in StreamCliMC.tla): cuts on event boundaries only, every kind of `retry:` event, a
    server that is stuck once the script is used up; cuts >= MaxRetries + 2 (the first cut + MaxRetries + 1 fruitless bodies)"""
    return cfg_text(fix=fix, kinds=kinds, shapes=shapes, schemes='{"dec"}', ms="{2}", mrs=mrs, cuts=cuts, classes='{"bnd"}',
                    answers='{"terr", "ok", "503"}', tails='{"stuck"}', retries=ALL_RETRY,
                    tail=tail if tail is not None else "CONSTRAINT %s\nINVARIANTS Export%s" % (constraint, constraint))


# reference streams of the byte level (first body: every byte offset x both terminations)
def ref(kind, ids, prime, scheme, M):
    return {"kind": kind, "ids": ids, "prime": prime, "scheme": scheme, "M": M, "mr": 2}


REFS_QUICK = [
    ("refA", ref("post", "all", "first", "dec", 3)),     # priming event + 2 notifications + response, with ids
    ("refB", ref("post", "none", "none", "dec", 3)),     # no ids: not resumable
    ("refC", ref("sa", "all", "none", "dec", 3)),        # standalone stream, ids, no priming event
    ("refD", ref("post", "all", "first", "nested", 3)),  # ids where an earlier id is a prefix of a later one
]
REFS_THOROUGH = REFS_QUICK + [
    ("refE", ref("post", "all", "none", "dec", 3)),      # ids, no priming event
    ("refF", ref("sa", "all", "first", "nested", 3)),
    ("refL", ref("post", "all", "first", "dec", 12)),    # 13 events with the SDK server's id spelling: s_1 vs s_10..s_12
]

PRIORITY = ["NoTruncatedSurfaced", "ExactlyOnceInOrder", "ScanNoTruncatedYielded", "ResumeCursor", "CleanFailure", "BoundedRetries",
            "RealResponseWithinBudget"]
KINDNAME = {"err": "readErr", "eof": "cleanEOF"}
CLSNAME = {"bnd": "boundary", "field": "in-field", "name": "in-name", "id": "in-id", "idfull": "after-id",
           "data": "in-data", "datafull": "after-data", "none": "none"}


def cfg_key(c):
    return (c["kind"], c["ids"], c["prime"], c["scheme"], c["M"], c["mr"])


def cut_key(b):
    return (b["n"], b["cls"], b["knd"], b["al"])


def script_of(exp):
    cuts = [{"n": b["n"], "cls": b["cls"], "knd": b["knd"], "al": b["al"], "rt": b["rt"]} for b in exp["bodies"]]
    rc = [r["outs"] for r in exp["recon"]]
    return cuts, rc


def ncuts(p):
    return sum(1 for b in p["exp"]["bodies"] if b["knd"] != "none")


REPLAYED = ("gen1", "gen2", "gen3", "genI", "genR", "genK", "genS", "genB", "genBA", "genB5", "genJ")
BUDGET_GENS = ("genB", "genBA", "genB5")


def no_prog(bodies, i):
    """labelling only (NoProg in StreamCli.tla): body i was cut without a new id having come across"""
    return bodies[i]["knd"] != "none" and bodies[i]["c"] == (bodies[i - 1]["c"] if i else -1)


def crossing(e):
    """labelling / coverage only: (k, j) of the LAST reconnection in which an attempt failed: j failed attempts, made after k
    bodies in a row that brought no new id across; None if no attempt failed"""
    bodies = e["bodies"]
    for i in range(len(e["recon"]) - 1, -1, -1):
        j = sum(1 for o in e["recon"][i]["outs"] if o != "ok")
        if j and i < len(bodies):
            k, b = 0, i
            while b >= 0 and no_prog(bodies, b):
                k, b = k + 1, b - 1
            return k, j
    return None


def run_length(p):
    """k if the behaviour is: a first body cut after an id had come across, then exactly k cut bodies that ended at
    offset 0, then (possibly) whole bodies; None otherwise"""
    b = p["exp"]["bodies"]
    if len(b) < 2 or b[0]["knd"] == "none" or b[0]["c"] < 0:
        return None
    k = 0
    for x in b[1:]:
        if x["knd"] != "none" and x["cls"] == "bnd" and x["n"] == 0 and x["from"] < p["cfg"]["M"]:
            k += 1
        elif x["knd"] == "none" and x is b[-1]:
            break
        else:
            return None
    return k or None


def abstract_class(p):
    """what makes two exported behaviours 'the same kind of case' for sampling"""
    c = p["cfg"]
    return (c["kind"], c["ids"], c["prime"], c["scheme"], c["mr"],
            tuple((b["cls"], b["knd"], b["al"] >= 0, b["n"] == 0, b["rt"]) for b in p["exp"]["bodies"]),
            tuple(tuple(r["outs"]) for r in p["exp"]["recon"]), p["exp"]["outcome"], tuple(sorted(p["viol"])))


def pick(pool, want, rng):
    """all of pool if it fits, else one per abstract class (seeded) topped up with a seeded sample"""
    if len(pool) <= want:
        return list(pool)
    by = {}
    for p in pool:
        by.setdefault(abstract_class(p), []).append(p)
    chosen, ids = [], set()
    keys = sorted(by, key=repr)
    rng.shuffle(keys)
    for k in keys[:want]:
        p = rng.choice(by[k])
        chosen.append(p)
        ids.add(id(p))
    rest = [p for p in pool if id(p) not in ids]
    if len(chosen) < want:
        chosen += rng.sample(rest, min(want - len(chosen), len(rest)))
    return chosen


# --------------------------------------------------------------------------
# signatures


def good_cursors(bodies, i):
    """labelling only; the verdict is GoodCursors in StreamCli.tla"""
    c = bodies[i]["c"]
    return {c} | {b["d"] for b in bodies[:i + 1] if b["d"] >= c}


def fruitless_tail(e):
    """labelling only (the verdict is BoundedRetries / CleanFailure in StreamCli.tla): how many bodies in a row, up to
    the last one served, were cut without a new id having come across"""
    bodies, k = e["bodies"], 0
    for i in range(len(bodies) - 1, -1, -1):
        prev = bodies[i - 1]["c"] if i else -1
        if bodies[i]["knd"] == "none" or bodies[i]["c"] != prev:
            break
        k += 1
    return k


def effect_of(inv, e):
    if inv == "NoTruncatedSurfaced":
        return "truncated-surfaced"
    if inv == "ExactlyOnceInOrder":
        for s in (e["rd"], e["notes"]):
            g = [x for x in s if x >= 1]
            if any(g[i] <= g[i - 1] for i in range(1, len(g))):
                return "dup-delivery"
        return "lost-message"
    if inv == "ResumeCursor":
        for i, r in enumerate(e["recon"]):
            if i < len(e["bodies"]) and r["sent"] not in good_cursors(e["bodies"], i):
                return "cursor-lost" if r["sent"] == -1 else "bad-cursor"
        return "bad-cursor"
    if inv == "CleanFailure":
        return "hang"
    if inv == "BoundedRetries":
        return "retries-unbounded"
    if inv == "RealResponseWithinBudget":
        o = e["outcome"]
        if o == "hang":
            return "hang"
        if o == "err":
            return "gave-up" if e["synth"] > 0 else "conn-failed"
        if o == "failed":
            return "conn-failed"
        return "incomplete"
    return inv


def context_of(inv, e):
    bodies, recon = e["bodies"], e["recon"]
    j = None
    for i, r in enumerate(recon):
        if i < len(bodies) and r["sent"] not in good_cursors(bodies, i):
            j = i
            break
    if j is not None and j >= 1 and recon[j]["sent"] == -1:
        # a reconnect without Last-Event-ID although an id had come across on an earlier body: whatever the
        # position and kind of the cut, this body ended before its first id'd event was complete
        return "recut-before-first-id"
    if j is None:
        # the client stopped after the last thing the server did
        if recon and len(recon) == len(bodies) and recon[-1]["outs"] and recon[-1]["outs"][-1] != "ok":
            last = recon[-1]["outs"][-1]
            if ":" in last and inv == "CleanFailure":
                # the resumption was refused with a JSON-RPC error body (ErrBodyAnswers) and the call never ended
                return "reconnect=%s+jsonrpc-error-body" % last.split(":")[0]
            if (last in TRANSIENT or last == "terr") and inv in ("RealResponseWithinBudget", "CleanFailure"):
                # ... and when the bodies before that reconnection had brought nothing new across (the other budget had
                # been drawn on, not exhausted), that is part of the case
                return "reconnect=" + last + ("-after-no-progress" if fruitless_tail(e) >= 1 else "")
        j = len(bodies) - 1
        if inv in ("CleanFailure", "BoundedRetries") and fruitless_tail(e) > e["mr"] + 1:
            # the client was still asking for the stream after more than MaxRetries + 1 bodies in a row had
            # brought nothing new across
            return "no-progress-beyond-budget"
    if j < 0:
        return "nobody"
    b = bodies[j]
    if b["knd"] == "none":
        return "nocut"
    if j >= 1 and b["c"] == bodies[j - 1]["c"]:
        eff = effect_of(inv, e)
        benign = b["knd"] == "err" or b["cls"] in ("bnd", "name", "datafull")
        if benign and eff == "conn-failed" and len(recon) < len(bodies):
            # a resumed body brought no new id across and the client broke the connection without another
            # attempt, although the stretch without progress was still within the budget
            return "no-progress-within-budget"
        # a resumed body that brought no new id across, abandoned with the synthetic error: the same class
        if benign or eff == "gave-up":
            return "recut-before-first-id"
    return "cut=%s@%s" % (KINDNAME.get(b["knd"], b["knd"]), CLSNAME.get(b["cls"], b["cls"]))


def sig_of(inv, e):
    if e["level"] == "scan":
        return "scan:%s@%s:partial-yielded" % (KINDNAME.get(e["knd"], e["knd"]), CLSNAME.get(e["cls"], e["cls"])) \
            if len(e["yielded"]) > e["n"] else "scan:%s@%s:complete-event-dropped" % (KINDNAME.get(e["knd"]), CLSNAME.get(e["cls"]))
    return "%s:%s" % (context_of(inv, e), effect_of(inv, e))


MON_FIELDS = ("level", "kind", "ids", "M", "mr", "rd", "notes", "outcome", "respok", "ret", "div", "exit", "hasexp")
BODY_FIELDS = ("from", "primed", "n", "cls", "knd", "al", "rt", "c", "d")


def slim(r):
    if r["level"] == "scan":
        o = {k: r[k] for k in ("level", "n", "cls", "knd", "yielded", "truth", "ended")}
        o["fx"] = REPAIRED["scanner"]
        return o
    o = {k: r[k] for k in MON_FIELDS}
    o["bodies"] = [{k: b[k] for k in BODY_FIELDS} for b in r["bodies"]]
    o["recon"] = [{"sent": x["sent"], "outs": x["outs"]} for x in r["recon"]]
    x = r["exp"]
    o["exp"] = {"bodies": [{k: b[k] for k in BODY_FIELDS} for b in x["bodies"]],
                "recon": [{"sent": y["sent"], "outs": y["outs"]} for y in x["recon"]],
                "rd": x["rd"], "notes": x["notes"], "outcome": x["outcome"]}
    return o


def simplicity(e):
    if e["level"] == "scan":
        return (0, e["off"])
    return (len(e["bodies"]), sum(len(r["outs"]) for r in e["recon"]), e["M"], e["mr"], 0 if e["level"] == "byte" else 1, e["id"])


def describe(inv, e):
    if e["level"] == "scan":
        return ("scanEvents over a body cut after %d bytes (%d events complete, cut %s/%s) yielded %d events, the last one %s; ended %s"
                % (e["off"], e["n"], e["cls"], e["knd"], len(e["yielded"]), json.dumps(e["yielded"][-1:])[:160], e["ended"]))
    c = e["cfg"]
    more = e.get("more", 0) + max(0, len(e["bodies"]) - 8)
    tail = (" ... and %d more bodies like the last one, each after a reconnect answered 200" % more) if more else ""
    return ("real client violates %s: %s stream ids=%s prime=%s scheme=%s M=%d MaxRetries=%d%s; bodies %s%s; reconnects %s; Read returned %s, "
            "handler saw %s, outcome %s%s" % (
                inv, c["kind"], c["ids"], c["prime"], c["scheme"], c["M"], c["mr"], " stuck server" if c.get("tail") == "stuck" else "",
                [(b["from"], b["n"], b["cls"], b["knd"], "off=%d/%d" % (b["off"], b["len"]), "c=%d" % b["c"]) + (("retry:" + b["rt"],) if b["rt"] != "none" else ())
                 for b in e["bodies"][:8]], tail,
                [(r["sent"], r["raw"], r["outs"]) for r in e["recon"][:8]], e["rd"], e["notes"], e["outcome"],
                (" (" + e["err"][:90] + ")") if e["err"] else ""))


# --------------------------------------------------------------------------



def run_jobs(jobs, budget):
    """jobs: (name, workers, cfg text). Runs them concurrently, never more than `budget` TLC workers at once."""
    results, cond, used = {}, threading.Condition(), [0]

    def one(name, w, txt):
        with cond:
            while used[0] + w > budget:
                cond.wait()
            used[0] += w
        try:
            fn = name.replace(":", "_") + ".cfg"
            results[name] = vlib.run_tlc("StreamCliMC", fn, extra_files={fn: txt}, workers=w, timeout=1800,
                                         heap_gb=1 if name.startswith("wit:") else 4)
        finally:
            with cond:
                used[0] -= w
                cond.notify_all()
    ths = [threading.Thread(target=one, args=j) for j in jobs]
    [t.start() for t in ths]
    [t.join() for t in ths]
    missing = [j[0] for j in jobs if j[0] not in results]
    if missing:
        raise vlib.MachineryError("TLC jobs did not finish: %s" % missing)
    return results


def run(tier, seed, replay):
    ctl = {}
    try:
        return _run(tier, seed, replay, ctl)
    finally:
        if ctl.get("thread") is not None:
            ctl["thread"].join()   # never leave a TLC design check running behind


def _run(tier, seed, replay, ctl):
    v = vlib.Verdict(PID, tier, seed)
    if replay and "e2e_scenario" in (json.load(open(replay)).get("replay") or {}):
        e2echeck.run_e2e(v, PID, tier, seed, json.load(open(replay))["replay"]["e2e_scenario"])
        return v.finish()
    v.assumptions = [
        "time is virtual (testing/synctest); 'never hangs' = the call has returned one virtual hour after the last server action",
        "the scripted server resumes exactly after the event whose id the client sends, answers an id it never issued with 400 "
        "(as the SDK's own server does for a malformed Last-Event-ID), and on a GET without Last-Event-ID continues after the last "
        "message it had at least partly written",
        "retry budget, read conservatively for the verdict: the real response is required when every reconnect sees fewer than "
        "MaxRetries failed attempts (transport error or a transient status: 429, 500, 502, 503, 504 - every member of the class), no "
        "other status (404, 403, 501, 400, 409 - with or without a JSON-RPC error response as body), and fewer than MaxRetries bodies IN A ROW end without a new id "
        "(a body that brings a new id across starts a new stretch: the budget is per stretch without progress, not per logical stream); "
        "beyond that only a clean completion is required (the exact boundary is compared with the model as drift)",
        "an event whose content lines were all received when a body ended CLEANLY but whose blank line was not may or may not "
        "count as received: both resume cursors are accepted, on that reconnect and on later ones until a later id supersedes them "
        "(a client that counted it must also have delivered it, otherwise ExactlyOnceInOrder reports the loss)",
        "the budget also bounds the client (BoundedRetries): after MaxRetries + 1 bodies in a row that brought no new id across it "
        "has given up; a stuck server (every resumption answered 200 with a body that ends at offset 0, for ever) is part of the "
        "environment, and a call still pending after one virtual hour of that is a hang",
        "SSE events are written as the SDK's writeEvent writes them (event, id, data, blank line); one data line per event",
        "the two budgets of MaxRetries (attempts per reconnection; resumptions in a row without a new id) are separate: a run that "
        "stays below both - in every reconnection, whatever the stream's history of fruitless resumptions - must complete; what a "
        "fruitless body carries besides ids (a `retry:` field, an event name, again the id resumed from) is not progress and does "
        "not extend the no-progress budget; the delay a `retry:` field asks for is 0.2-2 s",
        "TLC exhaustive results are for streams of 2-3 messages, MaxRetries 0-2, up to 2 cuts (3 in the reduced configuration); "
        "the budget grid for MaxRetries 2, 3 and 5",
    ]
    out = vlib.outdir(PID)
    rng = random.Random(seed)
    quick = tier == "quick"

    # 1. TLC design checks and vacuity witnesses: started now, joined before the verdict (they do not feed the replay)
    red = '{"bnd", "id", "data", "datafull"}'   # with FixScanner every class inside an event behaves like "data"
    design, dres, derr = [], {}, []
    if not replay:
        both = '{"good", "stuck"}'
        design += [("mc_fixed", 2, cfg_text(fix="TRUE", tail=PROP_INVS, ms="{2}" if quick else "{2, 3}", cuts=2, tails=both,
                                            schemes='{"nested"}' if quick else '{"dec", "nested"}',
                                            classes=red if quick else ALL_CLASSES)),
                   ("mc_asis", 2, cfg_text(tail=ASIS_INVS, ms="{2}" if quick else "{2, 3}", cuts=2, tails=both,
                                           schemes='{"nested"}' if quick else '{"dec", "nested"}')),
                   # the whole status class against the repaired design: every transient status, at every attempt and in
                   # every sequence, is retried within the budget
                   ("mc_status", 1, cfg_text(fix="TRUE", tail=PROP_INVS, ms="{2}", mrs="{1, 2, 3}", cuts=1, shapes="IdShapes",
                                             schemes='{"dec"}', classes='{"bnd", "data"}', answers=STATUS_ANSWERS)),
                   # longer budgets against a stuck server: every run of fruitless bodies ends (Terminates, InvBoundedRetries)
                   ("mc_runs", 1 if quick else 2,
                    cfg_text(fix="TRUE", tail=PROP_INVS, ms="{2}", mrs="{1, 2, 3}", cuts=2, tails=both, shapes="IdShapes", schemes='{"dec"}',
                             classes='{"bnd"}' if quick else '{"bnd", "data"}', answers='{"terr", "ok"}' if quick else '{"terr", "ok", "500"}'))]
        # the two budgets crossed, against the repaired design: below both budgets the call always completes, above the
        # no-progress budget the client has given up - whatever the fruitless bodies carry
        bc = "Budgets1" if quick else "Budgets2"
        design += [("mc_budget", 1, budget_cfg(bc, mrs="{3}" if quick else "{2, 3}", fix="TRUE", tail="CONSTRAINT %s\n%s" % (bc, PROP_SAFETY)))]
        base = cfg_text(tail="", ms="{2}", cuts=2, schemes='{"dec"}', classes='{"bnd", "data"}', tails=both)
        design += [("wit:" + w, 1, base.replace("CHECK_DEADLOCK", "INVARIANT %s\nCHECK_DEADLOCK" % w)) for w in WITNESSES]
        design += [("wit:NeverRefusedWithErrBody", 1,
                    cfg_text(tail="INVARIANT NeverRefusedWithErrBody", kinds='{"post"}', shapes="FirstOnly", ms="{2}", mrs="{1, 2}", cuts=1,
                             schemes='{"dec"}', classes='{"bnd"}', answers=ERRBODY_ANSWERS))]

    def run_design():
        try:
            dres.update(run_jobs(design, 3))
        except Exception as ex:  # re-raised in the main thread
            derr.append(ex)
    dthread = threading.Thread(target=run_design)
    dthread.start()
    ctl["thread"] = dthread

    # 2. behaviours exported by TLC
    jobs = [
        ("gen1", 1, cfg_text(cuts=1, answers='{"terr", "ok", "500", "404"}')),
        ("gen2", 1, cfg_text(cuts=2, shapes="TwoShapes", schemes='{"nested"}', ms="{2}", mrs="{1, 2}", answers='{"terr", "ok", "429", "403"}')),
        ("gen3", 1, cfg_text(cuts=3, shapes="PrimedShapes", schemes='{"dec"}', ms="{2}", mrs="{1, 2}",
                             classes='{"bnd", "idfull", "data"}' if quick else '{"bnd", "name", "idfull", "data", "datafull"}',
                             answers='{"terr", "ok"}')),
        ("gen1L", 1, cfg_text(cuts=1, kinds='{"post"}', shapes="FirstOnly", schemes='{"dec"}', ms="{12}", mrs="{2}", answers='{"ok"}')),
        # long scripts: bodies that bring a new id across alternate with bodies that bring none (up to 6 cuts), with
        # failed attempts in between: the budget is per stretch without progress, not per logical stream
        ("genI", 1, cfg_text(cuts=6, shapes="TwoShapes", schemes='{"dec"}', ms="{3}", mrs="{2}", classes='{"bnd"}',
                             answers='{"terr", "ok", "504"}', tail="CONSTRAINT Interleaved\nINVARIANTS Export")),
        # runs of k resumed bodies that end at offset 0 (200, then a read error or a clean EOF before the first event),
        # k = 1 .. MaxRetries + 1 after a first cut anywhere, then a whole body: the client makes progress or gives up
        ("genR", 1, cfg_text(cuts=5, shapes="IdShapes", schemes='{"dec"}', ms="{2}", mrs="{1, 2, 3}", classes='{"bnd", "data"}',
                             answers='{"terr", "ok", "502"}', tail="CONSTRAINT Runs\nINVARIANTS Export")),
        # the same against a stuck server: after two scripted cuts every later body ends at offset 0 too, for ever
        ("genK", 1, cfg_text(cuts=2, shapes="IdShapes", schemes='{"dec"}', ms="{2}", mrs="{1, 2, 3}", classes='{"bnd", "data"}',
                             answers='{"terr", "ok", "500"}', tails='{"stuck"}', tail="CONSTRAINT Runs\nINVARIANTS Export")),
        # the status class: single cuts on event boundaries, every sequence of answers over every status
        ("genS", 1, cfg_text(cuts=1, shapes="TwoShapes", schemes='{"dec"}', ms="{2}", mrs="{1, 2}" if quick else "{1, 2, 3}",
                             classes='{"bnd"}', answers=FULL_ANSWERS)),
        # the two budgets crossed: the grid for MaxRetries 2 and 3 (failed attempts in one reconnection; thorough: in two, and
        # streams without a priming event too) ...
        ("genB", 1, budget_cfg("Budgets1", mrs="{2, 3}") if quick else budget_cfg("Budgets2", mrs="{2, 3}", shapes="TwoShapes")),
        # ... and every sequence of attempt outcomes for MaxRetries 1 and 2
        ("genBA", 1, budget_cfg("BudgetsAll", mrs="{1, 2}", kinds='{"post"}' if quick else '{"post", "sa"}')),
        # a resumption refused with a JSON-RPC error body: first cut on an event boundary after an id, then every sequence of
        # refused / 503 attempts that ends with 400 / 409 / 404 + error body (id own, other, null) at attempt 1 or 2
        ("genJ", 1, cfg_text(cuts=1, shapes="FirstOnly", schemes='{"dec"}', ms="{2}", mrs="{1, 2}", classes='{"bnd"}',
                             answers=ERRBODY_ANSWERS, tail="CONSTRAINT JsonErr\nINVARIANTS ExportJsonErr")),
    ]
    GEN = ("gen1", "gen2", "gen3", "gen1L", "genI", "genR", "genK", "genS", "genB", "genBA", "genJ")
    if not quick:
        # ... and the grid at the documented default, MaxRetries left unset (= 5)
        jobs.append(("genB5", 1, budget_cfg("Budgets1", mrs="{5}", cuts=7)))
        GEN += ("genB5",)
    try:
        results = run_jobs(jobs, 3)
    except Exception:
        dthread.join()
        raise
    for name, _, _ in jobs:
        res = results[name]
        vlib.tlc_must_pass(res, name)
        v.add_tlc("StreamCli %s (behaviour export)" % name, res)
        if not res.ok:
            dthread.join()
            raise vlib.MachineryError("StreamCli.tla %s failed (%s)" % (name, res.violation))
    exported = {}
    for name in GEN:
        ps = [p for p in results[name].printed if isinstance(p, dict) and "exp" in p and "cfg" in p]
        if name == "genK":
            # only behaviours in which the stuck tail was engaged (the others are behaviours of the good server)
            ps = [p for p in ps if ncuts(p) > 2]
        ps.sort(key=lambda p: json.dumps(p, sort_keys=True))
        exported[name] = ps
    exported.setdefault("genB5", [])
    nowit = set(BUDGET_WITNESSES) - {w for p in exported["genB"] for w in p.get("wit", [])}
    if nowit:
        raise vlib.MachineryError("vacuity: no behaviour of the budget family is a witness of %s" % sorted(nowit))
    # the new answer class must have been generated in full: every member at attempt 1 and at attempt 2, for a pending call
    seenj = {(o, len(r["outs"])) for p in exported["genJ"] if p["cfg"]["kind"] == "post" for r in p["exp"]["recon"] for o in r["outs"][-1:]}
    if {(a, n) for a in ERRBODY for n in (1, 2)} - seenj:
        raise vlib.MachineryError("vacuity: genJ lacks %s" % sorted({(a, n) for a in ERRBODY for n in (1, 2)} - seenj)[:6])
    t_tlc = time.time() - v.t0
    if len(exported["gen1"]) < 5000 or len(exported["gen2"]) < 5000 or len(exported["gen3"]) < 1000 or \
            len(exported["genR"]) < 200 or len(exported["genK"]) < 100 or len(exported["genS"]) < 300 or \
            len(exported["genB"]) < 2000 or len(exported["genBA"]) < 5000 or (not quick and len(exported["genB5"]) < 5000):
        raise vlib.MachineryError("TLC exported too few behaviours: %s" % {k: len(x) for k, x in exported.items()})
    v.cov["behaviours_exported"] = {k: len(x) for k, x in exported.items()}
    v.cov["leads_predicted_by_model"] = {k: sum(1 for p in x if p["viol"]) for k, x in exported.items()}

    # single-cut table for the byte level: (cfg, cut) -> expectation when every reconnect is answered ok
    table = {}
    for name in ("gen1", "gen1L"):
        for p in exported[name]:
            x = p["exp"]
            if not x["bodies"] or any(o not in ("ok", "400") for r in x["recon"] for o in r["outs"]):
                continue
            b = x["bodies"][0]
            later_cut = any(bb["knd"] != "none" and not (bb["cls"] == "bnd" and bb["knd"] == "eof" and p["cfg"]["kind"] == "post"
                                                         and bb["from"] >= p["cfg"]["M"]) for bb in x["bodies"][1:])
            if later_cut:
                continue
            table[(cfg_key(p["cfg"]), cut_key(b) if b["knd"] != "none" else None)] = p

    # 3. scenarios
    cases, meta = [], {}
    refs = REFS_QUICK if quick else REFS_THOROUGH
    if replay:
        rep = json.load(open(replay))["replay"]
        cases = [rep["case"]]
        seeds = [rep["seed"]]
        if rep.get("exp"):
            meta[rep["case"]["id"]] = rep["exp"]
    else:
        want = {"gen1": 3500 if quick else 10 ** 9, "gen2": 2000 if quick else 10 ** 9, "gen3": 2000 if quick else 40000,
                "genI": 1500 if quick else 10 ** 9, "genR": 1500 if quick else 10 ** 9, "genK": 500 if quick else 10 ** 9,
                "genS": 10 ** 9, "genB": 10 ** 9, "genBA": 500 if quick else 10 ** 9, "genB5": 10 ** 9, "genJ": 10 ** 9}
        for name in REPLAYED:
            pool = exported[name]
            if name not in ("gen1", "genS", "genJ") + BUDGET_GENS:
                pool = [p for p in pool if ncuts(p) >= 2]
            chosen = []
            if name == "genR":
                # always include, for every budget and every run length k = 1 .. MaxRetries + 1, the plain scripts: a first
                # body that brings an id across, k resumed bodies that end at offset 0, every reconnect answered 200
                plain = [p for p in pool if run_length(p) is not None and all(r["outs"] == ["ok"] for r in p["exp"]["recon"])]
                chosen = rng.sample(plain, min(500 if quick else len(plain), len(plain)))
                have = {(p["cfg"]["mr"], run_length(p)) for p in chosen}
                for p in plain:
                    if (p["cfg"]["mr"], run_length(p)) not in have:
                        have.add((p["cfg"]["mr"], run_length(p)))
                        chosen.append(p)
                ids_ = {id(p) for p in chosen}
                pool = [p for p in pool if id(p) not in ids_]
            if name == "genI":
                # always include scripts that use all six cuts and that the model completes: more fruitless bodies in
                # total than the budget allows in a row, yet never that many in a row
                full = [p for p in pool if ncuts(p) >= 6 and p["exp"]["outcome"] in ("resp", "open")]
                chosen = rng.sample(full, min(400 if quick else len(full), len(full)))
                ids_ = {id(p) for p in chosen}
                pool = [p for p in pool if id(p) not in ids_]
            for i, p in enumerate(chosen + pick(pool, max(0, want[name] - len(chosen)), rng)):
                cuts, rc = script_of(p["exp"])
                cid = "%s.%s" % (name, vlib.sha([p["cfg"], cuts, rc]))
                if cid in meta:
                    continue
                meta[cid] = p
                cases.append({"id": cid, "level": "abs", "cfg": p["cfg"], "cuts": cuts, "rc": rc})
                if name == "genB5":
                    cases[-1]["dflt"] = True   # StreamableClientTransport.MaxRetries left unset: "It defaults to 5."
        for rid, c in refs:
            cases.append({"id": rid, "level": "byte", "cfg": c, "cuts": [], "rc": []})
            cases.append({"id": rid + "s", "level": "scan", "cfg": c, "cuts": [], "rc": []})
        seeds = [seed]
    cases_path = os.path.join(out, "cases.ndjson")
    vlib.write_ndjson(cases_path, cases)

    # 4. real code
    rows = []
    for sd in seeds:
        part = os.path.join(out, "obs-%d.ndjson" % sd)
        rc_, gout, wall = vlib.go_test("mcp", "^TestVerif_C09$", ["mcp/c09_streamcli_test.go"],
                                       env={"VERIF_IN": cases_path, "VERIF_OUT": part, "VERIF_SEED": sd}, timeout=1500)
        vlib.go_must_build(rc_, gout, PID)
        if rc_ != 0:
            if "panic:" in gout or "fatal error:" in gout:
                v.violation("panic", "the SDK panicked while a stream-cut scenario was running", {"output": gout[-4000:], "seed": sd})
                return v.finish()
            raise vlib.MachineryError("C09 harness failed:\n" + gout[-3000:])
        part_rows = vlib.read_ndjson(part)
        for r in part_rows:
            r["seed"] = sd
        rows += part_rows
        os.remove(part)
    t_go = time.time() - v.t0 - t_tlc
    nabs = sum(1 for c in cases if c["level"] == "abs")
    if sum(1 for r in rows if r["level"] == "abs") != nabs * len(seeds):
        raise vlib.MachineryError("harness ran %d of %d abstract scenarios" % (sum(1 for r in rows if r["level"] == "abs"), nabs))

    # attach the model's expectation
    dummy = {"bodies": [], "recon": [], "rd": [], "notes": [], "outcome": "", "respok": True}
    noexp = 0
    for r in rows:
        if r["level"] == "scan":
            continue
        p = None
        if r["level"] == "abs":
            p = meta.get(r["id"])
        elif r["bodies"]:
            b = r["bodies"][0]
            p = table.get((cfg_key(r["cfg"]), cut_key(b) if b["knd"] != "none" else None))
        if p is not None and "exp" in p:
            r["exp"], r["hasexp"], r["pred"] = p["exp"], True, sorted(p["viol"])
        else:
            r["exp"], r["hasexp"], r["pred"] = dummy, False, None
            noexp += 1
    vlib.write_ndjson(os.path.join(out, "obs_full.ndjson"), rows)
    obs_path = os.path.join(out, "obs.ndjson")   # what the monitor reads: the same lines without the fields it does not use
    vlib.write_ndjson(obs_path, [slim(r) for r in rows])

    # 5. monitor: the verdict
    fails, mres = vlib.run_monitor("StreamCliMon", "StreamCliMon.cfg", obs_path, timeout=1800, heap_gb=8)
    v.add_tlc("StreamCliMon", mres)
    by_line = {}
    for f in fails:
        by_line.setdefault(f["line"], []).append(f["monfail"])

    # coverage
    v.cov["model_of_the_code"] = {"FixScanner": REPAIRED["scanner"], "FixCursor": REPAIRED["cursor"], "Fix5xx": REPAIRED["5xx"]}
    v.cov["phase_wall_s"] = {"tlc_design_and_export": round(t_tlc, 1), "go_replay": round(t_go, 1), "monitor": round(mres.wall, 1)}
    v.cov["traces_validated_against_impl"] = len(rows)
    v.cov["evaluations"] = len(rows)
    lv = {}
    distinct = set()
    cut_classes = set()
    for r in rows:
        lv[r["level"]] = lv.get(r["level"], 0) + 1
        if r["level"] == "scan":
            cut_classes.add(("scan", r["cls"], r["knd"]))
            continue
        key = (cfg_key(r["cfg"]), tuple((b["from"], b["n"], b["cls"], b["knd"], b["al"]) for b in r["bodies"]),
               tuple((x["sent"], tuple(x["outs"])) for x in r["recon"]))
        if any(b["knd"] != "none" for b in r["bodies"]):
            distinct.add(key)
        for b in r["bodies"]:
            cut_classes.add((r["kind"], b["cls"], b["knd"]))
    v.cov["scenarios_by_level"] = lv
    v.cov["distinct_nontrivial"] = len(distinct)
    v.cov["cut_classes_exercised"] = len(cut_classes)
    v.cov["multi_cut_scenarios"] = sum(1 for r in rows if r["level"] != "scan" and sum(1 for b in r["bodies"] if b["knd"] != "none") >= 2)
    runs, after = {}, {}
    for r in rows:
        if r["level"] == "scan":
            continue
        k = run_length({"exp": r, "cfg": r["cfg"]})
        if k:
            key = "mr=%d" % r["mr"]
            runs.setdefault(key, set()).add(k + r.get("more", 0))
        for x in r["recon"]:
            for a, b in zip(x["outs"], x["outs"][1:] + [None]):
                if a in TRANSIENT:
                    after.setdefault(a, set()).add("last" if b is None else "retried")
    v.cov["empty_resumption_run_lengths_after_progress"] = {k: sorted(x) for k, x in sorted(runs.items())}
    v.cov["stuck_server_scenarios"] = sum(1 for r in rows if r["level"] != "scan" and r["cfg"].get("tail") == "stuck")
    v.cov["transient_statuses_answering_a_reconnect"] = {k: sorted(x) for k, x in sorted(after.items())}
    v.cov["reconnect_answers_seen"] = sorted({o for r in rows if r["level"] != "scan" for x in r["recon"] for o in x["outs"]})
    # the budget grid: which (fruitless bodies in a row before a reconnection, failed attempts in it) cells were run, per budget
    grid, retry_runs = {}, {}
    for r in rows:
        if r["level"] != "abs" or r["id"].split(".")[0] not in BUDGET_GENS:
            continue
        kj = crossing(r["exp"]) if r.get("hasexp") else None   # the cell the script was generated for (the model's behaviour)
        if kj:
            grid.setdefault(r["mr"], set()).add(kj)
        run = [b for b in r["bodies"][1:] if b["knd"] != "none" and b["cls"] == "bnd" and b["n"] == 0 and b["rt"] != "none"]
        if run:
            retry_runs.setdefault("%s/mr=%d" % (run[0]["rt"], r["mr"]), set()).add(len(run) + r.get("more", 0))
    v.cov["budget_grid_cells_run"] = {"mr=%d" % m: "%d cells, k=0..%d x j=1..%d" % (len(c), max(k for k, _ in c), max(j for _, j in c))
                                      for m, c in sorted(grid.items())}
    v.cov["retry_only_run_lengths"] = {k: ("1..%d" % max(x)) if sorted(x) == list(range(1, max(x) + 1)) else sorted(x)
                                       for k, x in sorted(retry_runs.items())}
    if not replay:
        for m in ((2, 3) if quick else (2, 3, 5)):
            # every cell below both budgets, the cells at both budgets and one beyond the no-progress budget must have been run
            need = {(k, j) for k in range(0, m + 1) for j in range(1, m + 1)}
            if need - grid.get(m, set()):
                raise vlib.MachineryError("budget grid: cells %s were not run for MaxRetries=%d" % (sorted(need - grid.get(m, set()))[:8], m))
    v.cov["byte_offsets_enumerated"] = {rid: sum(1 for r in rows if r["level"] == "byte" and r["id"].startswith(rid + "/")) for rid, _ in refs} if not replay else {}
    v.cov["without_model_expectation"] = noexp
    v.cov["rule"] = ("abs = TLC-exported terminal behaviours of the as-is StreamCli.tla (every single-cut behaviour over kind x id shape x id "
                     "spelling x M in {2,3} x MaxRetries in {0,1,2}; two- and three-cut behaviours of reduced configurations; runs of 1..MaxRetries+1 "
                     "resumed bodies ending at offset 0, MaxRetries in {1,2,3}, against a server that recovers and against a stuck one; every "
                     "answer sequence over the status class {429,500,502,503,504} + transport error + {404,403,501}; the two budgets crossed: "
                     "per attempt refused / 503 / 200 empty / 200 with a retry-only event (bare, named, with the resumed id) / 200 with the rest, "
                     "every sequence for MaxRetries 1-2, a resumption refused at attempt 1 or 2 with 400 / 409 / 404 and a JSON-RPC error body (id of the "
                     "pending call, another id, null), the grid (0..MaxRetries+1 fruitless bodies x 1..MaxRetries failed attempts, every "
                     "position) for MaxRetries 2, 3 and - thorough - the default 5 with the option unset; quick tier: one per "
                     "abstract class plus a seeded sample), byte = every byte offset of the first body of each reference stream x {read error, "
                     "clean EOF} on a real session, scan = the same offsets through scanEvents alone; distinct = (configuration, bodies served "
                     "with their cuts, reconnects with their answers); non-trivial = at least one body was cut")
    ran = {n: sum(1 for c in cases if c["id"].startswith(n + ".")) for n in REPLAYED}
    v.cov["behaviours_replayed"] = ran
    v.cov["exhaustive_parts"] = {"single_cut_behaviours": (not replay) and ran["gen1"] == len(exported["gen1"]),
                                 "two_cut_behaviours_reduced_cfg": (not replay) and ran["gen2"] == sum(1 for p in exported["gen2"] if ncuts(p) >= 2),
                                 "three_cut_behaviours_reduced_cfg": (not replay) and ran["gen3"] == sum(1 for p in exported["gen3"] if ncuts(p) >= 2),
                                 "interleaved_progress_scripts_reduced_cfg": (not replay) and ran["genI"] == sum(1 for p in exported["genI"] if ncuts(p) >= 2),
                                 "empty_resumption_runs_reduced_cfg": (not replay) and ran["genR"] == sum(1 for p in exported["genR"] if ncuts(p) >= 2),
                                 "stuck_server_runs_reduced_cfg": (not replay) and ran["genK"] == sum(1 for p in exported["genK"] if ncuts(p) >= 2),
                                 "answer_sequences_over_status_class": (not replay) and ran["genS"] == len(exported["genS"]),
                                 "budget_grid": (not replay) and ran["genB"] == len(exported["genB"]) and ran["genB5"] == len(exported["genB5"]),
                                 "budget_all_attempt_sequences_mr_1_2": (not replay) and ran["genBA"] == len(exported["genBA"]),
                                 "resumption_refused_with_jsonrpc_error_body": (not replay) and ran["genJ"] == len(exported["genJ"]),
                                 "byte_offsets_of_reference_bodies": not replay}
    v.cov["exhaustive"] = all(v.cov["exhaustive_parts"].values())
    shown = 0
    for r in rows:
        if r["level"] != "scan" and len(r["bodies"]) >= 2 and shown < 5 and r["outcome"] in ("resp", "open"):
            v.sample({k: r[k] for k in ("id", "cfg", "bodies", "recon", "rd", "notes", "outcome", "ret")})
            shown += 1

    # the design checks must have passed
    dthread.join()
    if derr:
        raise derr[0]
    for name, _, _ in design:
        res = dres[name]
        if name.startswith("wit:"):
            if res.violation != name[4:]:
                raise vlib.MachineryError("vacuity: witness %s not reachable (%s)" % (name[4:], res.error or res.violation))
            continue
        vlib.tlc_must_pass(res, name)
        v.add_tlc("StreamCli " + name, res)
        if not res.ok:
            raise vlib.MachineryError("StreamCli.tla %s: design check failed (%s)" % (name, res.violation))

    # verdicts
    confirmed, unconfirmed, unpredicted = 0, 0, 0
    seen_sig = {}
    for i, r in enumerate(rows, 1):
        invs = by_line.get(i, [])
        real = sorted(x for x in invs if x != "drift")
        if "drift" in invs:
            if r["level"] == "scan":
                v.drift.append("scanEvents %s off=%d (%s/%s): yielded %d events, ended %s — differs from the code-shaped expectation" % (
                    r["id"], r["off"], r["cls"], r["knd"], len(r["yielded"]), r["ended"]))
            else:
                v.drift.append("%s %s: observed bodies/reconnects/deliveries differ from StreamCli.tla: got outcome=%s rd=%s recon=%s bodies=%s exit=%s; model %s" % (
                    r["level"], r["id"], r["outcome"], r["rd"], [(x["sent"], x["outs"]) for x in r["recon"][:10]],
                    [(b["from"], b["n"], b["cls"], b["knd"]) for b in r["bodies"][:10]] + (["+%d more" % (len(r["bodies"]) - 10 + r.get("more", 0))]
                                                                                         if len(r["bodies"]) > 10 else []), r["exit"][:60],
                    json.dumps({k: r["exp"][k] for k in ("outcome", "rd")}) if r["hasexp"] else "has no matching behaviour"))
        if r["level"] != "scan" and r.get("pred") is not None:
            if r["pred"] and set(r["pred"]) <= set(real):
                confirmed += 1
            elif r["pred"]:
                unconfirmed += 1
            if set(real) - set(r["pred"]):
                unpredicted += 1
        if real:
            # one signature per failing scenario: the class of the cut that caused it x the first symptom in the
            # order delivery, cursor, hang, missing response; every failed invariant is named in the description
            inv = min(real, key=PRIORITY.index)
            sig = sig_of(inv, r)
            k = seen_sig.setdefault(sig, [0, inv, r, real])
            k[0] += 1
            if simplicity(r) < simplicity(k[2]):   # report the simplest scenario of the class
                k[1], k[2], k[3] = inv, r, real
    v.cov["leads_confirmed_on_real_code"] = confirmed
    v.cov["leads_not_reproduced"] = unconfirmed
    v.cov["violations_not_predicted_by_model"] = unpredicted
    v.cov["monitor_failures"] = sum(k[0] for k in seen_sig.values())
    v.cov["signatures"] = {s: k[0] for s, k in sorted(seen_sig.items())}
    for sig, (n, inv, r, real) in sorted(seen_sig.items()):
        if r["level"] == "scan":
            case = {"id": r["id"].split("/")[0], "level": "scan", "cfg": r["cfg"], "cuts": [], "rc": []}
        else:
            case = {"id": r["id"], "level": "abs", "cfg": r["cfg"], "lay": r["id"].split("/")[0] if r["level"] == "byte" else r["id"],
                    "cuts": [{"n": b["n"], "cls": b["cls"], "knd": b["knd"], "al": b["al"], "off": b["off"], "rt": b["rt"]} for b in r["bodies"]],
                    "rc": [x["outs"] for x in r["recon"]]}
            if r["id"].startswith("genB5."):
                case["dflt"] = True
        v.violation(sig, "%s [all failed: %s] (%d scenarios with this signature)" % (describe(inv, r), ",".join(real), n),
                    {"case": case, "seed": r["seed"], "observation": r, "exp": ({"exp": r["exp"], "viol": r["pred"]} if r.get("hasexp") else None)})
    if not replay:   # the end-to-end part (spec/StreamE2E.tla): real client against the real server with an event store
        e2echeck.run_e2e(v, PID, tier, seed)
    return v.finish()
