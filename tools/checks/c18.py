"""C18 — change notifications are never lost, reach only entitled sessions, beat caches
(DESIGN.md section 5.8 / section 6 C18 / section 9 lead 7; pattern P2 under testing/synctest).

  1. design   spec/Notify.tla is model-checked exhaustively on bounded configurations (NotifyMC / Notify_mc_*.cfg):
              the debounce timer exactly as changeAndNotify handles it (armed / firedPending, Reset in the window,
              orphaned timers), the legacy / subscribed fan-out, the capability gate, resource subscriptions,
              sessions connecting / subscribing / unsubscribing / closing, and the client cache with the fill and the
              notification handling as two steps each; ONE subscriptions/listen request over several URIs of which the
              server's SubscribeHandler refuses any subset, one turn of the server's loop per step (Notify_mc_listen*.cfg:
              no URI of a failed request stays subscribed, SubsOnlyCurrent); feature sets with a SIZE (0 included) that
              add / rm / clear changes empty and refill, under a listChanged capability that is fixed (explicit entry or
              Has* option) or INFERRED from the features registered at the moment, sessions being told at their handshake
              what the server advertises then (Notify_mc_caps*.cfg: whoever was told is owed the notification for every
              later change - the one that removes the last feature included - and nobody else is).  Reachability witnesses
              guard against vacuity.
  2. leads    configurations in which TLC is EXPECTED to find a counterexample (Notify_lead_*.cfg, run on NotifyGen so
              that the counterexample carries its scenario): the clean-up of a cancelled URI listen stream that deletes a
              newer subscription.  A lead is never a verdict: its scenario is replayed on the real code.
     witness  the cache fill racing an invalidation was repaired in the SDK (generation check, f71bafa): the model follows
              the repair (GenCheck = TRUE: TLC proves Fresh with a positive ttl and every interleaving) and keeps the old
              behaviour behind the switch; Notify_lead_cache/read.cfg run with GenCheck = FALSE and TLC must still find
              the stale fill (sensitivity), whose "hold put" scenario stays in the replay set: a regression of the repair
              is a VIOLATION cache:stale-fill-after-invalidate:<kind> on the real code.  Likewise the listen clean-up that
              dropped a session's list-changed subscriptions (5eb4542; switch ListenOwns, witness Notify_lead_unsub.cfg,
              regression signature NeverLost:modern:uri-unsubscribe-drops-list-changed; Notify_mc_unsub.cfg proves
              NeverLost with modern URI unsubscribes).  Notify_lead_listen.cfg is a sensitivity witness of the same kind for
              a defect class the SDK never had (FailUndo = FALSE: a listen request that fails at its k-th URI leaves the
              k-1 URIs it had entered behind): TLC must find UpdatedExactlySubscribers violated, and the scenario is replayed
              (on correct code the monitor stays silent).  Notify_lead_caps.cfg likewise (SendGate = "effective": the server
              decides whether to notify on the capability as it would be advertised after the change, so the removal of the
              last feature of an inferred capability is never announced): TLC must find NeverLost violated; the scenario is
              replayed for every notification and both eras (regression signature NeverLost:<era>:<n>-set-emptied:<mode>).
              Notify_lead_cold.cfg / Notify_lead_coldread.cfg (ColdBump = FALSE: an invalidation that finds nothing cached - no page
              of the list cache, nothing under the URI in the read cache - skips the generation bump): the fill races the
              notification while the cache is EMPTY - at the first call ever, empty again after an earlier notification had
              emptied it, empty again after everything in it expired (Expire) - as directed scenario families (NotifyGen!Script*);
              TLC must refute Fresh for each, and each is replayed for every kind, with one page and with several (stale first
              page glued to fresh later pages), and for resources/read.
  3. generate spec/NotifyGen.tla (scenario discipline, history of environment actions): every complete behaviour of a
              small timing configuration (1-2 changes, 3 in the thorough tier, against the timer window, sessions
              closing in between) and seeded simulations of three larger configurations.
  4. replay   harness/mcp/c18_notify_test.go runs every scenario on a real Server and real Client sessions under
              synctest; race steps (a change at the timer's instant) are repeated and the observed order is counted.
  5. verdict  spec/NotifyMon.tla (TLC over obs.ndjson).  Differences between the model's projection and the real
              server / client state after each step are DRIFT (exit 0).
"""
import json, os, random, re, threading
import vlib

PID = "C18"
TLC_WORKERS = 4
LEGACY_PROTOS = ["2025-11-25", "2025-06-18", "2025-03-26"]
NOTIFS = ("tools", "prompts", "resources")
KINDS = ("tools", "prompts", "resources", "templates")
NOTIF_OF = {"tools": "tools", "prompts": "prompts", "resources": "resources", "templates": "resources"}
WANT_ALL = list(NOTIFS)
CLOBBER_SIG = "NeverLost:modern:uri-unsubscribe-drops-list-changed"
# lead families whose defect the SDK does not have (repaired, or never present): TLC must find them with the switch off
WITNESS = {"cache": "LeadFresh", "unsub": "LeadNeverLost", "listen": "LeadUpdated", "caps": "LeadNeverLost",
           "cold": "LeadFresh", "coldread": "LeadFresh"}
# the fill races the notification while the cache is EMPTY: at the first call ever, or empty AGAIN after an invalidation /
# after expiry (directed families NotifyGen!Script*: TLC chooses arguments and interleavings and must refute Fresh with
# ColdBump = FALSE; the undirected search for the first-call race is Notify_lead_cache/read.cfg)
COLD = {"first": {"Script": "<- ScriptFirst"},
        "refill": {"Script": "<- ScriptRefill", "MaxChanges": "= 2", "MaxCalls": "= 3", "MaxSteps": "= 11"},
        "expired": {"Script": "<- ScriptExpired", "MaxCalls": "= 3", "MaxSteps": "= 9"}}
COLDREAD = {"first": {"Script": "<- ScriptReadFirst"},
            "refill": {"Script": "<- ScriptReadRefill", "MaxUpdates": "= 2", "MaxCalls": "= 3", "MaxSteps": "= 9"},
            "expired": {"Script": "<- ScriptReadExpired", "MaxCalls": "= 3", "MaxSteps": "= 9"}}
# kinds of a notification (configurations about the feature sets becoming empty) and their initial sizes in the model
CAPS_KINDS = {"tools": ["tools"], "prompts": ["prompts"], "resources": ["resources", "templates"]}
DIR_OP = {"add": "add", "rm": "rm1", "clear": "clear"}
RESUB_SIG = "UpdatedExactlySubscribers:missing:modern:stale-unsubscribe-overtakes-resubscribe"


# ---------------------------------------------------------------------------
# TLC helpers


def cfg_text(name, **subst):
    """Text of spec/<name> with `  Const = value` lines replaced."""
    txt = open(os.path.join(vlib.SPEC, name)).read()
    for k, val in subst.items():
        if k == "INVARIANTS":
            txt = re.sub(r"(?m)^INVARIANTS .*$", "INVARIANTS " + val, txt)
            continue
        txt, n = re.subn(r"(?m)^  %s (=|<-) .*$" % k, "  %s %s" % (k, val), txt)
        if n != 1:
            raise vlib.MachineryError("cfg %s has no constant %s" % (name, k))
    return txt


def tla_set(xs):
    return "= {" + ", ".join('"%s"' % x for x in xs) + "}"


def parallel(jobs, width=4):
    """jobs: list of (key, fn). Runs at most `width` at a time; returns {key: result}."""
    out, lock, sem = {}, threading.Lock(), threading.Semaphore(width)

    def wrap(k, fn):
        with sem:
            try:
                r = fn()
            except Exception as e:  # noqa
                r = e
        with lock:
            out[k] = r
    ths = [threading.Thread(target=wrap, args=j) for j in jobs]
    [t.start() for t in ths]
    [t.join() for t in ths]
    for k, r in out.items():
        if isinstance(r, Exception):
            raise r
    return out


def front(v, tier, seed):
    """Design check, vacuity witnesses, leads and behaviour generation: independent TLC runs, at most 4 side by side.
    Returns (lead scenarios, generated behaviours)."""
    jobs, order = [], []

    def add(key, fn):
        jobs.append((key, fn))
        order.append(key)

    def tlc(module, cfgname, text=None, **kw):
        def f():
            extra = {"run.cfg": text} if text is not None else None
            return vlib.run_tlc(module, "run.cfg" if text is not None else cfgname, workdir=vlib.scratch("tlc-"),
                                extra_files=extra, **kw)
        return f

    # 1. design
    mcs = ["Notify_mc_cache.cfg", "Notify_mc_core.cfg", "Notify_mc_shared.cfg", "Notify_mc_ttl.cfg",
           "Notify_mc_timed.cfg", "Notify_mc_off.cfg", "Notify_mc_read.cfg", "Notify_mc_unsub.cfg"]
    mcs.append("Notify_mc_listen.cfg" if tier == "quick" else "Notify_mc_listen_t.cfg")
    mcs += ["Notify_mc_caps.cfg", "Notify_mc_caps_shared.cfg" if tier == "quick" else "Notify_mc_caps_shared_t.cfg"]
    if tier == "thorough":
        mcs = ["Notify_mc_cache_t.cfg", "Notify_mc_core_t.cfg"] + mcs
    for c in mcs:
        add(("mc", c), tlc("NotifyMC", c, workers=2, timeout=1500, heap_gb=6))
    # 1b. vacuity: each witness must be violated
    wits = [("Notify_mc_core.cfg", w) for w in ("NeverWindow", "NeverOrphan", "NeverGot", "NeverStopped")]
    wits += [("Notify_mc_ttl.cfg", "NeverHit"), ("Notify_mc_timed.cfg", "NeverWindow"), ("Notify_mc_timed.cfg", "NeverOrphan"),
             ("Notify_mc_listen.cfg", "NeverPartial"), ("Notify_mc_caps.cfg", "NeverEmptied"), ("Notify_mc_caps.cfg", "NeverUntold")]
    for c, w in wits:
        add(("wit", c, w), tlc("NotifyMC", c, cfg_text(c, INVARIANTS=w), workers=1, timeout=600, heap_gb=2))
    # 2. leads
    # (the list-cache witnesses are searched for "tools"; the model is symmetric in the kind: run() replays them for every kind)
    lds = [(("cache", "tools"), "Notify_lead_cache.cfg", {})]
    lds.append((("cache", "read"), "Notify_lead_read.cfg", {}))
    lds += [(("cold", x), "Notify_lead_cold.cfg", sub) for x, sub in COLD.items()]
    lds += [(("coldread", x), "Notify_lead_coldread.cfg", sub) for x, sub in COLDREAD.items()]
    lds += [(("unsub", k), "Notify_lead_unsub.cfg", {"Kinds": tla_set([k])}) for k in NOTIFS]
    lds.append((("resub", "u1"), "Notify_lead_resub.cfg", {}))
    lds.append((("listen", "u1u2"), "Notify_lead_listen.cfg", {}))
    lds += [(("caps", n), "Notify_lead_caps.cfg", {"Kinds": tla_set(ks)}) for n, ks in CAPS_KINDS.items()]
    for key, c, sub in lds:
        add(("lead",) + key, tlc("NotifyGen", c, cfg_text(c, **sub), workers=1, timeout=900, heap_gb=3))
    # 3. generation
    wcfg = "Notify_gen_window.cfg" if tier == "quick" else "Notify_gen_window_t.cfg"
    add(("gen", "window"), tlc("NotifyGen", wcfg, workers=2, timeout=1500, heap_gb=6))
    exh = (("cachex_list", "Notify_gen_cachex_list.cfg"), ("cachex_read", "Notify_gen_cachex_read.cfg"),
           ("subs", "Notify_gen_subs.cfg"), ("listen", "Notify_gen_listen.cfg"),
           ("listen_g", "Notify_gen_listen_g.cfg"),
           # feature sets that become empty and non-empty again: capability inferred / fixed; resources + templates
           ("caps", "Notify_gen_caps.cfg"), ("caps_fixed", "Notify_gen_caps.cfg"), ("caps_shared", "Notify_gen_caps_shared.cfg"))
    for tag, c in exh:
        text = None
        if tag.startswith("caps"):
            # scripts of up to 5 steps (thorough: 6)
            sub = {"MaxSteps": "= 5"} if tier == "quick" else {}
            if tag == "caps_fixed":
                sub["CapMode"] = "<- ModeFixed"
            text = cfg_text(c, **sub)
        add(("gen", tag), tlc("NotifyGen", c, text, workers=1, timeout=1500, heap_gb=4))
    num = {"quick": 100, "thorough": 2500}[tier]
    sims = [("mix", "Notify_gen_mix.cfg", num), ("ttl", "Notify_gen_ttl.cfg", num), ("off", "Notify_gen_off.cfg", num // 2)]
    for tag, c, n in sims:
        add(("sim", tag), tlc("NotifyGen", c, workers=1, timeout=1500, heap_gb=3, simulate="num=%d" % n, depth=600, seed=seed))

    got = parallel(jobs, width=4)

    for c in mcs:
        res = got[("mc", c)]
        vlib.tlc_must_pass(res, c)
        v.add_tlc(c, res)
        if not res.ok:
            raise vlib.MachineryError("the Notify model violates %s on %s: design check failed" % (res.violation, c))
    for c, w in wits:
        res = got[("wit", c, w)]
        if res.violation != w:
            raise vlib.MachineryError("vacuity: witness %s not reachable on %s (%s)" % (w, c, res.error or res.violation))
    v.cov["witnesses_reached"] = ["%s@%s" % (w, c) for c, w in wits]

    leads = []
    for key, c, sub in lds:
        res = got[("lead",) + key]
        if res.error:
            raise vlib.MachineryError("lead config %s: %s\n%s" % (c, res.error, res.stdout[-1500:]))
        sc = [p for p in res.printed if isinstance(p, dict) and "why" in p and p["why"] != "terminal"]
        if key[0] in WITNESS:
            # sensitivity witness: with the repair switch off (GenCheck = FALSE: the behaviour before f71bafa; ListenOwns =
            # FALSE: before 5eb4542) TLC must still find the defect; its scenario stays in the replay set as a
            # regression test of the repair
            v.add_tlc("%s[%s] (witness: repair switch off, counterexample required)" % (c, key[1]), res)
            if res.ok or not sc or res.violation != WITNESS[key[0]]:
                raise vlib.MachineryError("sensitivity: with the repair switch off TLC no longer finds the repaired defect on %s[%s] (%s)"
                                          % (c, key[1], res.violation))
            leads.append((key, None, sc[0]))
            continue
        v.add_tlc("%s[%s] (lead, counterexample expected)" % (c, key[1]), res)
        if res.ok or not sc:
            # the model no longer contains the lead: nothing to replay
            v.cov.setdefault("leads_absent_from_model", []).append("%s:%s" % key)
            continue
        leads.append((key, "C18." + sc[0]["why"], sc[0]))

    beh = []
    res = got[("gen", "window")]
    vlib.tlc_must_pass(res, wcfg)
    v.add_tlc(wcfg + " (every complete behaviour)", res)
    if not res.ok:
        raise vlib.MachineryError("Notify model violates %s on %s" % (res.violation, wcfg))
    for p in res.printed:
        if isinstance(p, dict) and p.get("why") == "terminal":
            beh.append(("window", p))
    if len(beh) < 100:
        raise vlib.MachineryError("window configuration exported only %d behaviours" % len(beh))
    for tag, c in exh:
        res = got[("gen", tag)]
        vlib.tlc_must_pass(res, c)
        v.add_tlc(c + " (every complete behaviour)", res)
        ps = [p for p in res.printed if isinstance(p, dict) and p.get("why") == "terminal"]
        if not res.ok or len(ps) < 100:
            raise vlib.MachineryError("%s: %s, %d behaviours" % (c, res.violation, len(ps)))
        beh += [(tag, p) for p in ps]
    for tag, c, n in sims:
        r = got[("sim", tag)]
        if r.error or r.violation:
            raise vlib.MachineryError("NotifyGen simulation %s failed: %s %s\n%s" % (c, r.error, r.violation, r.stdout[-1500:]))
        m = re.search(r"The number of states generated: (\d+)", r.stdout)
        if m:
            r.generated = r.distinct = int(m.group(1))
        v.add_tlc(c + " (simulate)", r)
        k = 0
        for p in r.printed:
            if isinstance(p, dict) and p.get("why") == "terminal":
                beh.append((tag, p))
                k += 1
        if k < n // 3:
            raise vlib.MachineryError("simulation of %s produced only %d behaviours" % (c, k))
    return leads, beh


def listen_then_update(steps):
    seen = False
    for s in steps:
        seen = seen or s[0] == "listen"
        if seen and s[0] == "updated":
            return True
    return False


def cold_race(steps):
    """A list / read is issued while the put gate is held, the feature set / resource changes, and after the gate was
    released the client lists / reads again: the fill races the notification (from an empty cache when it is the first call)."""
    held = inflight = changed = False
    for op, a1, a2 in steps:
        if op == "hold" and a1 == "put":
            held = True
        elif op == "release" and a1 == "put":
            held = False
        elif op == "list":
            if inflight and changed and not held:
                return True
            inflight = inflight or held
        elif op in ("change", "tchange", "updated") and inflight:
            changed = True
    return False


def steps_of(p):
    return [[s["op"], s["a1"], s["a2"]] for s in p["steps"]]


# ---------------------------------------------------------------------------
# scenarios

CONF = {
    # tag: (sessions, initOn, ttl, capOff, uris); sessions in INIT_SUB are subscribed to every URI before the script starts
    "window": (["L1", "M1"], ["L1", "M1"], 0, [], []),
    "subs": (["L1", "L2", "M1", "M2"], ["L1", "L2", "M1", "M2"], 0, [], ["u1"]),
    "cachex_list": (["M1"], ["M1"], 60000, [], []),
    "cachex_read": (["M1"], ["M1"], 60000, [], ["u1"]),
    "mix": (["L1", "M1", "M2"], ["L1", "M1"], 0, [], ["u1"]),
    "ttl": (["L1", "M1"], ["L1", "M1"], 60000, [], ["u1"]),
    "off": (["L1", "M1", "M2"], ["L1", "M1"], 0, ["tools"], ["u1"]),
    "listen": (["M1", "M2"], ["M1", "M2"], 0, [], ["u1", "u2"]),
    "listen_g": (["M1"], ["M1"], 0, [], ["u1", "u2"]),
    "caps": (["L1", "M1"], ["L1"], 0, [], []),
    "caps_fixed": (["L1", "M1"], ["L1"], 0, [], []),
    "caps_shared": (["L1", "M1"], ["L1"], 0, [], []),
}


INIT_SUB = {"cachex_read": ["M1"]}
EXHAUSTIVE = ("window", "cachex_list", "cachex_read", "subs", "listen", "listen_g", "caps", "caps_fixed", "caps_shared")
# ServerOptions.PageSize: the base features alone fill two pages
PAGED = {"cachex_list": [2], "ttl": [0, 2], "lead": [0, 2]}


def sess_spec(name, rng, want_m2=True):
    if name.startswith("L"):
        return {"name": name, "era": "legacy", "proto": rng.choice(LEGACY_PROTOS), "want": WANT_ALL}
    want = ["prompts"] if (name == "M2" and want_m2) else WANT_ALL
    return {"name": name, "era": "modern", "proto": "", "want": want}


def caps_conf(rng, n, mode, sizes):
    """Server configuration of a scenario about notification n whose feature sets may become empty.
    mode: "inferred" | "fixed" (concretised as an explicit Capabilities entry or the Has* option); sizes: kind -> size."""
    init = {k: 0 for k in KINDS if NOTIF_OF[k] == n}
    init.update(sizes)
    how = "inferred" if mode == "inferred" else rng.choice(["explicit", "has"])
    return {"capMode": {n: how}, "initSize": init, "capsNil": how != "explicit" and rng.random() < 0.5}


def rename_norm(x, to):
    """The single-kind configurations are generated for "tools"; the model is symmetric in the kind: the normalised
    projection of the same behaviour for kind `to`."""
    if x is None or to in (None, "tools"):
        return x
    n = NOTIF_OF[to]
    ren = lambda a: n if a == "tools" else a  # noqa
    y = dict(x)
    for f in ("lsub", "ref", "adv"):
        y[f] = {ren(a): b for a, b in x[f].items()}
    y["nh"] = {"%s/%s" % (k.split("/")[0], ren(k.split("/")[1])): c for k, c in x["nh"].items()}
    y["_topics"] = {ren(a) for a in x["_topics"]}
    return y


def empties(p):
    """The script leaves every feature set of the notification empty at some point."""
    for x in [s["pre"] for s in p["steps"][1:]] + [p["final"]]:
        sz = x.get("size") or {}
        if sz and all(v == 0 for v in sz.values()):
            return True
    return False


def concretise(sid, tag, steps, rng, sessions, init_on, ttl, cap_off, uris, autolist=False, yield_=0, caps=None, page=None):
    st = [["connect", s, ""] for s in init_on]
    st += [["subscribe", s, u] for s in INIT_SUB.get(tag, []) for u in uris]
    npre = len(st)
    page = rng.choice(PAGED.get(tag, [0])) if page is None else page
    for op, a1, a2 in steps:
        if op in ("change", "tchange") and a2 in DIR_OP:
            # exact directions (the set may become empty): one feature more, one less, all removed by one call
            a2 = DIR_OP[a2]
        elif op in ("change", "tchange"):
            # "mod": "add" sorts after the base features (a later page when paginated), "addlo" before them (first page)
            if tag == "lead":
                a2 = "addlo" if page else "add"  # the change must land on the page whose fill is held: the first one
            else:
                a2 = rng.choice(["add", "addlo", "rm"] if (page and tag != "cachex_list") else ["add", "add", "rm"])
        st.append([op, a1, a2])
    sc = {"id": sid, "tag": tag, "ttl": ttl, "capOff": cap_off, "uris": uris, "sessions": [sess_spec(s, rng) for s in sessions],
          "steps": st, "autolist": autolist, "yield": yield_, "npre": npre, "pageSize": page, "msteps": [list(s) for s in steps]}
    sc.update(caps or {})
    return sc


def norm_proj(p, sessions=None):
    """Comparable form of a projection (model `pre`/`final` or harness step line)."""
    nh = {}
    for s, d in (p.get("nh") or {}).items():
        for t, c in (d or {}).items():
            if c:
                nh["%s/%s" % (s, t)] = c
    src = p.get("snap") or p
    lsub = {n: sorted(x) for n, x in (src.get("lsub") or {}).items()}
    rsub = {u: sorted(x) for u, x in (src.get("rsub") or {}).items()}
    ref = dict(src.get("ref") or {})
    adv = dict(src.get("adv") or {})
    return {"nh": nh, "lsub": lsub, "rsub": rsub, "ref": ref, "adv": adv}


def proj_equal(model, real):
    """Model projections cover only the model's notifications / URIs."""
    if model["nh"] != {k: c for k, c in real["nh"].items() if k.split("/")[1] in model["_topics"]}:
        return False
    for n, x in model["lsub"].items():
        if real["lsub"].get(n, []) != x:
            return False
    for u, x in model["rsub"].items():
        if real["rsub"].get(u, []) != x:
            return False
    for n, x in model["ref"].items():
        if bool(real["ref"].get(n)) != bool(x):
            return False
    # what Server.capabilities() advertises (listChanged) for the model's notifications
    for n, x in model["adv"].items():
        if n in real["adv"] and bool(real["adv"][n]) != bool(x):
            return False
    return True


def model_projs(p, kind=None):
    """Projection after each step (pre of the next step), and the final one after the drain."""
    pres = [norm_proj(s["pre"]) for s in p["steps"]]
    fin = norm_proj(p["final"])
    topics = set(fin["ref"].keys()) | set(fin["rsub"].keys())
    seq = pres[1:] + [None]  # the state after the last step is followed by the drain: compared through `final`
    for x in pres + [fin]:
        x["_topics"] = topics
    return [rename_norm(x, kind) for x in seq], rename_norm(fin, kind)


# ---------------------------------------------------------------------------
# judging


def trace_rows(rows):
    return vlib.split_traces(rows)


def era_of(trows, s):
    for r in trows:
        if r.get("ev") == "connect" and r.get("s") == s:
            return r.get("era", "?")
    return "?"


def ops_pattern(trows, upto, n):
    """Timing pattern of the burst: changes of notification n (c), changes racing a timer (r) and ticks (t, with
    multiplicity), in order; the last six symbols."""
    sym = []
    for r in trows[:upto + 1]:
        if r.get("ev") != "step" or not r.get("applied"):
            continue
        if r["op"] in ("change", "tchange") and NOTIF_OF.get(r.get("a1")) == n:
            sym.append("c" if r["op"] == "change" else "r")
        elif r["op"] == "tick" and sym:
            sym.append("t")
    out = []
    for o in sym:
        if out and out[-1][0] == o and o == "t":
            out[-1][1] = min(out[-1][1] + 1, 2)
        else:
            out.append([o, 1])
    return "".join(o if c == 1 else "%s%d" % (o, c) for o, c in out[-6:])


def signature(f, trows, idx):
    """Abstract signature of a monitor failure. idx = index of the failing line inside trows."""
    clause = f["monfail"].split(".", 1)[1]
    s, x = f.get("s", "?"), f.get("x", "")
    e = trows[idx]
    era = era_of(trows, s)
    if clause == "Fresh":
        call = next((r for r in trows[:idx] if r.get("ev") == "list.begin" and r.get("id") == e.get("id")), {})
        kind = e.get("kind")
        if e.get("pages", 1) > e.get("sentPages", 0):
            # (a page of) the answer came from the cache; the entry that was served: last completed server answer for
            # (s, item) before this call
            fills = [i for i, r in enumerate(trows[:idx]) if r.get("ev") == "list.end" and r.get("s") == s and r.get("item") == e.get("item")
                     and r.get("ok") and r.get("sentPages", 0) > 0 and r["seq"] < call.get("seq", 0)]
            topic_n = "updated" if kind == "read" else NOTIF_OF.get(e.get("item"), "?")
            # points at which the SDK dropped the cache entries: right after the notification passed the client's
            # receiving middleware (and its gate, when held)
            invs = []
            for j, r in enumerate(trows[:idx]):
                if r.get("ev") == "notif.arrive" and r.get("s") == s and r.get("n") == topic_n and (kind != "read" or r.get("u") == e.get("item")):
                    inv = r["seq"]
                    for r2 in trows[j + 1:idx]:
                        if r2.get("s") == s and r2.get("ev") == "notif.arrive":
                            break
                        if r2.get("s") == s and r2.get("ev") == "gate.pass" and r2.get("g") == "inv":
                            inv = r2["seq"]
                            break
                        if r2.get("s") == s and r2.get("ev") == "notif.user":
                            break
                    invs.append(inv)
            invs = [x for x in invs if x < call.get("seq", 0)]
            if fills and invs:
                fend = trows[fills[-1]]
                fbeg = next((r["seq"] for r in trows[:fills[-1]] if r.get("ev") == "list.begin" and r.get("id") == fend.get("id")), 0)
                # the fill was in flight when the entry was invalidated and was put afterwards
                if any(fbeg < x < fend["seq"] for x in invs):
                    return "cache:stale-fill-after-invalidate:%s" % kind
            return "Fresh:cache-hit-not-invalidated:%s" % kind
        return "Fresh:server-answer-older:%s:%s" % (kind, era)
    if clause == "NeverLost":
        if era == "modern":
            # did the clean-up of a cancelled URI listen stream of this session remove it from the server's
            # list-changed map while the session stayed connected?
            prev, unsubbed = None, False
            for r in trows[:idx + 1]:
                if r.get("ev") == "unsub.begin" and r.get("s") == s:
                    unsubbed = True
                if r.get("ev") not in ("step", "quiesce"):
                    continue
                sn = r.get("snap", {})
                cur = s in (sn.get("lsub", {}).get(x) or [])
                if prev and not cur and unsubbed and s in (sn.get("sessions") or []):
                    return CLOBBER_SIG
                prev = cur
        # did the last change leave every feature set of the notification empty?
        names, reset = {}, next((r for r in trows if r.get("ev") == "reset"), {})
        for r in trows[:idx + 1]:
            if r.get("ev") == "ready":
                names = {k: list(nm or []) for k, nm in (r.get("names0") or {}).items()}
            elif r.get("ev") == "change.end":
                names[r.get("k")] = r.get("names") or []
        if names and not any(names.get(k) for k in KINDS if NOTIF_OF[k] == x):
            return "NeverLost:%s:%s-set-emptied:%s" % (era, x, (reset.get("capMode") or {}).get(x) or "inferred")
        return "NeverLost:%s:%s" % (era, ops_pattern(trows, idx, x))
    if clause == "OnlyEntitled":
        closed = any(r.get("ev") == "close.begin" and r.get("s") == s for r in trows[:idx])
        want = next((r.get("want") for r in trows if r.get("ev") == "connect" and r.get("s") == s), None) or []
        state = "closed" if closed else ("not-requested" if x not in want else "not-granted")
        return "OnlyEntitled:%s:%s" % (era, state)
    if clause == "NoneWhenDisabled":
        return "NoneWhenDisabled:%s:%s" % (x, era)
    if clause == "UpdatedExactlySubscribers":
        why = ""
        if x == "missing":
            # did the clean-up of an earlier, cancelled subscription run after the session had subscribed again?
            u = e.get("u")
            subs = [r["seq"] for r in trows[:idx] if r.get("ev") == "sub.end" and r.get("s") == s and r.get("u") == u and r.get("ok")]
            exits = [r["seq"] for r in trows[:idx] if r.get("ev") == "srv.unsub.exit" and r.get("s") == s and r.get("u") == u]
            unsubs = [r["seq"] for r in trows[:idx] if r.get("ev") == "unsub.begin" and r.get("s") == s and r.get("u") == u]
            if subs and unsubs and exits and unsubs[-1] < subs[-1] < exits[-1]:
                why = ":stale-unsubscribe-overtakes-resubscribe"
            elif subs and any(r.get("ev") == "unsub.begin" and r.get("s") != s and r.get("u") == u and r["seq"] > subs[-1] for r in trows[:idx]):
                why = ":after-unsubscribe-by-another-session"
            elif subs and any(r.get("ev") == "close.begin" and r.get("s") != s and r["seq"] > subs[-1] for r in trows[:idx]):
                why = ":after-close-of-another-session"
        if x == "extra":
            u = e.get("u")
            closed = any(r.get("ev") == "close.begin" and r.get("s") == s for r in trows[:idx])
            unsub = any(r.get("ev") == "unsub.begin" and r.get("s") == s for r in trows[:idx])
            # the last thing the session did about this URI was a subscriptions/listen request that the server failed
            # (its SubscribeHandler refused another URI of the same request)
            last = next((r for r in reversed(trows[:idx]) if r.get("s") == s and
                         ((r.get("ev") in ("sub.end", "unsub.begin") and r.get("u") == u) or
                          (r.get("ev") == "listen.end" and u in (r.get("uris") or [])))), None)
            failed = last is not None and last.get("ev") == "listen.end" and not last.get("ok")
            why = ":closed" if closed else (":failed-listen" if failed else (":unsubscribed" if unsub else ":never-subscribed"))
        return "UpdatedExactlySubscribers:%s:%s%s" % (x, era, why)
    if clause == "UpdatedDelivered":
        return "UpdatedDelivered:%s" % era
    if clause == "ForgottenOnClose":
        return "ForgottenOnClose:%s:%s" % (era, x)
    if clause == "NoPanic":
        return "panic"
    return "%s:%s:%s" % (clause, era, x)


def race_order(trows, i_step):
    """Classify what happened at a race step (a change at an instant at which a timer was due)."""
    j = i_step - 1
    while j >= 0 and trows[j].get("ev") != "step":
        j -= 1
    seg = trows[j + 1:i_step]
    st = trows[i_step]
    cb = next((r for r in seg if r.get("ev") == "change.begin"), None)
    if cb is None:
        return None
    n = cb["n"]
    sends = [r for r in seg if r.get("ev") == "notif.send" and r.get("n") == n]
    ref = bool(st.get("snap", {}).get("ref", {}).get(n))
    if not sends:
        return "no-notification-at-instant(other timer due, or no session)"
    if not ref:
        return "change-inside-window(reset-then-callback)"
    return "callback-first"


def run(tier, seed, replay):
    v = vlib.Verdict(PID, tier, seed)
    v.assumptions = [
        "time is virtual (testing/synctest): the debounce timer fires at its exact virtual instant; after every environment "
        "action the SDK runs to quiescence, except behind the three gates and at race steps",
        "sessions run over mcp.NewInMemoryTransports (FIFO, lossless); connecting a session (Server.Connect + Client.Connect + "
        "the subscriptions/listen acknowledgement) is one environment step, never placed at an instant at which a timer is due",
        "the server has three base features of every kind and no configured capability (listChanged is inferred and advertised "
        "throughout) unless the scenario disables the capability; the caps* scenarios choose where the capability comes from "
        "(explicit ServerOptions.Capabilities entry / HasTools-style option / inferred; ServerOptions.Capabilities nil or not) and "
        "start with 0 or 1 features of a kind, which add / remove-one / remove-all changes empty and refill; "
        "result TTLs are set by a server receiving middleware (0 or 60 s)",
        "a session is owed list-changed notifications from the moment it was told listChanged (legacy: initialize result; "
        "2026-07-28: subscriptions/acknowledged) whatever becomes of the feature sets; a legacy session that was not told is owed "
        "none and may be sent them",
        "entitlement is what the protocol grants: legacy session = connected; 2026-07-28 session = listen request acknowledged for "
        "that notification; URI subscription = subscribe acknowledged until unsubscribe/close; a subscriptions/listen request naming "
        "several URIs subscribes the session to all of them when acknowledged and to none of them when the server fails it",
        "which URIs the server's SubscribeHandler refuses is chosen per listen request by the scenario; several-URI requests are sent "
        "through the unexported ClientSession.subscriptionsListen (ClientSession.Subscribe only sends single-URI requests)",
        "the order of a change and the timer callback at the same instant is not controllable without a hook: race steps are "
        "repeated and the orders observed are counted (coverage.race_orders)",
        "expiry of cached results is one environment step (virtual time advances beyond the ttl of everything the client has "
        "cached, taken only while no debounce timer is armed); the model empties the cache at that step, the SDK evicts an "
        "expired entry at its next lookup",
        "TLC exhaustive results are for the bounded constants of spec/Notify_mc_*.cfg",
    ]
    out = vlib.outdir(PID)
    rng = random.Random(seed)
    scen, lead_of, alts, prefix_alts = [], {}, {}, {}

    if replay:
        rep = json.load(open(replay))["replay"]
        sc = rep["scenario"]
        sc["id"] = "replay"
        scen = [sc]
    else:
        lead_list, beh = front(v, tier, seed)
        # leads
        for key, clause, p in lead_list:
            fam, k = key
            if fam in ("cache", "cold") and k != "read":
                # the witness found for "tools", for every kind; the cold-cache families with one page and with several
                # (the stale first page is then glued to later pages that are fresh)
                for kind in KINDS:
                    st = [[s[0]] + [kind if x == "tools" else x for x in s[1:]] for s in steps_of(p)]
                    for page in ([None] if fam == "cache" else [0, 2]):
                        sid = "regress.cache.%s" % kind if fam == "cache" else "regress.cold.%s.%s.p%d" % (k, kind, page)
                        scen.append(concretise(sid, "lead", st, rng, ["M1"], ["M1"], 60000, [], [], page=page))
                continue
            if fam in ("cache", "coldread"):
                sid = "regress.cache.read" if fam == "cache" else "regress.coldread.%s" % k
                sc = concretise(sid, "lead", steps_of(p), rng, ["M1"], ["M1"], 60000, [], ["u1"])
            elif fam == "caps":
                # the last feature of every kind of notification k is removed while a legacy and a 2026-07-28 session that
                # were told listChanged (inferred from the one registered feature) are connected
                sc = concretise("regress.caps.%s" % k, "lead", steps_of(p), rng, ["L1", "M1"], ["L1", "M1"], 0, [], [],
                                caps=caps_conf(rng, k, "inferred", {x: 1 for x in CAPS_KINDS[k]}))
            else:
                sc = concretise("%s.%s.%s" % ("regress" if fam in WITNESS else "lead", fam, k), "lead", steps_of(p), rng,
                                ["M1"], ["M1"], 0, [], ["u1", "u2"] if fam == "listen" else ["u1"])
            if clause is not None:
                lead_of[sc["id"]] = clause
            scen.append(sc)
        # generated behaviours
        groups = {}
        for tag, p in beh:
            groups.setdefault((tag, json.dumps(steps_of(p))), []).append(p)
        # outcomes of a step as the model allows them, whatever the script does afterwards (used at race steps)
        prefix_alts = {}
        for tag, p in beh:
            if tag not in EXHAUSTIVE:
                continue
            st = steps_of(p)
            seq, fin = model_projs(p)
            for j in range(len(st) - 1):
                if st[j][0] == "tchange":
                    prefix_alts.setdefault((tag, json.dumps(st[:j + 1])), []).append(seq[j])
        reps = 2 if tier == "quick" else 6
        i = 0
        # quick tier: the exhaustive cache sets are run completely up to 5 steps, the longer scripts by seeded sample
        longer = sorted(k for k in groups if k[0].startswith("cachex") and len(json.loads(k[1])) > 5)
        keep = set(rng.sample(longer, min(len(longer), 200))) if tier == "quick" else set(longer)
        # ... and every script in which a fill races the notification (the first call ever: the cache is empty)
        keep |= set(k for k in longer if cold_race(json.loads(k[1])))
        # subscription scripts: only those that end by telling who gets a resource update; quick tier: all up to 3
        # steps and a seeded sample of the 4-step ones
        sub4 = sorted(k for k in groups if k[0] == "subs" and len(json.loads(k[1])) > 3 and '"updated"' in k[1])
        keep |= set(rng.sample(sub4, min(len(sub4), 250))) if tier == "quick" else set(sub4)
        # several-URI listen scripts: only those in which a resource update follows a listen request (it tells who the
        # server still remembers); all up to 3 steps and a seeded sample of the 4-step ones
        lis = sorted(k for k in groups if k[0] == "listen" and listen_then_update(json.loads(k[1])))
        lis4 = [k for k in lis if len(json.loads(k[1])) > 3]
        keep |= set(k for k in lis if len(json.loads(k[1])) <= 3)
        keep |= set(rng.sample(lis4, min(len(lis4), {"quick": 300, "thorough": 4000}[tier])))
        # ... with the server's UnsubscribeHandler held (the clean-up of a failed or cancelled request is pending when the
        # resource is updated): a seeded sample; thorough: all up to 4 steps and a sample of the 5-step ones
        lig = sorted(k for k in groups if k[0] == "listen_g" and '"hold"' in k[1] and listen_then_update(json.loads(k[1])))
        if tier == "quick":
            keep |= set(rng.sample(lig, min(len(lig), 200)))
        else:
            lig5 = [k for k in lig if len(json.loads(k[1])) > 4]
            keep |= set(k for k in lig if len(json.loads(k[1])) <= 4) | set(rng.sample(lig5, min(len(lig5), 1500)))
        # feature sets becoming empty: every script up to 3 steps (thorough: 4) and a seeded sample of the longer
        # ones, two thirds of it among those that leave the sets of the notification empty at some point
        for ctag, short, nsample in (("caps", {"quick": 3, "thorough": 4}[tier], {"quick": 120, "thorough": 900}[tier]),
                                     ("caps_fixed", 2, {"quick": 50, "thorough": 300}[tier]),
                                     ("caps_shared", {"quick": 3, "thorough": 4}[tier], {"quick": 80, "thorough": 600}[tier])):
            ck = sorted(k for k in groups if k[0] == ctag)
            keep |= set(k for k in ck if len(json.loads(k[1])) <= short)
            rest = [k for k in ck if k not in keep]
            emp = [k for k in rest if empties(groups[k][0])]
            pick = set(rng.sample(emp, min(len(emp), 2 * nsample // 3)))
            oth = [k for k in rest if k not in pick]
            keep |= pick | set(rng.sample(oth, min(len(oth), nsample - len(pick))))
        ckind = 0
        for (tag, key), ps in sorted(groups.items()):
            steps = json.loads(key)
            if tag.startswith("caps") and (tag, key) not in keep:
                continue
            if tag.startswith("cachex") and len(steps) > 5 and (tag, key) not in keep:
                continue
            if tag == "subs" and ('"updated"' not in key or (len(steps) > 3 and (tag, key) not in keep)):
                continue
            if tag in ("listen", "listen_g") and (tag, key) not in keep:
                continue
            sessions, init_on, ttl, cap_off, uris = CONF[tag]
            racy = any(s[0] == "tchange" for s in steps)
            variants = [(False, 0)]
            kind, caps = None, None
            if tag.startswith("caps"):
                # the single-kind scripts are run for every kind in turn
                ckind += 1
                kind = KINDS[ckind % len(KINDS)] if tag != "caps_shared" else None
                if kind:
                    steps = [[s[0], kind if s[0] in ("change", "tchange") else s[1], s[2]] for s in steps]
                    caps = caps_conf(rng, NOTIF_OF[kind], "fixed" if tag == "caps_fixed" else "inferred", {kind: 1})
                else:
                    caps = caps_conf(rng, "resources", "inferred", {"resources": 1, "templates": 0})
            if racy and tag.startswith("caps"):
                variants = [(False, 0)] * (reps // 2) + [(False, 4)]
            elif racy:
                variants = [(False, 0)] * reps + [(False, 4)]
            elif tag not in EXHAUSTIVE and rng.random() < 0.3:
                variants = [(True, 0)]
            for (al, y) in variants:
                i += 1
                sc = concretise("%s.%d" % (tag, i), tag, steps, rng, sessions, init_on, ttl, cap_off, uris, autolist=al, yield_=y, caps=caps)
                sc["msteps"] = json.loads(key)
                scen.append(sc)
                alts[sc["id"]] = (ps, tag in EXHAUSTIVE, kind)
        v.cov["tlc_generated_scenarios"] = len(groups)

    scen_path = os.path.join(out, "scenarios.ndjson")
    vlib.write_ndjson(scen_path, scen)
    obs = os.path.join(out, "obs.ndjson")
    rc, gout, wall = vlib.go_test("mcp", "^TestVerif_C18$", ["mcp/c18_notify_test.go"],
                                  env={"VERIF_IN": scen_path, "VERIF_OUT": obs, "VERIF_SEED": seed}, timeout=1500)
    vlib.go_must_build(rc, gout, PID)
    rows = vlib.read_ndjson(obs) if os.path.exists(obs) else []
    if rc != 0 and not any(r.get("ev") == "panic" for r in rows):
        raise vlib.MachineryError("C18 harness failed:\n" + gout[-3000:])
    traces = trace_rows(rows)
    if len(traces) != len(scen):
        raise vlib.MachineryError("harness ran %d of %d scenarios\n%s" % (len(traces), len(scen), gout[-2000:]))
    v.cov["go_test_wall_s"] = round(wall, 1)

    # the verdict: TLA+ monitor, in chunks run side by side
    bounds, cur_lo, cur_n = [], None, 0
    for tid, start, trows in traces:
        if cur_lo is None:
            cur_lo = start
        cur_n += len(trows)
        if cur_n >= 40000:
            bounds.append((cur_lo, start + len(trows) - 1))
            cur_lo, cur_n = None, 0
    if cur_lo is not None:
        bounds.append((cur_lo, traces[-1][1] + len(traces[-1][2]) - 1))

    def mon(lo, hi):
        def f():
            path = os.path.join(out, "obs-%d.ndjson" % lo)
            vlib.write_ndjson(path, rows[lo - 1:hi])
            try:
                return vlib.run_monitor("NotifyMon", "NotifyMon.cfg", path, timeout=1500, heap_gb=4)
            finally:
                os.remove(path)
        return f
    got = parallel([(lo, mon(lo, hi)) for lo, hi in bounds])
    fails = []
    for lo, hi in bounds:
        fs, mres = got[lo]
        v.add_tlc("NotifyMon[%d..%d]" % (lo, hi), mres)
        for f in fs:
            f["line"] += lo - 1
            fails.append(f)

    by_id = {s["id"]: s for s in scen}
    hit_by_trace = {}
    for f in fails:
        tid, start, trows = vlib.trace_of_line(traces, f["line"])
        idx = f["line"] - start
        clause = f["monfail"]
        if clause.startswith("X."):
            raise vlib.MachineryError("harness inconsistency %s at line %d (trace %s): %s" % (clause, f["line"], tid, json.dumps(trows[idx])[:300]))
        sig = signature(f, trows, idx)
        hit_by_trace.setdefault(tid, set()).add(clause)
        sc = dict(by_id.get(tid, {}))
        v.violation(sig, "%s failed at line %d (trace %s, session %s, %s): %s" % (
            clause, f["line"], tid, f.get("s"), f.get("x"), json.dumps(trows[idx])[:260]),
            {"scenario": sc, "event": trows[idx], "clause": clause})
    v.cov["monitor_failures"] = len(fails)

    # leads must reproduce on the real code; a lead that does not is drift of the model, not a verdict
    for tid, clause in lead_of.items():
        if clause not in hit_by_trace.get(tid, set()):
            v.drift.append("lead %s: TLC's counterexample to %s does not reproduce on the real code (the model's "
                           "code-shaped behaviour no longer matches; steps %s)" % (tid, clause, json.dumps(by_id[tid]["steps"])))
    v.cov["leads_reproduced"] = sorted(t for t, c in lead_of.items() if c in hit_by_trace.get(t, set()))

    # binding: model projection vs real state after every step (drift only)
    compared = matched = racy_unmatched = 0
    race_orders = {}
    nsteps = 0
    distinct, nontrivial = set(), 0
    for tid, start, trows in traces:
        sc = by_id.get(tid, {})
        steplines = [(i, r) for i, r in enumerate(trows) if r.get("ev") == "step"]
        nsteps += len(steplines)
        for i, r in steplines:
            if r.get("op") == "tchange":
                o = race_order(trows, i)
                if o:
                    race_orders[o] = race_orders.get(o, 0) + 1
        key = vlib.sha([sc.get("steps"), sc.get("ttl"), sc.get("capOff"), sc.get("autolist"), [s.get("era") for s in sc.get("sessions", [])],
                        sc.get("capMode"), sc.get("capsNil"), sc.get("initSize")])
        if key not in distinct:
            distinct.add(key)
            ops = {s[0] for s in sc.get("steps", [])}
            if ops & {"change", "tchange", "updated"} and "connect" in ops:
                nontrivial += 1
        if tid not in alts or any(r.get("ev") == "panic" for r in trows):
            continue
        ps, complete, kind = alts[tid]
        npre = sc.get("npre", 0)
        real = [norm_proj(r) for _, r in steplines][npre:]
        q = next((r for r in trows if r.get("ev") == "quiesce"), None)
        if q is None or len(real) != len(sc["steps"]) - npre:
            continue
        realfin = norm_proj(q)
        first_race = next((j for j, s in enumerate(sc["steps"][npre:]) if s[0] == "tchange"), None)
        compared += 1
        ok_any, worst = False, None
        for p in ps:
            seq, fin = model_projs(p, kind)
            upto = len(seq) - 1
            bad = next((j for j in range(upto) if not proj_equal(seq[j], real[j])), None)
            if bad is None and not proj_equal(fin, realfin):
                bad = len(seq)
            if bad is None:
                ok_any = True
                break
            if worst is None or bad > worst:
                worst = bad
        if ok_any:
            matched += 1
            continue
        st = sc["steps"][npre:]
        if first_race is not None and worst is not None and worst >= first_race:
            # the real run took an outcome of the race under which the model does not continue with this very script
            # (or, for simulated scripts, an outcome the simulation did not produce)
            pa = prefix_alts.get((sc.get("tag"), json.dumps(sc.get("msteps", [])[:first_race + 1])))
            if not complete or pa is None or any(proj_equal(rename_norm(a, kind), real[first_race]) for a in pa):
                racy_unmatched += 1
                continue
        where = "after the drain" if worst == len(st) else "after step %d %s" % (worst + 1, st[worst])
        v.drift.append("trace %s: real server/client state differs from Notify.tla %s" % (tid, where))
    v.cov["strict_compared"] = compared
    v.cov["strict_traces_explained_by_spec"] = matched
    v.cov["strict_racy_outcome_not_enumerated"] = racy_unmatched
    v.cov["race_orders"] = race_orders
    v.cov["evaluations"] = nsteps
    v.cov["traces_validated_against_impl"] = len(traces)
    v.cov["distinct_nontrivial"] = nontrivial
    v.cov["exhaustive"] = False
    v.cov["scenarios_by_config"] = {}
    for s in scen:
        v.cov["scenarios_by_config"][s.get("tag", "replay")] = v.cov["scenarios_by_config"].get(s.get("tag", "replay"), 0) + 1
    v.cov["rule"] = ("scenarios = environment-action scripts generated by TLC from spec/NotifyGen.tla (every complete behaviour of the timing "
                     "configuration; seeded simulations of the mixed / positive-ttl / capability-off configurations; the counterexamples of the "
                     "lead configurations; every complete behaviour up to 6 steps of the configurations in which a feature set becomes empty "
                     "and non-empty again under an inferred / fixed capability: all short scripts and a seeded sample of the longer ones), each run on a real Server and real Client sessions under synctest; race scenarios are repeated; "
                     "distinct by (steps, ttl, capabilities and where they come from, initial sizes, autolist, session eras); non-trivial = at least one connected session and one "
                     "change or resource update")
    if not replay and tier == "quick" and not (race_orders.get("callback-first") and race_orders.get("change-inside-window(reset-then-callback)")):
        v.cov["race_window_note"] = "only one order of (change, timer callback) at the same instant was observed in this run"
    for tid, start, trows in traces[:: max(1, len(traces) // 5)][:5]:
        sc = by_id.get(tid, {})
        v.sample({"trace": tid, "ttl": sc.get("ttl"), "steps": sc.get("steps"),
                  "received": next((r.get("nh") for r in trows if r.get("ev") == "quiesce"), None)})
    return v.finish()
