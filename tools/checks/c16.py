"""C16 — typed tools see only schema-valid input and emit only schema-valid output
(DESIGN.md section 6, C16; pattern P1).

  1. TLC on spec/TypedTool.tla: design-level consistency of the code-shaped ExpectedIn/ExpectedOut with
     the property (independent TLA+ JSON-Schema validator, WithDefaults) over the whole family, and
     export of the tool schemas (JSON-Schema objects) and the cases (tagged JSON).
  2. harness/mcp/c16_typedtool_test.go: real typed tools on real Servers, real Clients over in-memory
     transports, one tools/call per case; records what the handler saw and what the client received.
  3. TLC on spec/TypedToolMon.tla judges every recorded outcome (verdict) and compares it with the
     code-shaped expectation (drift).
  4. Interleaving dimension: TLC on spec/TypedToolConc.tla (state machine invoke / produce / respond of N calls in
     flight on one server; invariants PerCallOutput / NonInterference; the what-if TypedToolConcAlias.cfg - results that
     refer to a shared scratch cell - MUST fail PerCallOutput, which shows that the schedule family discriminates)
     exports every complete schedule; TypedTool.tla exports the pool of cases (ConcOut / ConcIn / Conc3). Scenario =
     (ordered tuple of pool cases, schedule). The harness replays each scenario with gates inside a synctest bubble
     (GOMAXPROCS(1): nothing but the gates decides the order; thorough also with the default), one observation line per
     call, judged by the same monitor clauses against the call's OWN case.
quick: all output, reflected-type, struct-with-explicit-schema and default-interaction cases (every
SchemaCache arrangement), every valid explicit-schema case,
every boundary case (<=1 member off the valid base, or <=1 member present) and a seeded sample of the
rest; thorough: the complete family.  Concurrent scenarios: quick = all 2-call schedules x all ordered pairs with a
non-object output on both sides (+ a seeded sample of the other pairs); thorough = all pairs x all 2-call
schedules (GOMAXPROCS 1 and default) + Conc3^3 x all 3-call schedules.
"""
import json, os, random
import vlib

PID = "C16"
QUICK_SAMPLE = 3000
CONC_QUICK_REST = 150  # quick: seeded sample of the ordered pairs with an object output or an input case on some side

# the "base" (valid) class of each member; a case's deviation count is the number of members off base
BASE = {"in": ("min", "member", "absent", "absent", "absent"),
        "InA": ("int", "string", "absent", "absent", "absent"),
        "InB": ("string", "flag", "two", "absent", "absent")}


def deviations(c):
    if c["kind"] in ("xin", "sin") or c.get("ty") == "InC":
        return 0  # small families, always run completely
    base = BASE["in"] if c["kind"] == "in" else BASE[c["ty"]]
    if len(c["cls"]) != len(base):
        return 1  # non-object arguments
    return sum(1 for a, b in zip(c["cls"], base) if a != b)


def present(c):
    """number of members present in the argument object (0 = the empty object)"""
    return sum(1 for a in c["cls"] if a != "absent")


def cache_tag(c):
    return "" if c.get("cache", "none") == "none" else ",cache=" + c["cache"]


def in_sig(c, o):
    got = "ran" if o["ran"] else ("proto-error" if o["proto"] else ("error-result" if o["isError"] else "success-not-run"))
    if o["ran"] and (o["isError"] or o["proto"]):
        got = "ran+error"
    name = c["vid"] if c["kind"] in ("in", "rin") else "%s.%s" % (c["kind"], c["vid"])
    args = jtext(c["args"]) if c["kind"] == "xin" else "/".join(c["cls"])
    return "schema=%s%s:args=%s:%s" % (name, cache_tag(c), args, got)


def jtext(x):
    """tagged JSON -> compact text for signatures"""
    t, v = x
    if t == "null":
        return "null"
    if t == "half":
        return str(v / 2)
    if t == "obj":
        v = v or {}
        return "{" + ",".join("%s:%s" % (k, jtext(v[k])) for k in sorted(v)) + "}"
    if t == "arr":
        return "[" + ",".join(jtext(i) for i in v) + "]"
    return json.dumps(v)


def out_sig(c, o):
    got = "proto-error" if o["proto"] else ("error-result" if o["isError"] else
                                            ("success+structured" if o["hasSc"] else "success-unstructured"))
    if c["okind"] == "any" and c["out"][0] == "null":
        # one abstract failing class: Out = any, handler returns nil, output schema declared
        return "out:schema=declared:okind=any:out=nil:%s" % got
    return "out:schema=%s%s:okind=%s%s:out=%s%s:%s" % (
        c["sid"], cache_tag(c), c["okind"], ",nil" if c["nilform"] else "", jtext(c["out"]),
        ",own-content" if c["content"] else "", got)


def case_short(c):
    """one pool case in a few characters (signatures, reports)"""
    if c["kind"] == "out":
        tool = "rout.%s" % c["okind"] if c["sid"] == "reflect" else "out.%s.%s" % (c["sid"], c["okind"])
        return "%s=%s%s%s" % (tool, jtext(c["out"]), ",nil" if c["nilform"] else "", ",own-content" if c["content"] else "")
    return "%s.%s(%s)" % (c["kind"], c["vid"], "/".join(c["cls"]))


def is_nonobj_out(c):
    return c["kind"] == "out" and c["out"][0] != "obj"


def conc_context(scn, who):
    """(window, before): the steps of the other calls of the scenario inside the window of call `who` (between its
    produce and its respond step), and between its invoke and its produce step"""
    sched = [tuple(x) for x in scn["sched"]]
    p, r, i = sched.index(("produce", who)), sched.index(("respond", who)), sched.index(("invoke", who))
    win = sorted({st for st, w in sched[p + 1:r] if w != who})
    pre = sorted({st for st, w in sched[i + 1:p] if w != who})
    return "window=%s" % ("+".join(win) or "none"), "before=%s" % ("+".join(pre) or "none")


def has_overlap(scn):
    """some call's produce step falls between another call's produce and respond steps"""
    sched = [tuple(x) for x in scn["sched"]]
    for w in scn["calls"]:
        p, r = sched.index(("produce", w)), sched.index(("respond", w))
        if any(st == "produce" and w2 != w for st, w2 in sched[p + 1:r]):
            return True
    return False


JTYPE = {"obj": "object", "arr": "array", "str": "string", "int": "integer", "half": "number", "bool": "boolean", "null": "null"}


def case_class(c):
    """the abstract class of a pool case: tool, JSON type of the handler output, validity"""
    if c["kind"] == "out":
        tool = "rout.%s" % c["okind"] if c["sid"] == "reflect" else "out.%s.%s" % (c["sid"], c["okind"])
        return "%s:out=%s%s%s,%s" % (tool, JTYPE[c["out"][0]], ",nil" if c["nilform"] else "", ",own-content" if c["content"] else "",
                                     "valid" if c["valid"] else "invalid")
    return "%s.%s:args=%s" % (c["kind"], c["vid"], "valid" if c["valid"] else "invalid")


def conc_sig(scn, who, c, o):
    """the abstract failing case of a call in a concurrent scenario: its own class and outcome, the steps of other calls
    inside its produce..respond window (and before it, while in flight), the classes of the other calls' outputs"""
    if c["kind"] == "out":
        got = "proto-error" if o["proto"] else ("error-result" if o["isError"] else
                                                ("success+structured" if o["hasSc"] else "success-unstructured"))
    else:
        got = "ran" if o["ran"] else ("proto-error" if o["proto"] else ("error-result" if o["isError"] else "success-not-run"))
        if o["ran"] and (o["isError"] or o["proto"]):
            got = "ran+error"
    if o.get("fail"):
        got = "no-answer(%s)" % o["fail"].split(":")[0]
    others = sorted({("out/" + JTYPE[x["out"][0]]) if x["kind"] == "out" else "in"
                     for w, x in scn["calls"].items() if w != who})
    return "conc[%d]:%s:%s:%s:others=%s" % (len(scn["calls"]), case_class(c), got, conc_context(scn, who)[0], "+".join(others))


def check_pinned(scn, who, o):
    """machinery: the replay followed the schedule (the events of the call happened during the steps they belong to)"""
    sched = [tuple(x) for x in scn["sched"]]
    at = o.get("at") or {}
    inv, pro, res = sched.index(("invoke", who)), sched.index(("produce", who)), sched.index(("respond", who))
    want = {"enter": inv, "produced": pro, "got": res} if o["ran"] else {"produced": inv, "got": res}
    if o.get("fail"):
        want.pop("got", None)  # no answer: reported by the monitor, not a matter of pinning
        at = {k: v for k, v in at.items() if k != "got"}
        if "produced" not in at:
            want.pop("produced", None)
    return at == want, at, want


def norm_schema(s):
    """normal form for comparing an advertised schema with the TLC-exported expectation"""
    if isinstance(s, dict):
        out = {}
        for k, v in s.items():
            if k in ("description", "title", "$schema"):
                continue
            if k == "additionalProperties" and (v is True or v == {}):
                continue
            if k in ("type", "required", "enum") and isinstance(v, list):
                out[k] = sorted(v, key=json.dumps)
            elif k == "properties":
                out[k] = {p: norm_schema(q) for p, q in v.items()}
            else:
                out[k] = norm_schema(v)
        return out
    if isinstance(s, list):
        return [norm_schema(i) for i in s]
    return s


def run(tier, seed, replay):
    v = vlib.Verdict(PID, tier, seed)
    v.assumptions = [
        "defaults: absent, non-required properties only, recursively; an absent optional object whose descendants "
        "have defaults is materialised (DESIGN.md C16) and the result must be valid (objNest); the family contains "
        "no default under a required object",
        "arguments `null` are outside the family (the SDK treats them as absent arguments)",
        "a client cannot tell structuredContent null from absent: both are read as null",
        "the handlers of the output family return no error of their own, so 'reported as an error rather than returned' is read "
        "two-sided: invalid output (after defaults) => error, valid output => successful result (ValidOutputReturned), "
        "as InvokedIffValid does on the input side",
        "Go nil forms stand for the value Go gives them: nil map = {}, nil *T = zero T (documented; *struct and *int, in every "
        "SchemaCache arrangement: reflected, cache hit after an earlier registration, hit through the element-type sibling, "
        "filling the cache), nil slice = null; "
        "for struct inputs an optional member that is null is the same as an absent one",
        "integers are sent in seeded spellings (3, 3.0, 3e0, 30e-1) and member orders",
        "interleavings: N calls in flight on one server and one session (in-memory transport), each cut into the steps invoke / "
        "produce / respond of TypedToolConc.tla; the steps are pinned by a gate in the handler and a gate in a receiving middleware "
        "after next() inside a synctest bubble (synctest.Wait after every step; GOMAXPROCS(1), thorough also the default), calls are "
        "tagged through _meta; interleavings INSIDE a step (e.g. between marshalling and validating one output) are not enumerated; "
        "a call without an answer after all steps is read as a failed (not successful) call",
    ]
    out = vlib.outdir(PID)
    for f in os.listdir(out):  # violation files of earlier runs would be mistaken for this run's
        if f.startswith("violation-") and not (replay and os.path.join(out, f) == os.path.abspath(replay)):
            os.remove(os.path.join(out, f))
    wd = vlib.scratch("tlc-")
    res = vlib.run_tlc("TypedTool", "TypedTool.cfg", workdir=wd, workers=1, timeout=900, heap_gb=4)
    vlib.tlc_must_pass(res, "TypedTool")
    if not res.ok:
        raise vlib.MachineryError("TypedTool design check failed: " + (res.violation or res.stdout[-3000:]))
    counts = [p for p in res.printed if isinstance(p, dict) and "incases" in p][0]
    v.add_tlc("TypedTool(design: Holds(c, Expected(c)) for all cases but the declared lead; export)", res)
    ncases = counts["incases"] + counts["rincases"] + counts["xincases"] + counts["sincases"] + counts["outcases"]
    v.cov["states"] = ncases  # one "state" per abstract case of the decision table
    v.cov["transitions"] = ncases
    allrows = vlib.read_ndjson(os.path.join(wd, "cases.ndjson"))
    schemas = [r for r in allrows if r["kind"] in ("schema", "goschema")]
    cases = [r for r in allrows if r["kind"] in ("in", "xin", "rin", "sin", "out")]
    if len(cases) != ncases:
        raise vlib.MachineryError("export has %d cases, TLC counted %d" % (len(cases), ncases))

    # ---- selection
    if replay:
        rep = json.load(open(replay))
        chosen = [rep["replay"]["c"]]
        exhaustive = False
        rule = "replay of one recorded case"
    elif tier == "thorough":
        chosen = cases
        exhaustive = True
        rule = "complete family enumerated by TLC (TypedTool!InSeq, XInCases, RInCases, SInCases, OutCases)"
    else:
        rnd = random.Random(seed)
        core, rest = [], []
        for c in cases:
            if c["kind"] != "in" or c["valid"] or deviations(c) <= 1 or present(c) <= 1:
                core.append(c)
            else:
                rest.append(c)
        chosen = core + rnd.sample(rest, min(QUICK_SAMPLE, len(rest)))
        exhaustive = False
        rule = ("all output cases, all valid input cases, all boundary cases (at most one member off the valid base, or at most one "
                "member present), all cases of the other kinds (defaults interacting with other keywords, reflected Go types, "
                "explicit schemas on struct types, every SchemaCache arrangement), plus %d seeded samples of the remaining product" % min(QUICK_SAMPLE, len(rest)))
    # ---- interleaving dimension: schedules from the state machine, cases from the pool
    pool = [r["case"] for r in allrows if r["kind"] == "concpool"]
    pool3 = [r["case"] for r in allrows if r["kind"] == "concpool" and r["three"]]
    if len(pool) != counts["concpool"] or len(pool3) != counts["concpool3"]:
        raise vlib.MachineryError("export has %d/%d pool cases, TLC counted %d/%d" % (len(pool), len(pool3), counts["concpool"], counts["concpool3"]))

    def schedules(cfg, n):
        sres = vlib.run_tlc("TypedToolConc", cfg, workers=1, timeout=300, heap_gb=2, extra_args=("-noGenerateSpecTE",))
        vlib.tlc_must_pass(sres, cfg)
        if not sres.ok:
            raise vlib.MachineryError("%s: design check failed: %s" % (cfg, sres.violation or sres.stdout[-2000:]))
        v.add_tlc("TypedToolConc(%s: PerCallOutput, NonInterference; export of complete schedules)" % cfg, sres)
        sch = [p for p in sres.printed if isinstance(p, dict) and p.get("n") == n and "sched" in p]
        if not sch or not any(p["sequential"] for p in sch) or not all(any(p["overlapped"][i] > 0 for p in sch) for i in range(n)):
            raise vlib.MachineryError("%s: schedule export is vacuous (%d schedules)" % (cfg, len(sch)))
        return sch

    sched2 = schedules("TypedToolConc.cfg", 2)
    ares = vlib.run_tlc("TypedToolConc", "TypedToolConcAlias.cfg", workers=1, timeout=300, heap_gb=2, extra_args=("-noGenerateSpecTE",))
    vlib.tlc_must_pass(ares, "TypedToolConcAlias")
    if ares.violation != "PerCallOutput":
        raise vlib.MachineryError("what-if TypedToolConcAlias.cfg (shared scratch cell) must violate PerCallOutput; got %s" % (ares.violation or "no violation"))
    sched3 = schedules("TypedToolConc3.cfg", 3) if (tier == "thorough" and not replay) else []
    scenarios = []

    def add_scn(cases_, sch, procs):
        names = "ABC"[:len(cases_)]
        scenarios.append({"kind": "conc", "scn": len(scenarios) + 1, "procs": procs, "sched": sch["sched"],
                          "calls": {names[i]: cases_[i] for i in range(len(cases_))}})

    if replay:
        if rep["replay"].get("scenario"):
            chosen = []
            scenarios = [dict(rep["replay"]["scenario"], scn=1)]
            rule = "replay of one recorded concurrent scenario"
        conc_rule = rule
    else:
        pairs = [(a, b) for a in pool for b in pool]
        if tier == "thorough":
            for procs in (1, 0):
                for a, b in pairs:
                    for sch in sched2:
                        add_scn((a, b), sch, procs)
            for a in pool3:
                for b in pool3:
                    for c3 in pool3:
                        for sch in sched3:
                            add_scn((a, b, c3), sch, 1)
            conc_rule = ("concurrent scenarios: ConcPool^2 (%d ordered pairs) x all %d schedules of 2 calls, with GOMAXPROCS 1 and default; "
                         "Conc3^3 (%d triples) x all %d schedules of 3 calls" % (len(pairs), len(sched2), len(pool3) ** 3, len(sched3)))
        else:
            rnd2 = random.Random(seed * 7919 + 16)
            core2 = [pr for pr in pairs if is_nonobj_out(pr[0]) and is_nonobj_out(pr[1])]
            rest2 = [pr for pr in pairs if not (is_nonobj_out(pr[0]) and is_nonobj_out(pr[1]))]
            pick2 = core2 + rnd2.sample(rest2, min(CONC_QUICK_REST, len(rest2)))
            for a, b in pick2:
                for sch in sched2:
                    add_scn((a, b), sch, 1)
            conc_rule = ("concurrent scenarios: all %d schedules of 2 calls x every ordered pair of ConcPool with non-object outputs on "
                         "both sides (%d pairs) + %d seeded other pairs (object outputs, input cases), GOMAXPROCS 1" % (len(sched2), len(core2), len(pick2) - len(core2)))
    ncalls = sum(len(sc["calls"]) for sc in scenarios)
    cin = os.path.join(out, "cases.ndjson")
    vlib.write_ndjson(cin, schemas + chosen + scenarios)

    # ---- real code
    obs = os.path.join(out, "obs.ndjson")
    for p in (obs, obs + ".adv"):
        if os.path.exists(p):
            os.remove(p)
    rc, gout, wall = vlib.go_test("mcp", "^TestVerif_C16$", ["mcp/c16_typedtool_test.go"],
                                  env={"VERIF_IN": cin, "VERIF_OUT": obs, "VERIF_SEED": seed}, timeout=900)
    vlib.go_must_build(rc, gout, PID)
    if rc != 0:
        if "panic:" in gout and "c16:" not in gout.split("panic:", 1)[1][:200]:
            rows = vlib.read_ndjson(obs) if os.path.exists(obs) else []
            v.violation("panic", "SDK panicked while serving a typed tool call (after %d calls)" % len(rows),
                        {"output": gout[-4000:]})
            return v.finish()
        raise vlib.MachineryError("C16 harness failed:\n" + gout[-3000:])
    rows = vlib.read_ndjson(obs)
    if len(rows) != len(chosen) + ncalls:
        raise vlib.MachineryError("harness ran %d of %d cases" % (len(rows), len(chosen) + ncalls))
    # the calls of the concurrent scenarios: rows after the sequential ones, scenario by scenario, calls in name order
    scn_of = {}
    k = len(chosen)
    for scn in scenarios:
        for who in sorted(scn["calls"]):
            e = rows[k]
            if e["c"].get("scn") != scn["scn"] or e["c"].get("who") != who:
                raise vlib.MachineryError("row %d is not call %s of scenario %d" % (k + 1, who, scn["scn"]))
            ok, at, want = check_pinned(scn, who, e["o"])
            if not ok:
                raise vlib.MachineryError("scenario %d (%s): the replay of call %s did not follow the schedule %s: events at %s, expected %s"
                                          % (scn["scn"], case_short(scn["calls"][who]), who, scn["sched"], at, want))
            scn_of[k + 1] = (scn, who)
            k += 1

    # ---- binding of the reflected family: advertised schema == TypedToolDefs!GoInSchema / GoOutSchema
    adv = json.load(open(obs + ".adv"))
    drifted = set()
    for s in schemas:
        if s["kind"] != "goschema":
            continue
        name = ("rin." if s["dir"] == "in" else "rout.") + s["id"]
        for cached in ("none", "warm", "xfirst", "pfirst"):
            a = adv.get("%s|cache=%s" % (name, cached))
            if a is None:
                raise vlib.MachineryError("tool %s not advertised" % name)
            if norm_schema(a[s["dir"]]) != norm_schema(s["schema"]):
                drifted.add((s["dir"], s["id"]))
                v.drift.append("advertised %sput schema of Go type %s (cache=%s) differs from TypedToolDefs: %s" % (
                    s["dir"], s["id"], cached, json.dumps(a[s["dir"]], sort_keys=True)))

    # ---- verdict
    fails, mres = vlib.run_monitor("TypedToolMon", "TypedToolMon.cfg", obs, timeout=1500, heap_gb=8)
    v.add_tlc("TypedToolMon", mres)
    v.cov["traces_validated_against_impl"] = len(rows)
    v.cov["evaluations"] = len(rows)
    v.cov["distinct_nontrivial"] = len({json.dumps(r["c"], sort_keys=True) for r in rows
                                        if r["c"]["kind"] == "out" or r["o"]["ran"] or deviations(r["c"]) <= 2})
    v.cov["rule"] = rule + "; non-trivial = output case, handler ran, or at most two members off the valid base; " + conc_rule
    v.cov["concurrent"] = {"pool": len(pool), "pool3": len(pool3), "schedules_2_calls": len(sched2), "schedules_3_calls": len(sched3),
                           "scenarios": len(scenarios), "calls": ncalls,
                           "scenarios_with_overlap": sum(1 for sc in scenarios if has_overlap(sc)),
                           "calls_without_answer": sum(1 for r in rows[len(chosen):] if r["o"].get("fail")),
                           "whatif_shared_scratch": "violates PerCallOutput (as required)"}
    v.cov["exhaustive"] = exhaustive
    v.cov["family"] = counts
    v.cov["handler_ran"] = sum(1 for r in rows if r["o"]["ran"])
    v.cov["error_results"] = sum(1 for r in rows if r["o"]["isError"])
    v.cov["protocol_errors"] = sum(1 for r in rows if r["o"]["proto"])
    v.cov["go_wall_s"] = round(wall, 1)
    for r in rows[:: max(1, len(rows) // 5)][:5]:
        v.sample(r)
    leads_seen = sum(1 for r in rows if r["c"]["kind"] == "out" and r["c"].get("lead"))
    failed_lines = {}
    for f in fails:
        failed_lines.setdefault(f["line"], []).append(f["monfail"])
    leads_reproduced = 0
    found = []
    for line, invs in sorted(failed_lines.items()):
        e = rows[line - 1]
        c, o = e["c"], e["o"]
        props = [i for i in invs if i != "drift"]
        sig = out_sig(c, o) if c["kind"] == "out" else in_sig(c, o)
        if line in scn_of:
            scn, who = scn_of[line]
            sig = conc_sig(scn, who, c, o)
            e = {"c": c, "o": o, "scenario": scn}
        if "drift" in invs:
            v.drift.append("outcome differs from the code-shaped expectation: " + sig)
        if not props:
            continue
        key = ("out", c["okind"]) if c["kind"] == "out" else ("in", c["ty"])
        if (c["kind"] == "out" and c["sid"] == "reflect" and key in drifted) or (c["kind"] == "rin" and key in drifted):
            v.drift.append("not judged (reference schema drifted): %s fails %s" % (sig, ",".join(props)))
            continue
        if c["kind"] == "out" and c.get("lead"):
            leads_reproduced += 1
        found.append((",".join(sorted(props)), sig, e))
    # report one representative of every violated predicate set first (vlib prints the first dozen)
    firsts, later, seen_props = [], [], set()
    for props, sig, e in found:
        (later if props in seen_props else firsts).append((props, sig, e))
        seen_props.add(props)
    for props, sig, e in firsts + later:
        v.violation(sig, "real typed-tool outcome violates %s" % props, e)
    v.cov["violated_predicates"] = sorted(seen_props)
    # a lead of the design model that the real code does not reproduce means the model's ExpectedOut is
    # no longer the code's behaviour there; it then shows up as drift on those lines (reported above).
    v.cov["design_leads"] = {"cases_run": leads_seen, "reproduced_on_real_code": leads_reproduced}
    return v.finish()
