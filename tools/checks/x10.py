"""X10 - elicitation in both directions: extension check (tools/EXT_PROMPT.md).

Part (a)  spec/ElicitDefs.tla states the properties A1..A6 (PROPERTIES block) and the decision table of
  ServerSession.Elicit / Client.elicit / validateElicitSchema and helpers / Client.capabilities /
  callElicitationCompleteHandler.  TLC (module Elicit) enumerates the complete product (paths x capability
  declarations x modes x url / elicitationId x schema classes x required x handler answers; messages without
  params), checks that the property fails on the code-shaped Expected exactly on the named deviations D2, D3, and
  exports the cases.  harness/mcp/x10_elicit_test.go (TestVerif_X10Table) runs every case on a real client against
  a real server (three protocol eras, direct Elicit and InputRequests) or a scripted raw peer; ElicitMon judges
  the outcomes (verdict) and compares them with Expected (drift).
Part (b)  spec/ElicitURL.tla states U1..U6 and models urlElicitationMiddleware / registerElicitationWaiter /
  callElicitationCompleteHandler step by step.  TLC checks safety exhaustively on bounded configurations, liveness
  under weak fairness, and must find the two named deviations (lead configurations).  Behaviours - edge covers of
  the one-call and the two-call graph (tools/graphwalk.py), seeded simulations (ElicitURLGen), the counterexample of
  the shared-id lead, corner scripts - are projected onto the environment's steps and replayed on the real client
  under testing/synctest (TestVerif_X10URL).  ElicitURLMon judges the logs, ElicitURLTrace must explain every line.
"""
import json, os, random, re, tempfile, threading
import vlib, graphwalk

PID = "X10"
HARNESS = ["mcp/x10_elicit_test.go"]
URL_ACTIONS = ["Start", "CtxCancel", "Send", "SrvRespond", "CtxAbort", "Decide", "Register", "AskBegin", "AskEnd",
               "AwaitOk", "AwaitCtx", "AwaitDone", "Cleanup", "Return", "SrvNotify", "CliNotify"]


# short runs: the C1 compiler only (a TLC run of a few seconds spends most of its CPU time in the JIT otherwise)
FAST_JVM = ("-XX:TieredStopAtLevel=1",)


def own_tlc(module, cfg, **kw):
    wd = tempfile.mkdtemp(prefix="x10-")
    vlib._scratch.append(wd)
    kw.setdefault("java_opts", FAST_JVM)
    return vlib.run_tlc(module, cfg, workdir=wd, **kw), wd


def run_monitor(module, cfg, obs_path, timeout=600, heap_gb=4):
    res, _ = own_tlc(module, cfg, extra_files={"obs.ndjson": obs_path}, workers=1, timeout=timeout, heap_gb=heap_gb)
    fails = [p for p in res.printed if isinstance(p, dict) and "monfail" in p]
    hwm = [p for p in res.printed if isinstance(p, dict) and "hwm" in p]
    if res.error or hwm or res.violation or not res.ok:
        tail = "\n".join(res.stdout.splitlines()[-30:])
        raise vlib.MachineryError("monitor %s did not consume the log (%s %s %s)\n%s" % (module, res.error, hwm, res.violation, tail))
    return fails, res


def run_strict(module, cfg, obs_path, timeout=600, heap_gb=4):
    res, _ = own_tlc(module, cfg, extra_files={"obs.ndjson": obs_path}, workers=1, timeout=timeout, heap_gb=heap_gb)
    hwm = [p for p in res.printed if isinstance(p, dict) and "hwm" in p]
    if res.ok and not hwm:
        return True, None, res
    if hwm:
        return False, hwm[0]["hwm"], res
    if res.violation:
        return False, -1, res
    tail = "\n".join(res.stdout.splitlines()[-30:])
    raise vlib.MachineryError("strict %s failed to run: %s\n%s" % (module, res.error, tail))


class Jobs:
    """TLC runs side by side (each in its own scratch directory)."""

    def __init__(self):
        self.th, self.out, self.err = [], {}, {}

    def add(self, name, module, cfg, **kw):
        def work():
            try:
                self.out[name] = own_tlc(module, cfg, **kw)
            except Exception as e:  # noqa
                self.err[name] = e
        t = threading.Thread(target=work)
        t.start()
        self.th.append(t)

    def join(self):
        for t in self.th:
            t.join()
        if self.err:
            name, e = sorted(self.err.items())[0]
            raise vlib.MachineryError("TLC job %s: %s" % (name, e))
        return self.out


# --------------------------------------------------------------------------
# part (a): signatures


def prop_desc(p):
    parts = [p["ty"]]
    for k in ("fmt", "len", "def", "en", "oneof", "rng", "items"):
        if p[k] != "none":
            parts.append("%s=%s" % (k, p[k]))
    if p["nested"]:
        parts.append("nested")
    return "/".join(parts)


def case_desc(c):
    s = c["sch"]
    sch = s["root"] if s["root"] in ("nil", "objempty") else "%s{%s}%s" % (s["root"], prop_desc(s["p"]), "" if s["second"] == "none" else "+" + s["second"])
    return "%s|h%d|%s|mode=%s%s%s|%s%s|%s/%s" % (c["path"], int(c["handler"]), c["decl"], c["mode"], "+url" if c["url"] else "",
                                                "+eid" if c["eid"] else "", sch, "|req" if c["req"] else "", c["res"]["act"], c["res"]["val"])


def table_sig(clause, e):
    c, o = e["c"], e["o"]
    p = c["sch"]["p"]
    if clause == "A1.NoCrash":
        meth = "notifications/elicitation/complete" if c["kind"] == "notif" else "elicitation/create"
        return "A1.NoCrash:%s:no-params" % meth
    if clause == "A3.WellFormedOnly" and p["ty"] == "string" and p["def"] == "badtype" and (p["en"] != "none" or p["oneof"] != "none") \
            and o["asked"] == 1 and c["sch"]["second"] != "bad" and c["sch"]["root"] != "string":
        return "A3.WellFormedOnly:string-enum:default=badtype:consulted"
    if clause == "A5.Matches" and c["res"] == {"act": "accept", "val": "nil"} and c["req"] and o["pv"] == "absent":
        return "A5.Matches:accept-without-content:required:accepted"
    return "%s:%s:ret=%s,asked=%d,sent=%d,pv=%s" % (clause, case_desc(c), o["ret"], o["asked"], int(o["sent"]), o["pv"])


def table_selftest_rows(rows):
    """Corrupted copies of real outcomes, appended to the monitor's log: each must be flagged by the clause that speaks
    about the corrupted field (and a wrong error code by the strict comparison only).  Returns [(name, row, clause)];
    a variant whose base outcome is missing (a changed tree) is left out."""
    def find(pred):
        for r in rows:
            if pred(r):
                return json.loads(json.dumps(r))
        return None

    good_accept = find(lambda r: r["c"]["kind"] == "schema" and r["c"]["path"] == "d1125" and r["c"]["res"] == {"act": "accept", "val": "valid"}
                       and r["o"]["ret"] == "result" and r["o"]["pv"] == "same" and r["c"]["sch"]["p"]["def"] == "none"
                       and r["c"]["sch"]["root"] == "object" and r["c"]["sch"]["p"]["ty"] == "string" and r["o"]["asked"] == 1)
    refused = find(lambda r: r["c"]["kind"] == "schema" and r["c"]["sch"]["p"]["ty"] == "object" and r["o"]["asked"] == 0 and r["o"]["ret"] == "error")
    gated = find(lambda r: r["c"]["kind"] == "gate" and r["c"]["path"] == "d1125" and r["c"]["decl"] == "url" and r["c"]["mode"] == "form"
                 and r["c"]["handler"] and not r["o"]["sent"] and r["o"]["ret"] == "error" and r["o"]["asked"] == 0)
    declined = find(lambda r: r["c"]["kind"] == "schema" and r["c"]["res"] == {"act": "decline", "val": "wrongtype"} and r["o"]["ret"] == "result"
                    and r["o"]["action"] == "decline" and r["c"]["sch"]["p"]["def"] in ("none", "ok") and r["c"]["sch"]["p"]["ty"] == "string")
    ipcode = find(lambda r: r["o"]["ret"] == "error" and r["o"]["code"] == "ip" and r["c"]["path"] == "d1125" and r["o"]["asked"] == 0
                  and r["c"]["kind"] == "gate")
    notif = find(lambda r: r["c"]["kind"] == "notif" and r["c"]["params"] == "normal" and r["c"]["uh"] and r["o"]["ucalled"])
    variants = []

    def v(name, row, field, val, clause):
        if row is None:
            return
        r = json.loads(json.dumps(row))
        if field:
            r["o"][field] = val
        variants.append((name, r, clause))
    v("intact", good_accept, None, None, None)
    v("ret", good_accept, "ret", "error", "A4.OnlyOnAccept")
    v("pv", good_accept, "pv", "other", "A4.OnlyOnAccept")
    v("pv5", good_accept, "pv", "default", "A5.Matches")
    v("asked", refused, "asked", 1, "A3.WellFormedOnly")
    v("sent", gated, "sent", True, "A2.Gate")
    v("declined", declined, "ret", "error", "A4.OnlyOnAccept")
    v("crash", good_accept, "crash", True, "A1.NoCrash")
    v("ucalled", notif, "ucalled", False, "A6.Completion")
    v("code", ipcode, "code", "local", "drift")
    return variants


def table_prepare(v, replay, out, design):
    """design: (TLCResult, workdir) of module Elicit.  Returns (cases path, number of cases)."""
    res, wd = design
    vlib.tlc_must_pass(res, "Elicit")
    if not res.ok:
        raise vlib.MachineryError("Elicit design check failed (Holds(c, Expected(c)) <=> no named deviation): %s\n%s" % (
            res.violation, "\n".join(res.stdout.splitlines()[-15:])))
    info = [p for p in res.printed if isinstance(p, dict) and "cases" in p][0]
    v.add_tlc("Elicit (design: Holds(c, Expected(c)) fails exactly on D2, D3; export)", res)
    v.cov["table"] = info
    cases = os.path.join(out, "cases.ndjson")
    if replay is not None:
        vlib.write_ndjson(cases, [replay])
        return cases, 1
    os.replace(os.path.join(wd, "cases.ndjson"), cases)
    return cases, info["cases"]


def table_judge(v, replay, out, obs, ncases):
    rows = vlib.read_ndjson(obs)
    if len(rows) != ncases:
        raise vlib.MachineryError("table harness ran %d of %d cases" % (len(rows), ncases))
    variants = table_selftest_rows(rows) if replay is None else []
    mon = os.path.join(out, "obs_table_mon.ndjson")
    vlib.write_ndjson(mon, rows + [r for (_, r, _) in variants])
    fails, mres = run_monitor("ElicitMon", "ElicitMon.cfg", mon)
    v.add_tlc("ElicitMon", mres)
    v.cov["evaluations"] += len(rows)
    v.cov["traces_validated_against_impl"] += len(rows)
    v.cov["distinct_nontrivial"] += len({json.dumps(r["c"], sort_keys=True) for r in rows if r["o"]["asked"] > 0})
    v.cov["table_outcomes"] = {
        "handler_consulted": sum(1 for r in rows if r["o"]["asked"] > 0),
        "results": sum(1 for r in rows if r["o"]["ret"] == "result"),
        "refused_by_client(-32602)": sum(1 for r in rows if r["o"]["code"] == "ip"),
        "refused_locally": sum(1 for r in rows if r["o"]["code"] == "local"),
        "defaults_applied": sum(1 for r in rows if r["o"]["pv"] == "default"),
        "crashes": sum(1 for r in rows if r["o"]["crash"]),
    }
    for r in rows[:: max(1, len(rows) // 3)][:3]:
        v.sample({"case": case_desc(r["c"]), "outcome": {k: r["o"][k] for k in ("sent", "asked", "ret", "code", "action", "cont", "pv")}})
    got = {}
    nreal = 0
    for f in fails:
        if f["line"] > len(rows):
            got.setdefault(variants[f["line"] - len(rows) - 1][0], set()).add(f["monfail"])
            continue
        nreal += 1
        e = rows[f["line"] - 1]
        if f["monfail"] == "drift":
            v.drift.append("table: outcome differs from ElicitDefs!Expected: %s -> %s" % (case_desc(e["c"]), json.dumps({k: e["o"][k] for k in ("crash", "sent", "asked", "ret", "code", "action", "cont", "pv", "zv", "ucalled")})))
        else:
            v.violation(table_sig(f["monfail"], e), "real outcome violates %s: %s -> ret=%s asked=%d pv=%s crash=%s %s" % (
                f["monfail"], case_desc(e["c"]), e["o"]["ret"], e["o"]["asked"], e["o"]["pv"], e["o"]["crash"], e["o"].get("info", "")[:120]),
                {"part": "table", "case": e["c"], "outcome": e["o"]})
    v.cov["table_monitor_failures"] = nreal
    if replay is None:
        # the binding bites: every corrupted copy is flagged by the clause that speaks about the corrupted field
        if len(variants) < 10 and not v.violations and not v.drift:
            raise vlib.MachineryError("binding self-test (table): base outcomes missing although the run is clean")
        if got.get("intact") and v.violations:
            variants = []
            v.cov["table_binding_selftest"] = {"skipped": "the base outcome violates %s on this tree" % sorted(got["intact"])}
        for (name, _, clause) in variants:
            if clause is None:
                if got.get(name):
                    raise vlib.MachineryError("binding self-test (table): the intact outcome is flagged: %s" % got[name])
            elif clause not in got.get(name, ()):
                raise vlib.MachineryError("binding self-test (table): corruption %r not flagged as %s (got %s)" % (name, clause, sorted(got.get(name, ()))))
        if any(n == "code" for (n, _, _) in variants) and got.get("code") != {"drift"}:
            raise vlib.MachineryError("binding self-test (table): a wrong error code must be drift only, got %s" % got.get("code"))
        if variants:
            v.cov["table_binding_selftest"] = {n: sorted(c) for n, c in got.items()}


# --------------------------------------------------------------------------
# part (b): scripts


def step(a, c=0, k="", ids=(), i="", h=""):
    return {"a": a, "c": c, "k": k, "ids": list(ids), "i": i, "h": h}


def steps_of_path(path):
    out = []
    for (name, args) in path:
        if name == "Start":
            out.append(step("start", c=args[0]))
        elif name == "CtxCancel":
            out.append(step("cancel", c=args[0]))
        elif name == "SrvRespond":
            raw = ",".join(str(a) for a in args[1:])
            m = re.search(r'kind \|-> "(\w+)",\s*ids \|-> <<(.*?)>>', raw)
            if not m:
                raise vlib.MachineryError("cannot parse SrvRespond label: %r" % (args,))
            out.append(step("resp", c=args[0], k=m.group(1), ids=re.findall(r'"(\w+)"', m.group(2))))
        elif name == "AskEnd":
            out.append(step("hend", c=args[0], h=args[1]))
        elif name == "SrvNotify":
            out.append(step("notify", i=args[0]))
        elif name == "CliNotify":
            out.append(step("cnotif"))
    return out


def steps_of_hist(hist):
    cfgh, out = True, []
    for h in hist:
        if h["a"] == "setup":
            cfgh = bool(h["h"])
        else:
            out.append(step(h["a"], c=h["c"], k=h["k"], ids=h["ids"], i=h["i"], h=h["h"]))
    return cfgh, out


S = step
CORNERS = [
    # (name, handler?, steps) - the races the task names; the drain phase of the harness completes every script
    ("before-registration", True, [S("start", 1), S("notify", i="x"), S("cnotif"), S("resp", 1, "urlreq", ["x"]), S("hend", 1, h="accept")]),
    ("held-before-registration", True, [S("start", 1), S("notify", i="x"), S("resp", 1, "urlreq", ["x"]), S("cnotif"), S("hend", 1, h="accept")]),
    ("between-registration-and-wait", True, [S("start", 1), S("resp", 1, "urlreq", ["x"]), S("notify", i="x"), S("cnotif"), S("hend", 1, h="accept"), S("resp", 1, "ok")]),
    ("never", True, [S("start", 1), S("resp", 1, "urlreq", ["x"]), S("hend", 1, h="accept")]),
    ("two-ids-reverse", True, [S("start", 1), S("resp", 1, "urlreq", ["x", "y"]), S("hend", 1, h="accept"), S("hend", 1, h="accept"), S("notify", i="y"), S("cnotif"), S("notify", i="x"), S("cnotif"), S("resp", 1, "ok")]),
    ("two-ids-one-missing", True, [S("start", 1), S("resp", 1, "urlreq", ["x", "y"]), S("hend", 1, h="accept"), S("hend", 1, h="accept"), S("notify", i="y"), S("cnotif")]),
    ("twice", True, [S("start", 1), S("resp", 1, "urlreq", ["x"]), S("hend", 1, h="accept"), S("notify", i="x"), S("notify", i="x"), S("cnotif"), S("cnotif"), S("resp", 1, "ok")]),
    ("shared-both-registered", True, [S("start", 1), S("start", 2), S("resp", 1, "urlreq", ["x"]), S("resp", 2, "urlreq", ["x"]), S("hend", 1, h="accept"), S("hend", 2, h="accept"), S("notify", i="x"), S("cnotif")]),
    ("shared-second-registers-late", True, [S("start", 1), S("start", 2), S("resp", 1, "urlreq", ["x"]), S("hend", 1, h="accept"), S("notify", i="x"), S("cnotif"), S("resp", 2, "urlreq", ["x"]), S("hend", 2, h="accept"), S("resp", 1, "ok")]),
    ("shared-cancel-unregisters-other", True, [S("start", 1), S("start", 2), S("resp", 1, "urlreq", ["x"]), S("resp", 2, "urlreq", ["x"]), S("hend", 1, h="accept"), S("hend", 2, h="accept"), S("cancel", 2), S("notify", i="x"), S("cnotif")]),
    ("shared-return-unregisters-other", True, [S("start", 1), S("resp", 1, "urlreq", ["x"]), S("hend", 1, h="accept"), S("notify", i="x"), S("cnotif"), S("start", 2), S("resp", 2, "urlreq", ["x"]), S("hend", 2, h="accept"), S("resp", 1, "ok"), S("notify", i="x"), S("cnotif")]),
    ("same-id-twice-in-one-error", True, [S("start", 1), S("resp", 1, "urlreq", ["x", "x"]), S("hend", 1, h="accept"), S("hend", 1, h="accept"), S("notify", i="x"), S("cnotif")]),
    ("same-id-twice-two-completions", True, [S("start", 1), S("resp", 1, "urlreq", ["x", "x"]), S("hend", 1, h="accept"), S("hend", 1, h="accept"), S("notify", i="x"), S("cnotif"), S("notify", i="x"), S("cnotif")]),
    ("decline-then-completion", True, [S("start", 1), S("resp", 1, "urlreq", ["x"]), S("hend", 1, h="decline"), S("notify", i="x"), S("cnotif"), S("resp", 1, "ok")]),
    ("decline-no-completion", True, [S("start", 1), S("resp", 1, "urlreq", ["x"]), S("hend", 1, h="decline")]),
    ("cancel-no-completion", True, [S("start", 1), S("resp", 1, "urlreq", ["x", "y"]), S("hend", 1, h="cancel"), S("hend", 1, h="accept"), S("notify", i="y"), S("cnotif")]),
    ("handler-fails-second", True, [S("start", 1), S("resp", 1, "urlreq", ["x", "y"]), S("hend", 1, h="accept"), S("hend", 1, h="herr"), S("notify", i="x"), S("cnotif")]),
    ("ctx-while-waiting", True, [S("start", 1), S("resp", 1, "urlreq", ["x"]), S("hend", 1, h="accept"), S("cancel", 1), S("notify", i="x"), S("cnotif")]),
    ("ctx-while-handler-runs", True, [S("start", 1), S("resp", 1, "urlreq", ["x"]), S("cancel", 1), S("hend", 1, h="accept")]),
    ("ctx-in-flight", True, [S("start", 1), S("cancel", 1), S("resp", 1, "urlreq", ["x"])]),
    ("ctx-during-retry", True, [S("start", 1), S("resp", 1, "urlreq", ["x"]), S("hend", 1, h="accept"), S("notify", i="x"), S("cnotif"), S("cancel", 1)]),
    ("ctx-and-completion-together", True, [S("start", 1), S("resp", 1, "urlreq", ["x"]), S("notify", i="x"), S("cnotif"), S("cancel", 1), S("hend", 1, h="accept")]),
    ("error-again", True, [S("start", 1), S("resp", 1, "urlreq", ["x"]), S("hend", 1, h="accept"), S("notify", i="x"), S("cnotif"), S("resp", 1, "urlreq", ["y"]), S("notify", i="y"), S("cnotif")]),
    ("empty-list", True, [S("start", 1), S("resp", 1, "urlreq", []), S("resp", 1, "urlreq", [])]),
    ("other-error-on-retry", True, [S("start", 1), S("resp", 1, "urlreq", ["x"]), S("hend", 1, h="accept"), S("notify", i="x"), S("cnotif"), S("resp", 1, "err")]),
    ("unknown-everywhere", True, [S("notify", i="u"), S("cnotif"), S("start", 1), S("notify", i="u"), S("cnotif"), S("resp", 1, "urlreq", ["x"]), S("notify", i="u"), S("cnotif"), S("hend", 1, h="accept"), S("notify", i="y"), S("cnotif"), S("notify", i="x"), S("cnotif"), S("notify", i="x"), S("cnotif"), S("resp", 1, "ok"), S("notify", i="x"), S("cnotif")]),
    ("no-handler", False, [S("start", 1), S("resp", 1, "urlreq", ["x"]), S("notify", i="x"), S("cnotif")]),
    ("form-mode-in-error", True, [S("start", 1), S("resp", 1, "urlbad", ["x"]), S("notify", i="x"), S("cnotif")]),
    ("no-url-in-error", True, [S("start", 1), S("resp", 1, "urlnourl", ["x"]), S("notify", i="x"), S("cnotif")]),
    ("sequential-reuse", True, [S("start", 1), S("resp", 1, "urlreq", ["x"]), S("hend", 1, h="accept"), S("notify", i="x"), S("cnotif"), S("resp", 1, "ok"), S("start", 2), S("resp", 2, "urlreq", ["x"]), S("hend", 2, h="accept"), S("notify", i="x"), S("cnotif"), S("resp", 2, "ok")]),
    ("three-calls-distinct", True, [S("start", 1), S("start", 2), S("start", 3), S("resp", 3, "urlreq", ["z"]), S("resp", 1, "urlreq", ["x", "y"]), S("resp", 2, "ok"), S("hend", 3, h="accept"), S("hend", 1, h="accept"), S("notify", i="z"), S("notify", i="y"), S("hend", 1, h="accept"), S("cnotif"), S("cnotif"), S("notify", i="x"), S("cnotif"), S("resp", 3, "ok"), S("resp", 1, "ok")]),
]


def key_of(cfgh, steps):
    return json.dumps([cfgh, steps], sort_keys=True)


def shared_id(trace_rows, c):
    """The abstract cause of a hang: does another call in progress - or the call itself, twice - name one of c's ids?"""
    firsts = {}
    for r in trace_rows:
        if r["ev"] == "resp" and r["c"] not in firsts:
            firsts[r["c"]] = r
    mine = firsts.get(c, {"ids": []})["ids"]
    if len(set(mine)) < len(mine):
        return "one-waiter-per-id"          # the id is named twice in the call's own error
    for c2, r in firsts.items():
        if c2 != c and r["kind"] == "urlreq" and set(r["ids"]) & set(mine):
            return "one-waiter-per-id"      # another call was told to wait for the same id
    return "other"


def url_sig(clause, e, trace_rows):
    if clause == "U6.Returns":
        return "U6.Returns:%s" % shared_id(trace_rows, e["c"])
    return "%s:%s:%s" % (clause, e["ev"], e.get("out") or e.get("kind") or e.get("id") or "-")


def url_selftest_traces(traces):
    """Corrupted copies of one real, accepted retry trace.  Returns [(name, rows, clause, strict_only)]."""
    def idx(tr, pred):
        return next(i for i, r in enumerate(tr) if pred(r))
    base = None
    for (tid, s, tr) in traces:
        if any(r["ev"] == "recv" and r["try"] == 2 for r in tr) and sum(1 for r in tr if r["ev"] == "start") == 1 \
                and any(r["ev"] == "cnotif" for r in tr) and any(r["ev"] == "ret" and r["out"] == "ok" for r in tr) \
                and any(r["ev"] == "ucall" for r in tr) and any(r["ev"] == "snap" and r["keys"] for r in tr) \
                and not any(r["ev"] in ("hang", "skip") for r in tr) and sum(1 for r in tr if r["ev"] == "hbegin") == 1 \
                and sum(1 for r in tr if r["ev"] == "notify") == 1:
            base = json.loads(json.dumps(tr))
            break
    if base is None:
        return []
    variants = []

    def v(name, edit, clause, strict_only=False):
        rows = [dict(r, trace="bind-" + name) for r in json.loads(json.dumps(base))]
        rows = edit(rows) or rows
        variants.append((name, rows, clause, strict_only))
    v("intact", lambda rows: None, None)
    v("no-completion", lambda rows: [r for r in rows if r["ev"] not in ("cnotif", "ucall", "notify")], "U2.RetryJustified")

    def ed_third(rows):
        i = idx(rows, lambda r: r["ev"] == "recv" and r["try"] == 2)
        return rows[:i + 1] + [dict(rows[i], **{"try": 3})] + rows[i + 1:]
    v("third-attempt", ed_third, "U2.NoThirdAttempt")

    def ed_twice(rows):
        i = idx(rows, lambda r: r["ev"] == "ret")
        return rows[:i + 1] + [dict(rows[i])] + rows[i + 1:]
    v("ret-twice", ed_twice, "U1.ExactlyOnce")

    def ed_out(rows):
        rows[idx(rows, lambda r: r["ev"] == "ret")]["out"] = "err"
    v("wrong-outcome", ed_out, "U1.Faithful")

    def ed_hbegin(rows):
        rows[idx(rows, lambda r: r["ev"] == "hbegin")]["id"] = "q"
    v("handler-for-unnamed", ed_hbegin, "U3.HandlerJustified")

    def ed_leak(rows):
        rows[-1]["keys"] = ["x"]
    v("leak-at-end", ed_leak, "U4.NoLeak")
    v("user-handler-missed", lambda rows: [r for r in rows if r["ev"] != "ucall"], "U5.UserHandlerOncePerCompletion")

    def ed_snap(rows):
        rows[idx(rows, lambda r: r["ev"] == "snap" and r["keys"])]["keys"] = []
    v("snapshot", ed_snap, None, strict_only=True)
    return variants


def url_lead_checks(v, jobs, quick):
    for name, (res, wd) in sorted(jobs.items()):
        if name == "design":
            continue
        vlib.tlc_must_pass(res, name)
        v.add_tlc(name, res)
    for name in [n for n in jobs if n.startswith("safety:") or n.startswith("live:")]:
        if not jobs[name][0].ok:
            raise vlib.MachineryError("ElicitURL violates %s in %s: the model is broken" % (jobs[name][0].violation, name))
    lead, _ = jobs["lead:shared (ElicitURL_lead_shared.cfg)"]
    if lead.violation != "LeadShared":
        raise vlib.MachineryError("sensitivity: the shared-id configuration must violate U5_CompletionReachesWaiter (E1), got %s" % (lead.violation or lead.error))
    if not quick:
        leadd, _ = jobs["lead:decline (ElicitURL_lead_decline.cfg)"]
        if not leadd.violation:
            raise vlib.MachineryError("sensitivity: with no completion owed for a declined elicitation U6_Returns must be violated (E2), got %s" % (leadd.error or "no violation"))
        cov, _ = jobs["safety:one (ElicitURL_one.cfg)"]
        dead = [a for a in URL_ACTIONS if a in cov.coverage and cov.coverage[a][1] == 0]
        if dead or not cov.coverage:
            raise vlib.MachineryError("vacuity: dead actions in ElicitURL_one.cfg: %s (coverage lines: %d)" % (dead, len(cov.coverage)))
        v.cov["action_coverage(ElicitURL_one.cfg)"] = {a: cov.coverage[a][1] for a in URL_ACTIONS if a in cov.coverage}


def url_prepare(v, tier, seed, replay, out, jobs):
    quick = tier == "quick"
    scen = []
    if replay is not None:
        scen = [replay]
    else:
        url_lead_checks(v, jobs, quick)
        lead, _ = jobs["lead:shared (ElicitURL_lead_shared.cfg)"]
        scripts = {}

        def add(kind, cfgh, steps):
            if any(s["a"] == "start" for s in steps):
                scripts.setdefault(key_of(cfgh, steps), (kind, cfgh, steps))
        for name, cfgh, steps in CORNERS:
            scripts[key_of(cfgh, steps) + name] = ("corner-" + name, cfgh, steps)
        for h in lead.printed:
            if isinstance(h, list) and h and isinstance(h[0], dict) and h[0].get("a") == "setup":
                cfgh, steps = steps_of_hist(h)
                scripts[key_of(cfgh, steps) + "lead"] = ("lead-shared", cfgh, steps)
        rnd = random.Random(seed)
        graph_stats = {}
        for name, cfgh in (("cover:one+handler", True), ("cover:one-nohandler", False), ("cover:two-shared", True)):
            if name not in jobs:
                continue
            res, wd = jobs[name]
            if not res.ok:
                raise vlib.MachineryError("cover configuration %s failed: %s" % (name, res.violation))
            init, edges = graphwalk.parse_dot(os.path.join(wd, "cover.dot"))
            seen_actions = {graphwalk.parse_label(l)[0] for outs in edges.values() for (l, _) in outs}
            if name == "cover:one+handler":
                miss = [a for a in URL_ACTIONS if a not in seen_actions]
                if miss:
                    raise vlib.MachineryError("vacuity: actions without an edge in the cover graph: %s" % miss)
            paths, total = graphwalk.cover(init, edges, maxlen=48, seed=seed)
            graph_stats[name] = {"nodes": len(edges), "edges": total, "paths": len(paths)}
            for p in paths:
                add(name, cfgh, steps_of_path(p))
        v.cov["cover_graphs"] = graph_stats
        sim, _ = jobs["sim (ElicitURL_sim.cfg)"]
        for h in sim.printed:
            if isinstance(h, list) and h and isinstance(h[0], dict) and h[0].get("a") == "setup":
                cfgh, steps = steps_of_hist(h)
                add("sim", cfgh, steps)
        by_kind = {}
        for _, (kind, cfgh, steps) in sorted(scripts.items()):
            by_kind.setdefault("corner" if kind.startswith("corner") else kind, []).append((kind, cfgh, steps))
        limits = {"cover:one+handler": 320 if quick else 2500, "sim": 260 if quick else 2500, "cover:one-nohandler": None if quick else 300}
        n = 0
        for kind in sorted(by_kind):
            lst = by_kind[kind]
            rnd.shuffle(lst)
            lim = limits.get(kind)
            for (k2, cfgh, steps) in (lst if lim is None else lst[:lim]):
                n += 1
                scen.append({"id": "%s#%d" % (k2, n), "cfgh": cfgh, "steps": steps})
        v.cov["scripts_distinct"] = {k: len(x) for k, x in by_kind.items()}
        v.cov["scripts_run"] = len(scen)
    spath = os.path.join(out, "scenarios.ndjson")
    vlib.write_ndjson(spath, scen)
    return spath, scen


def url_judge(v, replay, out, obs, scen, rc, gout):
    by_id = {s["id"]: s for s in scen}
    rows = vlib.read_ndjson(obs) if os.path.exists(obs) else []
    traces = vlib.split_traces(rows)
    if rc != 0 and "DATA RACE" not in gout:
        last = traces[-1][0] if traces else "?"
        if "panic:" in gout or "deadlock" in gout or "blocked goroutines remain" in gout:
            v.violation("U4.NoGoroutineLeft/NoCrash", "the client panicked or left goroutines behind while scenario %s ran" % last,
                        {"part": "url", "scenario": by_id.get(last), "output": gout[-3000:]})
        else:
            raise vlib.MachineryError("X10 harness failed:\n" + gout[-3000:])
    ended = sum(1 for r in rows if r["ev"] == "end")
    if rc == 0 and ended != len(scen):
        raise vlib.MachineryError("url harness finished %d of %d scenarios" % (ended, len(scen)))
    v.cov["traces_validated_against_impl"] += len(traces)
    v.cov["evaluations"] += sum(1 for r in rows if r["ev"] == "ret")
    v.cov["distinct_nontrivial"] += len({key_of(s["cfgh"], s["steps"]) for s in scen if any(x["a"] == "resp" and x["k"].startswith("url") for x in s["steps"])})
    outcomes = {}
    for r in rows:
        if r["ev"] == "ret":
            outcomes[r["out"]] = outcomes.get(r["out"], 0) + 1
        elif r["ev"] in ("hang", "skip"):
            outcomes[r["ev"]] = outcomes.get(r["ev"], 0) + 1
        elif r["ev"] == "recv" and r["try"] == 2:
            outcomes["retries"] = outcomes.get("retries", 0) + 1
    v.cov["url_real_outcomes"] = outcomes
    need = ["ok", "err", "urlreq", "badmode", "elicitfail", "ctxerr", "hang", "retries"]
    miss = [k for k in need if not outcomes.get(k)] if (replay is None and rc == 0) else []
    for tid, start, trows in traces[:: max(1, len(traces) // 3)][:3]:
        v.sample({"trace": tid, "events": [[r["ev"], r["c"], r["kind"] or r["id"] or r["h"] or r["out"]] for r in trows
                                           if r["ev"] in ("resp", "cnotif", "hend", "recv", "ret", "hang", "cancel")][:14]})
    variants = url_selftest_traces(traces) if replay is None else []
    extra = [r for (_, tr, _, so) in variants if not so for r in tr]
    mon = os.path.join(out, "obs_url_mon.ndjson")
    vlib.write_ndjson(mon, rows + extra)
    # strict log: the real traces, then the intact copy, then the copy with a corrupted waiter snapshot (must stop there)
    strict_tail = [r for (n, tr, _, _) in variants if n in ("intact", "snapshot") for r in tr]
    results = {}

    def mon_job():
        results["mon"] = run_monitor("ElicitURLMon", "ElicitURLMon.cfg", mon)

    def strict_job():
        cur = list(rows)
        drift = []
        for attempt in range(6):
            sp = os.path.join(out, "obs_url_strict.ndjson")
            vlib.write_ndjson(sp, cur + strict_tail)
            ok, hwm, sres = run_strict("ElicitURLTrace", "ElicitURLTrace.cfg", sp, timeout=900, heap_gb=6)
            results.setdefault("strict_runs", []).append(sres)
            if ok or hwm is None or hwm < 1 or hwm > len(cur):
                results["strict"] = (ok, hwm, len(cur), sres)
                break
            e = cur[hwm - 1]
            drift.append("url: scenario %s: line %d not explained by ElicitURL.tla: %s" % (
                e["trace"], hwm, json.dumps({k: e[k] for k in ("ev", "c", "try", "kind", "ids", "id", "h", "out", "keys")})))
            cur = [r for r in cur if r["trace"] != e["trace"]]
            results["strict"] = (False, hwm, len(cur), sres)     # attempts exhausted: the code drifts in many traces
            results["gave_up"] = True
        results["drift"] = drift
    errs = []

    def guard(f):
        def g():
            try:
                f()
            except Exception as ex:  # noqa
                errs.append(ex)
        return g
    ths = [threading.Thread(target=guard(mon_job)), threading.Thread(target=guard(strict_job))]
    for t in ths:
        t.start()
    return ths, errs, results, rows, traces, variants, by_id, miss


def url_finish(v, replay, ths, errs, results, rows, traces, variants, by_id, miss):
    for t in ths:
        t.join()
    if errs:
        raise errs[0]
    fails, mres = results["mon"]
    v.add_tlc("ElicitURLMon", mres)
    got, nreal = {}, 0
    spans, at = {}, len(rows)
    for (name, tr, _, so) in variants:
        if not so:
            spans[name] = (at + 1, at + len(tr))
            at += len(tr)
    for f in fails:
        if f["line"] > len(rows):
            for name, (a, b) in spans.items():
                if a <= f["line"] <= b:
                    got.setdefault(name, set()).add(f["monfail"])
            continue
        nreal += 1
        e = rows[f["line"] - 1]
        tid, start, trows = vlib.trace_of_line(traces, f["line"])
        v.violation(url_sig(f["monfail"], e, trows or []), "monitor clause %s failed at line %d (scenario %s, event %s, call %d)" % (
            f["monfail"], f["line"], e["trace"], e["ev"], e["c"]), {"part": "url", "scenario": by_id.get(e["trace"]), "line": e})
    v.cov["url_monitor_failures"] = nreal
    for sres in results.get("strict_runs", []):
        v.add_tlc("ElicitURLTrace", sres)
    v.drift.extend(results.get("drift", []))
    if miss:
        # on a tree that keeps the properties and follows the model every outcome class must have been reached
        if not v.violations and not v.drift:
            raise vlib.MachineryError("vacuity: outcome classes never reached on the real client: %s" % miss)
        v.cov["outcome_classes_not_reached"] = miss
    ok, hwm, nreal_lines, sres = results["strict"]
    v.cov["strict_traces"] = len(traces)
    if replay is None and variants and got.get("intact") and v.violations:
        # the base trace itself breaks a property on this tree: nothing to corrupt
        v.cov["url_binding_selftest"] = {"skipped": "the base trace violates %s on this tree" % sorted(got["intact"])}
    elif replay is None and variants:
        for (name, _, clause, so) in variants:
            if so:
                continue
            if clause is None:
                if got.get(name):
                    raise vlib.MachineryError("binding self-test (url): %r must not be flagged by the monitor: %s" % (name, got[name]))
            elif clause not in got.get(name, ()):
                raise vlib.MachineryError("binding self-test (url): corruption %r not flagged as %s (got %s)" % (name, clause, sorted(got.get(name, ()))))
        intact_len = len(variants[0][1])
        # the strict specification explains every real line and the intact copy, and stops at the corrupted snapshot
        if hwm is not None and hwm < 1:
            v.drift.append("url: a real trace drives ElicitURL.tla into a state that violates %s" % sres.violation)
        elif results.get("gave_up"):
            pass
        elif ok or hwm is None or hwm <= nreal_lines + intact_len:
            raise vlib.MachineryError("binding self-test (url): the strict specification did not stop at the corrupted waiter snapshot (ok=%s hwm=%s, real lines %d, intact copy %d lines)" % (ok, hwm, nreal_lines, intact_len))
        v.cov["url_binding_selftest"] = {"corruptions_flagged": {n: sorted(c) for n, c in got.items()},
                                         "strict_rejects_wrong_snapshot_at_line": hwm}
    elif replay is None:
        if not v.violations and not v.drift:
            raise vlib.MachineryError("binding self-test (url): no clean retry trace among the real traces")
    if not variants and not ok and (hwm is None or hwm < 1):
        v.drift.append("url: a real trace drives ElicitURL.tla into a state that violates %s" % sres.violation)


def run(tier, seed, replay):
    v = vlib.Verdict(PID, tier, seed)
    v.assumptions = [
        "table: one schema property p (plus an optional second one), concretised per class with fixed representative values; format is an annotation (jsonschema-go does not assert it)",
        "table: A5 presupposes that the requested schema's own defaults are valid values of their property",
        "table: the 2026-07-28 paths use the in-memory transport (server/discover); capability gating of InputRequests on that path is X06's subject",
        "url: the scripted server speaks 2025-11-25; calls are tools/call; the ElicitationHandler ignores its context (it returns when the script lets it)",
        "url: scheduling at seam level - between two environment steps the client runs to quiescence (synctest.Wait); TLC checks every interleaving of the middleware's own steps on the model",
        "url: exhaustive TLC results are for two calls / two ids / lists of at most two elicitations and a bounded number of completions (constants in the .cfg files)",
        "a message without params crashes the client process: those table cases run in a child process (re-executed test binary)",
    ]
    out = vlib.outdir(PID)
    quick = tier == "quick"
    rep = json.load(open(replay))["replay"] if replay else None
    jobs = Jobs()
    w = 2
    if rep is None or rep.get("part") == "table":
        jobs.add("design", "Elicit", "Elicit.cfg", workers=1, timeout=300, heap_gb=3)
    if rep is None:
        jobs.add("safety:two-shared (ElicitURL_mc_quick.cfg)" if quick else "safety:two-shared (ElicitURL_mc.cfg)", "ElicitURLMC",
                 "ElicitURL_mc_quick.cfg" if quick else "ElicitURL_mc.cfg", workers=w if quick else 4, timeout=540, heap_gb=4,
                 java_opts=FAST_JVM if quick else ())
        if not quick:
            jobs.add("safety:one (ElicitURL_one.cfg)", "ElicitURLMC", "ElicitURL_one.cfg", workers=1, timeout=540, heap_gb=4, coverage=True, java_opts=())
            jobs.add("live:two-distinct (ElicitURL_distinct.cfg)", "ElicitURLMC", "ElicitURL_distinct.cfg", workers=w, timeout=540, heap_gb=4, java_opts=())
            jobs.add("live:one (ElicitURL_live1.cfg)", "ElicitURLMC", "ElicitURL_live1.cfg", workers=w, timeout=540, heap_gb=4, java_opts=())
        else:
            jobs.add("live:one (ElicitURL_live_quick.cfg)", "ElicitURLMC", "ElicitURL_live_quick.cfg", workers=w, timeout=300, heap_gb=3)
        jobs.add("lead:shared (ElicitURL_lead_shared.cfg)", "ElicitURLGen", "ElicitURL_lead_shared.cfg", workers=1, timeout=300, heap_gb=2)
        if not quick:
            jobs.add("lead:decline (ElicitURL_lead_decline.cfg)", "ElicitURLMC", "ElicitURL_lead_decline.cfg", workers=1, timeout=300, heap_gb=2)
        # the one-call graph: ElicitURL_cover1.cfg per client kind (quick: a smaller alphabet, with a handler only -
        # the client without a handler is in the simulations and the corner scripts)
        base = open(os.path.join(vlib.SPEC, "ElicitURL_cover1.cfg")).read()
        for name, hs in (("cover:one+handler", "{TRUE}"),) if quick else (("cover:one+handler", "{TRUE}"), ("cover:one-nohandler", "{FALSE}")):
            txt = re.sub(r"Handlers = \{[^}]*\}", "Handlers = " + hs, base)
            if quick:
                txt = txt.replace("MaxSpur = 2", "MaxSpur = 1").replace('HResults = {"accept", "decline", "cancel", "herr"}', 'HResults = {"accept", "decline", "herr"}')
            jobs.add(name, "ElicitURLMC", "cover_gen.cfg", extra_files={"cover_gen.cfg": txt}, workers=1, timeout=300, heap_gb=3,
                     extra_args=["-dump", "dot,actionlabels", "cover.dot"])
        if not quick:
            jobs.add("cover:two-shared", "ElicitURLMC", "ElicitURL_cover.cfg", workers=1, timeout=300, heap_gb=3,
                     extra_args=["-dump", "dot,actionlabels", "cover.dot"])
        jobs.add("sim (ElicitURL_sim.cfg)", "ElicitURLGen", "ElicitURL_sim.cfg", workers=1, timeout=300, heap_gb=3,
                 simulate="num=%d" % (500 if quick else 4000), depth=160, seed=seed)
    done = jobs.join()
    env = {"VERIF_SEED": seed}
    ncases, scen = 0, []
    obs_t, obs_u = os.path.join(out, "obs_table.ndjson"), os.path.join(out, "obs_url.ndjson")
    for f in (obs_t, obs_u):
        if os.path.exists(f):
            os.remove(f)
    do_table = rep is None or rep.get("part") == "table"
    do_url = rep is None or rep.get("part") == "url"
    if do_table:
        cases, ncases = table_prepare(v, rep["case"] if rep else None, out, done["design"])
        env.update({"VERIF_IN": cases, "VERIF_OUT": obs_t})
    if do_url:
        spath, scen = url_prepare(v, tier, seed, rep["scenario"] if rep else None, out, done)
        env.update({"VERIF_URL_IN": spath, "VERIF_URL_OUT": obs_u})
    # one go test run for both parts (one compilation); the table first
    rc, gout, wall = vlib.go_test("mcp", "^TestVerif_X10(Table|URL)$", HARNESS, env=env, timeout=900, race=(tier == "thorough"))
    vlib.go_must_build(rc, gout, PID)
    v.cov["go_wall_s"] = round(wall, 1)
    if "DATA RACE" in gout:
        v.violation("race", "data race reported by the race detector", {"part": "url", "output": gout[-3000:]})
    table_done = do_table and os.path.exists(obs_t) and len(vlib.read_ndjson(obs_t)) == ncases
    if do_table and not table_done:
        if "panic:" in gout:
            v.violation("A1.NoCrash:in-process", "the SDK panicked while the table ran", {"part": "table", "output": gout[-3000:]})
            return v.finish()
        raise vlib.MachineryError("X10 table harness failed:\n" + gout[-3000:])
    pending = None
    if do_url:
        pending = url_judge(v, rep["scenario"] if rep else None, out, obs_u, scen, rc, gout)
    elif rc != 0:
        raise vlib.MachineryError("X10 harness failed:\n" + gout[-3000:])
    if do_table:
        table_judge(v, rep["case"] if rep else None, out, obs_t, ncases)
    if pending is not None:
        url_finish(v, rep["scenario"] if rep else None, *pending)
    v.cov["rule"] = ("table: complete product enumerated by TLC (ElicitDefs!CaseSet), every case run; non-trivial = the handler was consulted. "
                     "url: scripts = projection onto the environment's steps of edge covers of the one-call and two-call graphs, seeded "
                     "simulations, the lead counterexample and corner scripts; non-trivial = a URL-elicitation-required error occurs")
    v.cov["exhaustive"] = rep is None
    return v.finish()
