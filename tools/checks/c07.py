"""C07 — protocol version negotiation over the whole configuration matrix (DESIGN.md section 6, C07; pattern P1).

TLC enumerates the matrix (spec/NegotiateDefs.tla: requested version x transport x HTTP options x advertised
subset x discover availability and the shape its absence takes (JSON-RPC -32601 / -32022, or a plain HTTP 404 / 400 /
405 / 501 with a non-JSON-RPC body from a front end) x the version the peer answers initialize with (honest, each
SDK version, unknown older / between / newer / garbage)), evaluates the design (Holds(c, Expected(c)); failures are
*leads*), and exports the cells (quick: CoreCaseSet, thorough: the whole product). The Go harness connects a real mcp.Client to a real mcp.Server for every cell (in-memory, io pipes,
SSE handler, streamable HTTP handler stateful / stateful without session ids / stateless, optionally after an earlier
connection to the same Server through a second streamable endpoint; HTTP through an in-process RoundTripper, every scenario
in a testing/synctest bubble), then lists and calls tools. The TLA+ monitor NegotiateMon judges the recorded
outcomes clause by clause (verdict) and compares them with Expected (drift).

Interleaving dimension (spec/NegotiateConc.tla): ONE Server published over several transports with several connections
in progress at once. TLC checks the per-connection clauses (ConcSound, ConcNoModernOverLegacyTransport, ConcExact,
ConcFallback, ConcUsable) and NonInterference over every interleaving of the steps connect / dispatch / answer / finish
of 2 connections (thorough: also 3, finish merged into answer), exports every complete scenario (cases of the
connections + schedule), and MUST find the what-if NegotiateConc_wshared.cfg (the list of versions kept once per Server,
overwritten by every Server.Connect) violating ConcNoModernOverLegacyTransport (thorough: also ConcExact) - the
sensitivity witness of the schedule family. harness/mcp/c07_conc_test.go pins every scenario with gates on one real
Server behind real transports; every connection yields one observation line judged by the same monitor clauses against
its OWN case. quick: all schedules x the pairs of default requests over transports that answer the version question
differently + a seeded sample of the other pairs; thorough: everything.
"""
import json, os, random
from concurrent.futures import ThreadPoolExecutor
import vlib

PID = "C07"
V = ["2026-07-28", "2025-11-25", "2025-06-18", "2025-03-26", "2024-11-05"]
MODERN = {"2026-07-28"}


def adv_code(c):
    """compact name of the advertised subset: one letter per version, newest first (M = 2026-07-28)"""
    if not c["wrap"]:
        return "all"
    return "{" + "".join(l for v, l in zip(V, "MABCD") if v in c["adv"]) + "}"


def cell_of(e):
    c = e["c"]
    tr = c["tr"]
    if tr in ("stateful", "statefulnosid", "stateless"):
        tr += ("+json" if c["json"] else "") + ("+store" if c["store"] else "")
    if c.get("prior", "none") != "none":
        tr += "+prior=" + c["prior"]
    if c["disc"] != "native":
        tr += "+disc=" + c["disc"] + ("(%s)" % c["dbody"] if c.get("dbody", "none") != "none" else "")
    if c.get("ians", "honest") != "honest":
        tr += "+ians=" + c["ians"]
    return "cell=%s|%s|%s" % (c["req"], tr, adv_code(c))


def got_of(e):
    o = e["o"]
    return o["version"] if o["kind"] == "session" else "error"


def sig_of(inv, e):
    """Abstract class of the failure: clause, how the session was established, transport class, what was wrong."""
    c, o = e["c"], e["o"]
    via = "initialize" if o["sentInit"] else ("discover" if o["nDisc"] else "none")
    trc = "wrapped" if c["wrap"] else c["tr"]
    # the shape of "discovery unavailable" belongs to the class where discovery decided: in Fallback, and for sessions
    # that were not made through initialize; HTTP-level answers form one class (status and body are in the description)
    if c["disc"] != "native" and (inv == "Fallback" or not o["sentInit"]):
        trc += "+disc=" + ("http" if c["disc"].startswith("http") else c["disc"])
    if c.get("prior", "none") != "none":
        trc += "+prior=" + c["prior"]
    if c.get("ians", "honest") != "honest" and o["sentInit"]:
        # how the peer answered the initialize that was sent: a legacy version of its own choice, 2026-07-28, or a
        # string unknown to the SDK (the concrete string is in the description)
        a = c["ians"]
        trc += "+ians=" + (a if a in MODERN else "legacy" if a in V else "unknown")
    ver = o["version"]
    if inv in ("Sound", "NoModernOverLegacyTransport"):
        if ver not in V:
            what = "unknown-version"
        elif ver in MODERN and c["tr"] in ("sse", "stateful", "statefulnosid"):
            what = "modern-on-legacy-transport"
        elif ver not in c["adv"]:
            what = "not-advertised(%s)" % ("modern" if ver in MODERN else "legacy")
        elif ver in MODERN and c["disc"] != "native":
            what = "modern-without-discover"
        elif c.get("ians", "honest") not in ("honest", ver):
            what = "not-what-the-peer-answered"
        else:
            what = "not-mutual"
    elif inv == "Exact":
        what = "requested-mutual-got-%s" % ("modern" if ver in MODERN else "legacy" if ver in V else "unknown")
    elif inv == "Fallback":
        what = "no-initialize(%s)" % o["kind"]
    elif inv == "Usable":
        what = "+".join(w for w, bad in (("list-failed", not o["listOK"]), ("call-failed", not o["callOK"])) if bad)
    else:
        what = "?"
    return "%s:via=%s|tr=%s:%s" % (inv, via, trc, what)


def case_key(c):
    return json.dumps(c, sort_keys=True) if "adv" not in c else json.dumps(dict(c, adv=sorted(c["adv"])), sort_keys=True)


CONC_QUICK_REST = 150  # quick: seeded sample of the scenarios outside the core
LEGACY_ONLY_FILTER = ("sse", "stateful", "statefulnosid")


def conc_class(c):
    """transport class of a connection of a concurrent scenario"""
    if c["wrap"]:
        return "%s/wrap%s" % (c["tr"], adv_code(c))
    return c["tr"]


def conc_filter(c):
    """what Server.Connect computes for the transport of this connection (NegotiateDefs!TransportFilter)"""
    if c["wrap"]:
        return frozenset(c["adv"])
    return frozenset(x for x in V if x not in MODERN) if c["tr"] in LEGACY_ONLY_FILTER else frozenset(V)


def conc_first(c):
    return "connect" if c["tr"] in ("mem", "io", "sse") else "dispatch"


def conc_window(scn, who):
    """the steps of OTHER connections between the step in which Server.Connect bound the session that answers `who`'s
    first request and that answer"""
    sched = [tuple(x) for x in scn["sched"]]
    c = scn["conns"]["ABC".index(who)]
    a, b = sched.index((conc_first(c), who)), sched.index(("answer", who))
    return sorted({st for st, w in sched[a + 1:b] if w != who})


def conc_overlap(scn, who):
    """some step of another connection that runs Server.Connect (its first step; on a streamable endpoint every step that
    POSTs) falls between the binding of `who`'s answering session and `who`'s answer"""
    sched = [tuple(x) for x in scn["sched"]]
    c = scn["conns"]["ABC".index(who)]
    a, b = sched.index((conc_first(c), who)), sched.index(("answer", who))
    for st, w in sched[a + 1:b]:
        if w == who:
            continue
        o = scn["conns"]["ABC".index(w)]
        lazy = conc_first(o) == "dispatch"
        if st == conc_first(o) or (lazy and st == ("finish" if scn["fine"] else "answer")):
            return True
    return False


def conc_sig(inv, e, scn):
    """the abstract failing case of a connection of a concurrent scenario: its own class and failure (as for a cell of the
    one-connection matrix), the transport classes of the other connections, and whether another connection's
    Server.Connect fell between the binding of its session and its answer"""
    who = e["who"]
    others = sorted({conc_class(c) for i, c in enumerate(scn["conns"]) if "ABC"[i] != who})
    return "conc[%d]:%s:others=%s:%s" % (len(scn["conns"]), sig_of(inv, e), "+".join(others),
                                         "overlapped" if conc_overlap(scn, who) else "not-overlapped")


def conc_pinned(scn, e):
    """machinery: the replay followed the schedule - the events of the connection happened during the steps they
    belong to (Server.Connect for the session that answers its first request in its first step, first request parked at
    the Server's middleware in its dispatch step, let on and answered in its answer step, outcome recorded in its last
    step)"""
    who = e["who"]
    sched = [tuple(x) for x in scn["sched"]]
    at = dict((kv.split("=")[0], int(kv.split("=")[1])) for kv in e["at"].split(",") if kv)
    last = sched.index(("finish", who)) if scn["fine"] else sched.index(("answer", who))
    c = scn["conns"]["ABC".index(who)]
    want = {"bound": sched.index((conc_first(c), who)), "dispatched": sched.index(("dispatch", who)),
            "released": sched.index(("answer", who)), "got": sched.index(("answer", who)), "done": last}
    got = {k: at.get(k) for k in want}
    return got == want, at, want


def run(tier, seed, replay):
    v = vlib.Verdict(PID, tier, seed)
    v.assumptions = [
        "HTTP transports are driven through an in-process http.RoundTripper (handler.ServeHTTP with a pipe-backed "
        "flushable ResponseWriter) inside testing/synctest bubbles; no sockets, virtual time",
        "the server's advertised subset is varied only where the public API allows it: a ProtocolVersionSupporter "
        "wrapper around the in-memory / io server transport; the SSE and streamable handlers build their own transports",
        "unknown version strings are concretised from seeded pools (older than all, between known ones, just above and "
        "far above 2026-07-28); 'discovery unavailable' is simulated by a server receiving middleware answering "
        "server/discover with -32601 or -32022(legacy list), or by an http.Handler front in the in-process RoundTripper "
        "path that answers the server/discover POST - and nothing else - with 404/400/405/501 and a text/plain, empty, "
        "HTML or non-JSON-RPC JSON body (streamable stateful / stateless endpoints and the SSE message endpoint)",
        "a peer that answers initialize with another version than the SDK server would is an SDK server whose receiving "
        "middleware rewrites InitializeResult.ProtocolVersion (everything else it does is the SDK server's behaviour); such a "
        "peer is taken to support exactly the revision it answers with through initialize",
        "sentInit (clause Fallback) is observed on the wire: a tap on the client's end of the in-memory / io pipe, the POST "
        "bodies arriving at the HTTP endpoint; what the client merely issued into a dead connection does not count",
        "client and server run the same SDK build, so ClientSupported = the SDK's version list",
        "shared-server cells: one Server behind two streamable handlers; a default client connects, lists and closes on "
        "the other endpoint first, the judged connection is the second one (both orders); 'statefulnosid' = stateful "
        "handler whose ServerOptions.GetSessionID returns \"\"",
        "interleavings: N connections in progress on ONE Server behind several transports at once (pipes with / without a "
        "ProtocolVersionSupporter wrapper, one SSEHandler, one streamable handler per kind), each cut into the steps connect / "
        "dispatch / answer / finish of NegotiateConc.tla; the steps are pinned by a gate at the client's end of the transport "
        "(pipe tap / RoundTripper: first request, everything after the first answer) and a receiving middleware of the Server that "
        "parks the first request reaching the method handlers, inside a synctest bubble (synctest.Wait after every step); "
        "interleavings INSIDE a step (e.g. inside Server.Connect) are not enumerated; requested versions are the default and one "
        "legacy version, the peer is the SDK server with discovery available; a connection without an outcome after the last "
        "step is a machinery error",
    ]
    out = vlib.outdir(PID)
    wd = vlib.scratch("tlc-")
    # quick: NegotiateDefs!CoreCaseSet (every value of every dimension, the peer-answer dimensions crossed with each
    # other and with every request and transport); thorough: the whole product (FullCaseSet)
    cfg = "Negotiate.cfg" if tier == "quick" else "Negotiate_full.cfg"
    # the TLC jobs are independent of each other: run them side by side (one worker each)
    conc_cfgs = ["NegotiateConc.cfg"] + (["NegotiateConc3.cfg"] if tier == "thorough" and not replay else [])
    whatifs = [("NegotiateConc_wshared.cfg", "ConcNoModernOverLegacyTransport")]
    if tier == "thorough":
        whatifs.append(("NegotiateConc_wshared_exact.cfg", "ConcExact"))
    with ThreadPoolExecutor(max_workers=4) as ex:
        fut = ex.submit(vlib.run_tlc, "Negotiate", cfg, workdir=wd, workers=1, timeout=600, heap_gb=2)
        cfut = {c: ex.submit(vlib.run_tlc, "NegotiateConc", c, workers=1, timeout=600, heap_gb=2,
                             extra_args=("-noGenerateSpecTE",)) for c in conc_cfgs + [w for w, _ in whatifs]}
        res = fut.result()
        cres = {c: f.result() for c, f in cfut.items()}
    vlib.tlc_must_pass(res, "Negotiate")
    if not res.ok:
        raise vlib.MachineryError("Negotiate design evaluation failed: " + (res.violation or res.stdout[-2000:]))
    info = [p for p in res.printed if isinstance(p, dict) and "cases" in p]
    if not info:
        raise vlib.MachineryError("Negotiate did not report the case count\n" + res.stdout[-2000:])
    info = info[0]
    ncases = info["cases"]
    v.add_tlc("Negotiate(design: Holds(c, Expected(c)) on every cell; failures exported as leads)", res)
    v.cov["states"] = ncases  # one "state" per cell of the decision table
    v.cov["transitions"] = ncases
    leads = vlib.read_ndjson(os.path.join(wd, "leads.ndjson")) if os.path.exists(os.path.join(wd, "leads.ndjson")) else []
    if len(leads) != info["leads"]:
        raise vlib.MachineryError("lead export incomplete: %d of %d" % (len(leads), info["leads"]))
    # ---- interleaving dimension: scenarios (cases of the connections + schedule) from the state machine
    for w, inv in whatifs:
        vlib.tlc_must_pass(cres[w], w)
        if cres[w].violation != inv:
            raise vlib.MachineryError("what-if %s (one list of versions per Server, overwritten by every Server.Connect) must "
                                      "violate %s; got %s" % (w, inv, cres[w].violation or "no violation"))
        v.add_tlc("NegotiateConc(what-if %s: one list per Server; expected to violate %s)" % (w, inv), cres[w])
    all_scn = []
    conc_counts = {}
    for c in conc_cfgs:
        sres = cres[c]
        vlib.tlc_must_pass(sres, c)
        if not sres.ok:
            raise vlib.MachineryError("%s: design check failed: %s" % (c, sres.violation or sres.stdout[-2000:]))
        v.add_tlc("NegotiateConc(%s: per-connection clauses of Holds, NonInterference; export of complete scenarios)" % c, sres)
        sch = [p for p in sres.printed if isinstance(p, dict) and "sched" in p and "conns" in p]
        n = sch[0]["n"] if sch else 0
        if not sch or not any(p["sequential"] for p in sch) or not all(any(p["differing"][i] > 0 for p in sch) for i in range(n)):
            raise vlib.MachineryError("%s: scenario export is vacuous (%d scenarios)" % (c, len(sch)))
        conc_counts[c] = {"scenarios": len(sch), "states": sres.distinct}
        all_scn += sch
    if replay:
        rep = json.load(open(replay))
        scenarios = [dict(rep["replay"]["scenario"])] if rep["replay"].get("scenario") else []
        conc_rule = "replay of one recorded scenario"
    elif tier == "thorough":
        scenarios = all_scn
        conc_rule = "every scenario TLC exported: " + ", ".join("%s %d" % (c, k["scenarios"]) for c, k in conc_counts.items())
    else:
        def core(p):
            # every connection asks for the latest version (discover first) and the transports of the scenario do not all
            # answer the version question alike
            return all(c["req"] == "default" for c in p["conns"]) and len({conc_filter(c) for c in p["conns"]}) > 1
        rnd = random.Random(seed * 7919 + 7)
        core_scn = [p for p in all_scn if core(p)]
        rest = [p for p in all_scn if not core(p)]
        scenarios = core_scn + rnd.sample(rest, min(CONC_QUICK_REST, len(rest)))
        conc_rule = ("all schedules x the pairs of default requests over transports with different version support (%d scenarios) "
                     "+ %d seeded others of %d" % (len(core_scn), len(scenarios) - len(core_scn), len(rest)))
    scenarios = [dict(fine=p["fine"], n=p["n"], sched=p["sched"], conns=p["conns"], scn=i + 1) for i, p in enumerate(scenarios)]
    nconc = sum(len(sc["conns"]) for sc in scenarios)
    concin = os.path.join(out, "conc.ndjson")
    vlib.write_ndjson(concin, scenarios)

    cases = os.path.join(out, "cases.ndjson")
    if replay:
        vlib.write_ndjson(cases, [rep["replay"]["c"]] if not rep["replay"].get("scenario") else [])
    else:
        os.replace(os.path.join(wd, "cases.ndjson"), cases)
    obs = os.path.join(out, "obs.ndjson")
    for f in (obs, obs + ".progress"):
        if os.path.exists(f):
            os.remove(f)
    # rep 0 is the plain setup; further reps (thorough) vary tool sets, unknown strings and the client's handlers
    reps = 1 if tier == "quick" else 4
    rc, gout, wall = vlib.go_test("mcp", "^TestVerif_C07$", ["mcp/c07_negotiate_test.go", "mcp/c07_conc_test.go"],
                                  timeout=900 if tier == "quick" else 2400,
                                  env={"VERIF_IN": cases, "VERIF_OUT": obs, "VERIF_SEED": seed, "VERIF_REPS": reps,
                                       "VERIF_TIER": tier, "VERIF_CONC_IN": concin})
    vlib.go_must_build(rc, gout, PID)
    if rc != 0:
        inflight = ""
        try:
            inflight = open(obs + ".progress").read().strip().splitlines()[-1]
        except Exception:
            pass
        if "panic:" in gout and "blocked goroutines remain" not in gout and "deadlock:" not in gout and "test timed out" not in gout:
            cell = inflight.split(" ", 2)[2] if inflight.count(" ") >= 2 else "{}"
            c = json.loads(cell)
            if inflight.startswith("conc "):
                v.violation("panic:conc[%d]:tr=%s" % (len(c["conns"]), "+".join(sorted({conc_class(x) for x in c["conns"]}))),
                            "Go panic while replaying the concurrent scenario " + cell, {"scenario": c, "output": gout[-3000:]})
                return v.finish()
            v.violation("panic:tr=%s|req=%s" % (c.get("tr"), c.get("req")),
                        "Go panic while connecting / using the session in cell " + cell,
                        {"c": c, "output": gout[-3000:]})
            return v.finish()
        raise vlib.MachineryError("C07 harness failed (in flight: %s):\n%s" % (inflight, gout[-3000:]))
    rows = vlib.read_ndjson(obs)
    nmatrix = len(rows) - nconc
    if (not replay and nmatrix != ncases * reps) or nmatrix < 0:
        raise vlib.MachineryError("harness ran %d of %d scenarios" % (len(rows), ncases * reps + nconc))
    # the connections of the concurrent scenarios: rows after the one-connection cells, scenario by scenario, in name order
    scn_of = {}
    k = nmatrix
    for sc in scenarios:
        for i in range(len(sc["conns"])):
            e = rows[k]
            if e.get("scn") != sc["scn"] or e.get("who") != "ABC"[i]:
                raise vlib.MachineryError("row %d is not connection %s of scenario %d" % (k + 1, "ABC"[i], sc["scn"]))
            ok, at, want = conc_pinned(sc, e)
            if not ok:
                raise vlib.MachineryError("scenario %d (%s): the replay of connection %s did not follow the schedule %s: events at %s, "
                                          "expected %s" % (sc["scn"], "+".join(conc_class(c) for c in sc["conns"]), e["who"],
                                                           sc["sched"], at, want))
            scn_of[k + 1] = sc
            k += 1
    fails, mres = vlib.run_monitor("NegotiateMon", "NegotiateMon.cfg", obs, timeout=600, heap_gb=2)
    v.add_tlc("NegotiateMon", mres)
    v.cov["traces_validated_against_impl"] = len(rows)
    v.cov["evaluations"] = len(rows)
    v.cov["distinct_nontrivial"] = len({case_key(r["c"]) for r in rows
                                        if r["o"]["nDisc"] > 0 or r["o"]["version"] != r["reqstr"]})
    v.cov["rule"] = ("matrix enumerated by TLC (NegotiateDefs!%s), every cell connected on the real SDK; " % (
                         "CoreCaseSet" if tier == "quick" else "FullCaseSet") +
                     "non-trivial = a discover round happened or the negotiated version differs from the requested string; "
                     "concurrent scenarios (NegotiateConc): " + conc_rule)
    v.cov["exhaustive"] = not replay
    v.cov["cells"] = ncases
    v.cov["cells_of_full_matrix"] = info.get("fullMatrix")
    v.cov["case_set"] = "NegotiateDefs!" + ("CoreCaseSet" if tier == "quick" else "FullCaseSet")
    v.cov["sessions"] = sum(1 for r in rows if r["o"]["kind"] == "session")
    v.cov["modern_sessions"] = sum(1 for r in rows if r["o"]["version"] in MODERN)
    v.cov["fallbacks_after_discover"] = sum(1 for r in rows if r["o"]["nDisc"] > 0 and r["o"]["sentInit"])
    v.cov["renegotiated_discover"] = sum(1 for r in rows if r["o"]["nDisc"] == 2 and not r["o"]["sentInit"])
    v.cov["by_transport"] = {}
    for r in rows:
        k = "wrapped-" + r["c"]["tr"] if r["c"]["wrap"] else r["c"]["tr"]
        if r["c"].get("prior", "none") != "none":
            k += "+prior=" + r["c"]["prior"]
        v.cov["by_transport"][k] = v.cov["by_transport"].get(k, 0) + 1
    v.cov["by_discover_shape"] = {}
    v.cov["by_initialize_answer"] = {}
    for r in rows:
        d = r["c"]["disc"] + ("(%s)" % r["c"]["dbody"] if r["c"].get("dbody", "none") != "none" else "")
        v.cov["by_discover_shape"][d] = v.cov["by_discover_shape"].get(d, 0) + 1
        a = r["c"].get("ians", "honest")
        v.cov["by_initialize_answer"][a] = v.cov["by_initialize_answer"].get(a, 0) + 1
    v.cov["discover_posts_answered_by_http_front"] = sum(r["o"].get("fronted", 0) for r in rows)
    v.cov["connects_refused_for_unsupported_initialize_answer"] = sum(
        1 for r in rows if r["o"]["kind"] == "error" and r["o"]["sentInit"] and r["c"].get("ians", "honest") != "honest")
    v.cov["http_route"] = "in-process RoundTripper + testing/synctest (no httptest server)"
    crow = rows[nmatrix:]
    v.cov["concurrent"] = {
        "tlc": conc_counts, "scenarios_replayed": len(scenarios), "connections": nconc, "rule": conc_rule,
        "scenarios_with_differing_overlap": sum(
            1 for sc in scenarios if any(conc_window(sc, "ABC"[i]) and len({conc_filter(c) for c in sc["conns"]}) > 1
                                         for i in range(len(sc["conns"])))),
        "sessions": sum(1 for r in crow if r["o"]["kind"] == "session"),
        "modern_sessions": sum(1 for r in crow if r["o"]["version"] in MODERN),
        "fallbacks_after_discover": sum(1 for r in crow if r["o"]["nDisc"] > 0 and r["o"]["sentInit"]),
        "by_class": {},
        "whatif_server_wide_list": "; ".join("%s violates %s (as required)" % (w, inv) for w, inv in whatifs),
    }
    for r in crow:
        kcls = conc_class(r["c"])
        v.cov["concurrent"]["by_class"][kcls] = v.cov["concurrent"]["by_class"].get(kcls, 0) + 1
    for r in rows[:: max(1, len(rows) // 6)][:6]:
        v.sample({"cell": cell_of(r), "got": got_of(r), "methods": r["o"]["methods"], "listOK": r["o"]["listOK"],
                  "callOK": r["o"]["callOK"]})
    failed_cases = set()
    # most telling representative first (it becomes the replay file of its signature): a known requested
    # version against a non-empty advertised subset
    # and the plainest peer that shows it (honest initialize answer, text body)
    def _rank(f):
        c = rows[f["line"] - 1]["c"]
        return (f["line"] in scn_of and len(scn_of[f["line"]]["conns"]) > 2, len(c["adv"]) == 0, c["req"] not in V and c["req"] != "default", c.get("ians", "honest") != "honest",
                c.get("dbody", "none") not in ("none", "text"), c["json"] or c["store"], f["line"])
    fails.sort(key=_rank)
    # a modern version on a legacy-only transport breaks Sound as well (the transport does not support it): the
    # specific clause names the row
    nomodern = {f["line"] for f in fails if f["monfail"] == "NoModernOverLegacyTransport"}
    fails = [f for f in fails if not (f["monfail"] == "Sound" and f["line"] in nomodern)]
    # a connection of a concurrent scenario that ends up with a version it must not have usually breaks several clauses at
    # once (the session is not usable, no fall-back happened): one violation per connection, named by the first clause in
    # the order of Holds; the others are listed in the description
    order = ["NoModernOverLegacyTransport", "Sound", "Exact", "Fallback", "Usable"]
    also = {}
    for f in fails:
        if f["line"] in scn_of and f["monfail"] != "drift":
            also.setdefault(f["line"], []).append(f["monfail"])
    for l in also:
        also[l].sort(key=order.index)
    fails = [f for f in fails if f["line"] not in also or f["monfail"] in ("drift", also[f["line"]][0])]
    for f in fails:
        e = rows[f["line"] - 1]
        sc = scn_of.get(f["line"])
        if f["monfail"] == "drift":
            v.drift.append("outcome differs from Negotiate!Expected: %s:%s (nDisc=%d, sentInit=%s, list=%s, call=%s) %s%s" % (
                cell_of(e), got_of(e), e["o"]["nDisc"], e["o"]["sentInit"], e["o"]["listOK"], e["o"]["callOK"], e["o"]["err"][:120],
                " [connection %s of concurrent scenario %s, schedule %s]" % (
                    e["who"], "+".join(conc_class(c) for c in sc["conns"]), sc["sched"]) if sc else ""))
        elif sc:
            failed_cases.add(case_key(e["c"]))
            v.violation(conc_sig(f["monfail"], e, sc),
                        "connection %s of a concurrent scenario on ONE real Server violates %s: %s got %s (client issued %s, on the wire %s); "
                        "connections %s, schedule %s %s" % (
                            e["who"], "+".join(also[f["line"]]), cell_of(e), got_of(e), ",".join(e["o"]["methods"]),
                            ",".join(e["o"].get("wire", [])) or "-",
                            " ".join("%s=%s(%s)" % ("ABC"[i], conc_class(c), c["req"]) for i, c in enumerate(sc["conns"])),
                            " ".join("%s(%s)" % (st, w) for st, w in sc["sched"]), e["o"]["err"][:200]),
                        {"c": e["c"], "o": e["o"], "who": e["who"], "scenario": sc})
        else:
            failed_cases.add(case_key(e["c"]))
            v.violation(sig_of(f["monfail"], e),
                        "real client/server pair violates %s in %s: got %s (requested %r%s, client issued %s, on the wire %s) %s" % (
                            f["monfail"], cell_of(e), got_of(e), e["reqstr"],
                            ", peer answers initialize with %r" % e["ansstr"] if e.get("ansstr") else "",
                            ",".join(e["o"]["methods"]), ",".join(e["o"].get("wire", [])) or "-", e["o"]["err"][:200]),
                        e)
    # leads of the model (cells where the code-shaped Expected breaks the property): reproduced on the real code or not
    if not replay:
        lead_keys = {case_key(l["c"]) for l in leads}
        v.cov["model_leads"] = len(lead_keys)
        v.cov["model_leads_reproduced_on_real_code"] = len(lead_keys & failed_cases)
        v.cov["model_lead_classes"] = info.get("leadClasses", [])
        v.cov["design_ok_on_unwrapped_transports"] = info.get("unwrappedDesignOK")
        v.cov["violating_cells_on_real_code"] = len(failed_cases)
    return v.finish()
