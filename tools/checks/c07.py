"""C07 — protocol version negotiation over the whole configuration matrix (DESIGN.md section 6, C07; pattern P1).

TLC enumerates the matrix (spec/NegotiateDefs.tla: requested version x transport x HTTP options x advertised
subset x discover availability and the shape its absence takes (JSON-RPC -32601 / -32022, or a plain HTTP 404 / 400 /
405 / 501 with a non-JSON-RPC body from a front end) x the version the peer answers initialize with (honest, each
SDK version, unknown older / between / newer / garbage)), evaluates the design (Holds(c, Expected(c)); failures are
*leads*), and exports the cells (quick: CoreCaseSet, thorough: the whole product). The Go harness connects a real mcp.Client to a real mcp.Server for every cell (in-memory, io pipes,
SSE handler, streamable HTTP handler stateful / stateful without session ids / stateless, optionally after an earlier
connection to the same Server through a second streamable endpoint; HTTP through an in-process RoundTripper, every scenario
in a testing/synctest bubble), then lists and calls tools. The TLA+ monitor NegotiateMon judges the recorded
outcomes clause by clause (verdict) and compares them with Expected (drift).
"""
import json, os
import vlib

PID = "C07"
V = ["2026-07-28", "2025-11-25", "2025-06-18", "2025-03-26", "2024-11-05"]
MODERN = {"2026-07-28"}


def adv_code(c):
    """compact name of the advertised subset: one letter per version, newest first (M = 2026-07-28)"""
    if not c["wrap"]:
        return "all"
    return "{" + "".join(l for v, l in zip(V, "MABCD") if v in c["adv"]) + "}"


def cell_of(e):
    c = e["c"]
    tr = c["tr"]
    if tr in ("stateful", "statefulnosid", "stateless"):
        tr += ("+json" if c["json"] else "") + ("+store" if c["store"] else "")
    if c.get("prior", "none") != "none":
        tr += "+prior=" + c["prior"]
    if c["disc"] != "native":
        tr += "+disc=" + c["disc"] + ("(%s)" % c["dbody"] if c.get("dbody", "none") != "none" else "")
    if c.get("ians", "honest") != "honest":
        tr += "+ians=" + c["ians"]
    return "cell=%s|%s|%s" % (c["req"], tr, adv_code(c))


def got_of(e):
    o = e["o"]
    return o["version"] if o["kind"] == "session" else "error"


def sig_of(inv, e):
    """Abstract class of the failure: clause, how the session was established, transport class, what was wrong."""
    c, o = e["c"], e["o"]
    via = "initialize" if o["sentInit"] else ("discover" if o["nDisc"] else "none")
    trc = "wrapped" if c["wrap"] else c["tr"]
    # the shape of "discovery unavailable" belongs to the class where discovery decided: in Fallback, and for sessions
    # that were not made through initialize; HTTP-level answers form one class (status and body are in the description)
    if c["disc"] != "native" and (inv == "Fallback" or not o["sentInit"]):
        trc += "+disc=" + ("http" if c["disc"].startswith("http") else c["disc"])
    if c.get("prior", "none") != "none":
        trc += "+prior=" + c["prior"]
    if c.get("ians", "honest") != "honest" and o["sentInit"]:
        # how the peer answered the initialize that was sent: a legacy version of its own choice, 2026-07-28, or a
        # string unknown to the SDK (the concrete string is in the description)
        a = c["ians"]
        trc += "+ians=" + (a if a in MODERN else "legacy" if a in V else "unknown")
    ver = o["version"]
    if inv in ("Sound", "NoModernOverLegacyTransport"):
        if ver not in V:
            what = "unknown-version"
        elif ver in MODERN and c["tr"] in ("sse", "stateful", "statefulnosid"):
            what = "modern-on-legacy-transport"
        elif ver not in c["adv"]:
            what = "not-advertised(%s)" % ("modern" if ver in MODERN else "legacy")
        elif ver in MODERN and c["disc"] != "native":
            what = "modern-without-discover"
        elif c.get("ians", "honest") not in ("honest", ver):
            what = "not-what-the-peer-answered"
        else:
            what = "not-mutual"
    elif inv == "Exact":
        what = "requested-mutual-got-%s" % ("modern" if ver in MODERN else "legacy" if ver in V else "unknown")
    elif inv == "Fallback":
        what = "no-initialize(%s)" % o["kind"]
    elif inv == "Usable":
        what = "+".join(w for w, bad in (("list-failed", not o["listOK"]), ("call-failed", not o["callOK"])) if bad)
    else:
        what = "?"
    return "%s:via=%s|tr=%s:%s" % (inv, via, trc, what)


def case_key(c):
    return json.dumps(c, sort_keys=True) if "adv" not in c else json.dumps(dict(c, adv=sorted(c["adv"])), sort_keys=True)


def run(tier, seed, replay):
    v = vlib.Verdict(PID, tier, seed)
    v.assumptions = [
        "HTTP transports are driven through an in-process http.RoundTripper (handler.ServeHTTP with a pipe-backed "
        "flushable ResponseWriter) inside testing/synctest bubbles; no sockets, virtual time",
        "the server's advertised subset is varied only where the public API allows it: a ProtocolVersionSupporter "
        "wrapper around the in-memory / io server transport; the SSE and streamable handlers build their own transports",
        "unknown version strings are concretised from seeded pools (older than all, between known ones, just above and "
        "far above 2026-07-28); 'discovery unavailable' is simulated by a server receiving middleware answering "
        "server/discover with -32601 or -32022(legacy list), or by an http.Handler front in the in-process RoundTripper "
        "path that answers the server/discover POST - and nothing else - with 404/400/405/501 and a text/plain, empty, "
        "HTML or non-JSON-RPC JSON body (streamable stateful / stateless endpoints and the SSE message endpoint)",
        "a peer that answers initialize with another version than the SDK server would is an SDK server whose receiving "
        "middleware rewrites InitializeResult.ProtocolVersion (everything else it does is the SDK server's behaviour); such a "
        "peer is taken to support exactly the revision it answers with through initialize",
        "sentInit (clause Fallback) is observed on the wire: a tap on the client's end of the in-memory / io pipe, the POST "
        "bodies arriving at the HTTP endpoint; what the client merely issued into a dead connection does not count",
        "client and server run the same SDK build, so ClientSupported = the SDK's version list",
        "shared-server cells: one Server behind two streamable handlers; a default client connects, lists and closes on "
        "the other endpoint first, the judged connection is the second one (both orders); 'statefulnosid' = stateful "
        "handler whose ServerOptions.GetSessionID returns \"\"",
    ]
    out = vlib.outdir(PID)
    wd = vlib.scratch("tlc-")
    # quick: NegotiateDefs!CoreCaseSet (every value of every dimension, the peer-answer dimensions crossed with each
    # other and with every request and transport); thorough: the whole product (FullCaseSet)
    cfg = "Negotiate.cfg" if tier == "quick" else "Negotiate_full.cfg"
    res = vlib.run_tlc("Negotiate", cfg, workdir=wd, workers=1, timeout=300, heap_gb=2)
    vlib.tlc_must_pass(res, "Negotiate")
    if not res.ok:
        raise vlib.MachineryError("Negotiate design evaluation failed: " + (res.violation or res.stdout[-2000:]))
    info = [p for p in res.printed if isinstance(p, dict) and "cases" in p]
    if not info:
        raise vlib.MachineryError("Negotiate did not report the case count\n" + res.stdout[-2000:])
    info = info[0]
    ncases = info["cases"]
    v.add_tlc("Negotiate(design: Holds(c, Expected(c)) on every cell; failures exported as leads)", res)
    v.cov["states"] = ncases  # one "state" per cell of the decision table
    v.cov["transitions"] = ncases
    leads = vlib.read_ndjson(os.path.join(wd, "leads.ndjson")) if os.path.exists(os.path.join(wd, "leads.ndjson")) else []
    if len(leads) != info["leads"]:
        raise vlib.MachineryError("lead export incomplete: %d of %d" % (len(leads), info["leads"]))
    cases = os.path.join(out, "cases.ndjson")
    if replay:
        rep = json.load(open(replay))
        vlib.write_ndjson(cases, [rep["replay"]["c"]])
    else:
        os.replace(os.path.join(wd, "cases.ndjson"), cases)
    obs = os.path.join(out, "obs.ndjson")
    for f in (obs, obs + ".progress"):
        if os.path.exists(f):
            os.remove(f)
    # rep 0 is the plain setup; further reps (thorough) vary tool sets, unknown strings and the client's handlers
    reps = 1 if tier == "quick" else 4
    rc, gout, wall = vlib.go_test("mcp", "^TestVerif_C07$", ["mcp/c07_negotiate_test.go"], timeout=600 if tier == "quick" else 1500,
                                  env={"VERIF_IN": cases, "VERIF_OUT": obs, "VERIF_SEED": seed, "VERIF_REPS": reps,
                                       "VERIF_TIER": tier})
    vlib.go_must_build(rc, gout, PID)
    if rc != 0:
        inflight = ""
        try:
            inflight = open(obs + ".progress").read().strip().splitlines()[-1]
        except Exception:
            pass
        if "panic:" in gout and "blocked goroutines remain" not in gout and "deadlock:" not in gout and "test timed out" not in gout:
            cell = inflight.split(" ", 2)[2] if inflight.count(" ") >= 2 else "{}"
            c = json.loads(cell)
            v.violation("panic:tr=%s|req=%s" % (c.get("tr"), c.get("req")),
                        "Go panic while connecting / using the session in cell " + cell,
                        {"c": c, "output": gout[-3000:]})
            return v.finish()
        raise vlib.MachineryError("C07 harness failed (in flight: %s):\n%s" % (inflight, gout[-3000:]))
    rows = vlib.read_ndjson(obs)
    if not replay and len(rows) != ncases * reps:
        raise vlib.MachineryError("harness ran %d of %d scenarios" % (len(rows), ncases * reps))
    fails, mres = vlib.run_monitor("NegotiateMon", "NegotiateMon.cfg", obs, timeout=600, heap_gb=2)
    v.add_tlc("NegotiateMon", mres)
    v.cov["traces_validated_against_impl"] = len(rows)
    v.cov["evaluations"] = len(rows)
    v.cov["distinct_nontrivial"] = len({case_key(r["c"]) for r in rows
                                        if r["o"]["nDisc"] > 0 or r["o"]["version"] != r["reqstr"]})
    v.cov["rule"] = ("matrix enumerated by TLC (NegotiateDefs!%s), every cell connected on the real SDK; " % (
                         "CoreCaseSet" if tier == "quick" else "FullCaseSet") +
                     "non-trivial = a discover round happened or the negotiated version differs from the requested string")
    v.cov["exhaustive"] = not replay
    v.cov["cells"] = ncases
    v.cov["cells_of_full_matrix"] = info.get("fullMatrix")
    v.cov["case_set"] = "NegotiateDefs!" + ("CoreCaseSet" if tier == "quick" else "FullCaseSet")
    v.cov["sessions"] = sum(1 for r in rows if r["o"]["kind"] == "session")
    v.cov["modern_sessions"] = sum(1 for r in rows if r["o"]["version"] in MODERN)
    v.cov["fallbacks_after_discover"] = sum(1 for r in rows if r["o"]["nDisc"] > 0 and r["o"]["sentInit"])
    v.cov["renegotiated_discover"] = sum(1 for r in rows if r["o"]["nDisc"] == 2 and not r["o"]["sentInit"])
    v.cov["by_transport"] = {}
    for r in rows:
        k = "wrapped-" + r["c"]["tr"] if r["c"]["wrap"] else r["c"]["tr"]
        if r["c"].get("prior", "none") != "none":
            k += "+prior=" + r["c"]["prior"]
        v.cov["by_transport"][k] = v.cov["by_transport"].get(k, 0) + 1
    v.cov["by_discover_shape"] = {}
    v.cov["by_initialize_answer"] = {}
    for r in rows:
        d = r["c"]["disc"] + ("(%s)" % r["c"]["dbody"] if r["c"].get("dbody", "none") != "none" else "")
        v.cov["by_discover_shape"][d] = v.cov["by_discover_shape"].get(d, 0) + 1
        a = r["c"].get("ians", "honest")
        v.cov["by_initialize_answer"][a] = v.cov["by_initialize_answer"].get(a, 0) + 1
    v.cov["discover_posts_answered_by_http_front"] = sum(r["o"].get("fronted", 0) for r in rows)
    v.cov["connects_refused_for_unsupported_initialize_answer"] = sum(
        1 for r in rows if r["o"]["kind"] == "error" and r["o"]["sentInit"] and r["c"].get("ians", "honest") != "honest")
    v.cov["http_route"] = "in-process RoundTripper + testing/synctest (no httptest server)"
    for r in rows[:: max(1, len(rows) // 6)][:6]:
        v.sample({"cell": cell_of(r), "got": got_of(r), "methods": r["o"]["methods"], "listOK": r["o"]["listOK"],
                  "callOK": r["o"]["callOK"]})
    failed_cases = set()
    # most telling representative first (it becomes the replay file of its signature): a known requested
    # version against a non-empty advertised subset
    # and the plainest peer that shows it (honest initialize answer, text body)
    def _rank(f):
        c = rows[f["line"] - 1]["c"]
        return (len(c["adv"]) == 0, c["req"] not in V and c["req"] != "default", c.get("ians", "honest") != "honest",
                c.get("dbody", "none") not in ("none", "text"), c["json"] or c["store"], f["line"])
    fails.sort(key=_rank)
    # a modern version on a legacy-only transport breaks Sound as well (the transport does not support it): the
    # specific clause names the row
    nomodern = {f["line"] for f in fails if f["monfail"] == "NoModernOverLegacyTransport"}
    fails = [f for f in fails if not (f["monfail"] == "Sound" and f["line"] in nomodern)]
    for f in fails:
        e = rows[f["line"] - 1]
        if f["monfail"] == "drift":
            v.drift.append("outcome differs from Negotiate!Expected: %s:%s (nDisc=%d, sentInit=%s, list=%s, call=%s) %s" % (
                cell_of(e), got_of(e), e["o"]["nDisc"], e["o"]["sentInit"], e["o"]["listOK"], e["o"]["callOK"], e["o"]["err"][:120]))
        else:
            failed_cases.add(case_key(e["c"]))
            v.violation(sig_of(f["monfail"], e),
                        "real client/server pair violates %s in %s: got %s (requested %r%s, client issued %s, on the wire %s) %s" % (
                            f["monfail"], cell_of(e), got_of(e), e["reqstr"],
                            ", peer answers initialize with %r" % e["ansstr"] if e.get("ansstr") else "",
                            ",".join(e["o"]["methods"]), ",".join(e["o"].get("wire", [])) or "-", e["o"]["err"][:200]),
                        e)
    # leads of the model (cells where the code-shaped Expected breaks the property): reproduced on the real code or not
    if not replay:
        lead_keys = {case_key(l["c"]) for l in leads}
        v.cov["model_leads"] = len(lead_keys)
        v.cov["model_leads_reproduced_on_real_code"] = len(lead_keys & failed_cases)
        v.cov["model_lead_classes"] = info.get("leadClasses", [])
        v.cov["design_ok_on_unwrapped_transports"] = info.get("unwrappedDesignOK")
        v.cov["violating_cells_on_real_code"] = len(failed_cases)
    return v.finish()
