"""X03 (extension) - server-to-client logging: level filter, fidelity, rate limiting, order, per-request level.

  spec/LogFilter.tla (+ LogFilterDefs, LogFilterMC, LogFilterGen, LogFilterHttp, LogFilterMon); property statements P1..P5 are
  the comment block at the top of LogFilter.tla.

  1. design     TLC checks the code-shaped model (AsIs = TRUE) against every predicate the code is expected to satisfy and the
                idealised design (AsIs = FALSE) against ALL of them, with liveness under fairness; reachability witnesses.
  2. leads      LogFilter_lead_*.cfg: TLC is EXPECTED to find a counterexample for the predicates the code-shaped model breaks
                (deviations D1..D3); the counterexample is replayed on the real code and must reproduce (else: drift).
  3. generate   transition covers of three state graphs (tools/graphwalk.py over -dump dot,actionlabels), seeded simulations of
                the full alphabet, the stateless-HTTP decision table.
  4. replay     harness/mcp/x03_logging_test.go: real Server / ServerSession / LoggingHandler / slog.Logger / Client over the
                in-memory transport under testing/synctest; real stateless StreamableHTTPHandler for the table.
  5. verdict    spec/LogFilterMon.tla, evaluated by TLC over the observations (properties from observations only; equality with
                the model is drift).
"""
import json, os, random, tempfile
import vlib, graphwalk

PID = "X03"
TLC_WORKERS = 4
INV_ASIS = "TypeOK InvNoLeak InvComplete InvLevel InvSpacing InvEnabled InvDirect"
WITNESSES = ("NeverSent", "NeverDropped", "NeverRaced", "NeverStarved", "NeverReqLevel")
NAMES = ["debug", "info", "notice", "warning", "error", "critical", "alert", "emergency"]
SLOG = dict(zip(NAMES, [-4, 0, 2, 4, 8, 12, 16, 20]))
PROPERTY_OF = {"NoLeak": "P1", "Complete": "P1/P3", "HttpNoLeak": "P1", "HttpComplete": "P1", "Enabled": "P2b",
               "EnabledButFiltered": "P2b", "Level": "P2", "Fidelity": "P2", "Once": "P2", "NoSpurious": "P1", "Spacing": "P3",
               "Excess": "P3", "Order": "P4", "Delivery": "P4"}


def own_wd():
    d = tempfile.mkdtemp(prefix="x03-")
    vlib._scratch.append(d)
    return d


def tlc(module, cfg, **kw):
    kw.setdefault("workers", TLC_WORKERS)
    kw.setdefault("heap_gb", 4)
    kw.setdefault("timeout", 900)
    return vlib.run_tlc(module, cfg, workdir=own_wd(), **kw)


def cfg_text(name, **sub):
    t = open(os.path.join(vlib.SPEC, name)).read()
    for k, val in sub.items():
        lines = []
        for line in t.splitlines():
            if line.strip().startswith(k + " =") or line.strip().startswith(k + " <-"):
                line = "  %s = %s" % (k, val)
            lines.append(line)
        t = "\n".join(lines) + "\n"
    return t


def steps_of(path):
    return [{"op": name, "a": args} for (name, args) in path]


def design(v, tier):
    runs = [("LogFilterMC", "LogFilter_mc_quick.cfg", "code-shaped model, small constants")]
    if tier == "thorough":
        runs = [("LogFilterMC", "LogFilter_mc_asis.cfg", "code-shaped model"),
                ("LogFilterMC", "LogFilter_mc_ideal.cfg", "idealised design: all predicates")]
    else:
        runs.append(("LogFilterMC", "LogFilter_mc_ideal_quick.cfg", "idealised design, small constants: all predicates"))
    for mod, cfg, what in runs:
        res = tlc(mod, cfg, coverage=(tier == "thorough" and "asis" in cfg))
        vlib.tlc_must_pass(res, cfg)
        v.add_tlc("%s (%s)" % (cfg, what), res)
        if not res.ok:
            raise vlib.MachineryError("the LogFilter model violates %s in %s: design check failed" % (res.violation, cfg))
        if res.coverage:
            dead = [a for a in ("SetLevel", "OpenReq", "CloseReq", "LogDirect", "SlogEnabled", "SlogHandle", "Tick", "Settle")
                    if a in res.coverage and res.coverage[a][0] == 0]
            if dead:
                raise vlib.MachineryError("dead actions in %s: %s" % (cfg, dead))
            v.cov["action_coverage"] = {a: res.coverage[a][0] for a in res.coverage if a[0].isupper() and a in
                                        ("SetLevel", "OpenReq", "CloseReq", "LogDirect", "SlogEnabled", "SlogHandle", "Tick", "Settle")}
    base = cfg_text("LogFilter_mc_quick.cfg")
    base = "\n".join(l for l in base.splitlines() if not l.startswith("INVARIANT") and not l.startswith("PROPERT")).replace("FairSpec", "Spec") + "\n"
    for w in WITNESSES:
        r = tlc("LogFilterMC", "wit.cfg", extra_files={"wit.cfg": base + "INVARIANT %s\n" % w}, workers=1, timeout=300, heap_gb=2)
        if r.violation != w:
            raise vlib.MachineryError("vacuity: witness %s not reachable (%s)" % (w, r.error or r.violation))
    v.cov["witnesses_reached"] = list(WITNESSES)


def leads(v):
    out = []
    for cfg, inv in (("LogFilter_lead_excess.cfg", "Excess"), ("LogFilter_lead_any.cfg", "EnabledButFiltered")):
        r = tlc("LogFilterGen", cfg, workers=1, timeout=300, heap_gb=2)
        v.add_tlc("%s (lead, counterexample expected)" % cfg, r)
        if r.error:
            raise vlib.MachineryError("lead config %s: %s" % (cfg, r.error))
        sc = [p for p in r.printed if isinstance(p, dict) and "why" in p and "steps" in p]
        if not sc:
            v.cov.setdefault("leads_absent_from_model", []).append(cfg)
            continue
        out.append({"id": "lead." + inv, "era": sc[0]["era"], "steps": sc[0]["steps"], "lead": inv})
    return out


def covers(v, tier, seed):
    scen = []
    plan = [("levels", "LogFilter_cover_levels.cfg", {}),
            ("rate", "LogFilter_cover_rate.cfg", {}),
            ("req.legacy", "LogFilter_cover_req.cfg", {"Eras": '{"legacy"}'}),
            ("req.modern", "LogFilter_cover_req.cfg", {"Eras": '{"modern"}'})]
    for tag, cfg, sub in plan:
        wd = own_wd()
        dot = os.path.join(wd, "g.dot")
        r = vlib.run_tlc("LogFilterMC", "cover.cfg", workdir=wd, extra_files={"cover.cfg": cfg_text(cfg, **sub)}, workers=TLC_WORKERS,
                         timeout=600, heap_gb=4, extra_args=["-dump", "dot,actionlabels", dot])
        vlib.tlc_must_pass(r, cfg)
        v.add_tlc("%s[%s] (state graph for the transition cover)" % (cfg, tag), r)
        init, edges = graphwalk.parse_dot(dot)
        paths, total = graphwalk.cover(init, edges, maxlen=60, seed=seed)
        era = "modern" if tag.endswith("modern") else "legacy"
        for i, p in enumerate(paths):
            scen.append({"id": "cov.%s.%d" % (tag, i), "era": era, "steps": steps_of(p)})
        v.cov.setdefault("graphs", {})[tag] = {"nodes": len(edges), "edges": total, "paths": len(paths)}
    return scen


def simulations(v, tier, seed):
    n = 150 if tier == "quick" else 4000
    r = tlc("LogFilterGen", "LogFilter_sim.cfg", workers=1, simulate="num=%d" % n, depth=41, seed=seed, timeout=900)
    vlib.tlc_must_pass(r, "LogFilter_sim.cfg")
    if not r.ok:
        raise vlib.MachineryError("the LogFilter model violates %s in simulation" % r.violation)
    sims = [p for p in r.printed if isinstance(p, dict) and p.get("why") == "sim"]
    if len(sims) < n:
        raise vlib.MachineryError("simulation exported %d of %d behaviours" % (len(sims), n))
    v.add_tlc("LogFilter_sim.cfg (simulate num=%d depth=40 seed=%d)" % (n, seed), r)
    return [{"id": "sim.%d" % i, "era": s["era"], "steps": s["steps"]} for i, s in enumerate(sims)]


# ---- reporting helpers (the verdict is the monitor's; this only reconstructs context for signatures)

def slclass(sl):
    for n, x in SLOG.items():
        if x == sl:
            return n
    if sl < -4:
        return "below-debug"
    if sl > 20:
        return "above-emergency"
    return "unnamed(%d)" % sl


def context_of(rows, idx):
    """Replay the observed levels up to row idx (0-based in rows of one trace)."""
    sess, reqs, era = "unset", {}, "legacy"
    pend, hist = None, []
    for j, e in enumerate(rows[: idx + 1]):
        op = e["op"]
        if e["ev"] == "reset":
            era = e["oera"]
            continue
        thr = lambda c: (reqs.get(c, "closed") if (c != "bg" and era == "modern") else sess)
        if op == "SetLevel" and e["ok"]:
            sess = e["L"]
            if pend:
                pend["raced"] = True
        elif op == "OpenReq" and e["ok"]:
            reqs[e["c"]] = e["L"]
        elif op == "CloseReq":
            reqs.pop(e["c"], None)
        elif op == "SlogEnabled":
            pend = {"f": e["f"], "k": e["k"], "c": e["c"], "sl": e["sl"], "thrE": thr(e["c"]), "raced": False} if e["en"] else None
        elif op == "SlogHandle":
            if pend:
                ws = sorted({pend["thrE"], thr(pend["c"])}) if pend["raced"] else [pend["thrE"]]
                hist.append({"j": j, "f": pend["f"], "sl": pend["sl"], "ws": ws, "raced": pend["raced"], "sent": len(e["sent"]) > 0,
                             "c": pend["c"], "k": pend["k"]})
            if j < idx:
                pend = None
    return era, sess, reqs, pend, hist


def sig_of(inv, rows, idx):
    e = rows[idx]
    era, sess, reqs, pend, hist = context_of(rows, idx)
    if e["op"] == "http":
        return "%s:http:%s:rl=%s:l=%s" % (inv, e["oera"], e["L"], e["lvl"])
    if e["op"] == "SlogHandle" and hist and hist[-1]["j"] == idx:
        h = hist[-1]
        if inv == "EnabledButFiltered":
            return "EnabledButFiltered:slog-unnamed" if slclass(h["sl"]).startswith(("unnamed", "above")) else \
                "EnabledButFiltered:%s:thr=%s" % (slclass(h["sl"]), "/".join(h["ws"]))
        if inv == "Excess":
            # the record that took the token: the most recent record of the family that was handled, passed nothing on
            # and was itself dropped by the LEVEL rule (no level in effect / unnamed slog level / setLevel raced with it)
            cause = "nothing"
            for p in reversed(hist[:-1]):
                if p["f"] != "fd":
                    continue
                if p["sent"]:
                    break
                if any(w in ("unset", "absent") for w in p["ws"]):
                    cause = "nolevel"
                elif p["sl"] not in SLOG.values():
                    cause = "unnamed"
                elif p["raced"]:
                    cause = "raced"
                else:
                    continue
                break
            return "Excess:starved-by=%s" % cause
        return "%s:slog:%s:ctx=%s:thr=%s:sl=%s:fam=%s:clone=%s" % (inv, era, "bg" if h["c"] == "bg" else "req", "/".join(h["ws"]),
                                                                  slclass(h["sl"]), h["f"], h["k"])
    if e["op"] == "LogDirect":
        c = e["c"]
        thr = reqs.get(c, "closed") if (c != "bg" and era == "modern") else sess
        return "%s:direct:%s:ctx=%s:thr=%s:l=%s" % (inv, era, "bg" if c == "bg" else "req", thr, e["lvl"])
    if e["op"] == "SlogEnabled":
        c = e["c"]
        thr = reqs.get(c, "closed") if (c != "bg" and era == "modern") else sess
        return "%s:enabled:%s:ctx=%s:thr=%s:sl=%s" % (inv, era, "bg" if c == "bg" else "req", thr, slclass(e["sl"]))
    return "%s:%s:%s" % (inv, e["op"], era)


def run(tier, seed, replay):
    v = vlib.Verdict(PID, tier, seed)
    v.assumptions = [
        "time is virtual (testing/synctest) and judged at a resolution of 1 microsecond; x/time/rate admits an event up to 1 ns early "
        "(its wait is truncated to whole nanoseconds - seen with a probe at d - 1 ns), which is below the resolution of P3",
        "MinInterval of the rate-limited family is 2 ticks; one tick is 1us .. 5s (seeded per scenario), so 'just below d' is d - 1us in some runs",
        "one logging goroutine at a time: a slog call is split at the public seam between Handler.Enabled and Handler.Handle "
        "(where slog.Logger holds no lock) and at most one logging/setLevel falls into that window; concurrent loggers "
        "(documented as possibly out of order) are not exercised",
        "unknown level strings (client-set, request-carried or message-carried) are outside P1..P5: the model follows the code "
        "(treated as debug) and only drift is reported for them",
        "what the server sent is observed with a server sending middleware, what the client received with ClientOptions.LoggingMessageHandler",
        "stateless HTTP: SSE responses only (with JSONResponse the SDK documents that notifications 'may' not reach the client)",
        "TLC exhaustive results are for the stated small constants (D = 2 ticks, <= 2 requests, <= 4 set levels, 5 slog levels)",
    ]
    out = vlib.outdir(PID)
    rng = random.Random(seed)
    lead_sc = []
    if replay:
        rep = json.load(open(replay))["replay"]
        scen = [rep["scenario"]] if rep.get("scenario") else []
        http_cases = rep.get("http", [])
    else:
        design(v, tier)
        lead_sc = leads(v)
        cov = covers(v, tier, seed)
        sims = simulations(v, tier, seed)
        scen = lead_sc + cov + sims
        hres = tlc("LogFilterHttp", "LogFilterHttp.cfg", workers=1, timeout=120, heap_gb=1)
        vlib.tlc_must_pass(hres, "LogFilterHttp")
        if not hres.ok:
            raise vlib.MachineryError("stateless HTTP table: design check failed")
        v.add_tlc("LogFilterHttp (decision table: Holds(c, Expected(c)) for all cases)", hres)
        http_cases = [p for p in hres.printed if isinstance(p, dict) and "http" in p]
        if len(http_cases) != 160:
            raise vlib.MachineryError("HTTP table exported %d cases" % len(http_cases))
    scen_path = os.path.join(out, "scenarios.ndjson")
    vlib.write_ndjson(scen_path, scen)
    by_id = {s["id"]: s for s in scen}
    v.cov["scenarios"] = len(scen)
    v.cov["scenario_steps"] = sum(len(s["steps"]) for s in scen)

    # real code
    seeds = [seed] if (tier == "quick" or replay) else [seed, seed + 1000]
    if replay and rep.get("seed"):
        seeds = [rep["seed"]]
    obs_path = os.path.join(out, "obs.ndjson")
    rows = []
    for sd in seeds:
        part = os.path.join(out, "obs-%d.ndjson" % sd)
        rc, gout, wall = vlib.go_test("mcp", "^TestVerif_X03$", ["mcp/x03_logging_test.go"],
                                      env={"VERIF_IN": scen_path, "VERIF_OUT": part, "VERIF_SEED": sd}, timeout=1200)
        vlib.go_must_build(rc, gout, PID)
        if rc != 0:
            if "panic:" in gout or "fatal error:" in gout:
                v.violation("panic", "the SDK panicked while a logging scenario was running", {"output": gout[-4000:], "seed": sd})
                return v.finish()
            raise vlib.MachineryError("X03 harness failed:\n" + gout[-3000:])
        pr = vlib.read_ndjson(part)
        for r in pr:
            r["trace"] = "%s@%d" % (r["trace"], sd)
            r["seed"] = sd
        rows += pr
        os.remove(part)
    if http_cases:
        hin, hout = os.path.join(out, "http_cases.ndjson"), os.path.join(out, "obs-http.ndjson")
        vlib.write_ndjson(hin, http_cases)
        rc, gout, wall = vlib.go_test("mcp", "^TestVerif_X03Http$", ["mcp/x03_logging_test.go"],
                                      env={"VERIF_IN": hin, "VERIF_OUT": hout, "VERIF_SEED": seed}, timeout=600)
        vlib.go_must_build(rc, gout, PID)
        if rc != 0:
            raise vlib.MachineryError("X03 HTTP harness failed:\n" + gout[-3000:])
        hrows = vlib.read_ndjson(hout)
        for r in hrows:
            r["seed"] = seed
        if len([r for r in hrows if r["ev"] == "http"]) != len(http_cases):
            raise vlib.MachineryError("HTTP harness ran %d of %d cases" % (len(hrows), len(http_cases)))
        rows += hrows
        os.remove(hout)
    bad = [r for r in rows if r["ev"] in ("setup-failed", "panic")]
    if bad:
        if bad[0]["ev"] == "panic":
            v.violation("panic", "panic while a logging scenario was running: " + bad[0]["err"][:300], {"line": bad[0]})
            return v.finish()
        raise vlib.MachineryError("scenario could not be set up: %s" % json.dumps(bad[0])[:400])
    ntr = sum(1 for r in rows if r["ev"] == "reset" and r["trace"] != "http")
    if ntr != len(scen) * len(seeds):
        raise vlib.MachineryError("harness ran %d of %d scenarios" % (ntr, len(scen) * len(seeds)))
    wrong_era = [r for r in rows if r["ev"] == "reset" and r["era"] != r["oera"]]
    
    if wrong_era:
        raise vlib.MachineryError("a scenario did not negotiate its era: %s" % json.dumps(wrong_era[0])[:300])
    stuck = [r for r in rows if r["op"] == "end" and r["stuck"]]
    if stuck:
        raise vlib.MachineryError("a scenario did not shut down: %s" % stuck[0]["trace"])
    vlib.write_ndjson(obs_path, rows)

    # monitor: the verdict
    fails, mres = vlib.run_monitor("LogFilterMon", "LogFilterMon.cfg", obs_path, timeout=1500, heap_gb=6)
    v.add_tlc("LogFilterMon", mres)
    traces = vlib.split_traces(rows)
    v.cov["traces_validated_against_impl"] = len(traces) + (1 if http_cases else 0)
    logs = [r for r in rows if r["op"] in ("LogDirect", "SlogHandle", "http") and (r["op"] != "SlogHandle" or r["applied"])]
    v.cov["evaluations"] = len(logs)
    v.cov["log_calls_sent"] = sum(1 for r in logs if r["sent"])
    v.cov["log_calls_not_sent"] = sum(1 for r in logs if not r["sent"])
    v.cov["enabled_false"] = sum(1 for r in rows if r["op"] == "SlogEnabled" and not r["en"])
    v.cov["received_by_client"] = sum(len(r["recv"]) for r in rows)
    distinct = set()
    for tid, start, trows in traces:
        for j, r in enumerate(trows):
            if r["op"] in ("LogDirect", "SlogEnabled"):
                distinct.add((r["oera"], r["op"], r["f"], r["k"], "bg" if r["c"] == "bg" else "req", r["sl"], r["lvl"], bool(r["en"]), len(r["sent"])))
    v.cov["distinct_nontrivial"] = len(distinct)
    v.cov["rule"] = ("scenarios = transition covers (every edge) of the state graphs LogFilter_cover_{levels,rate,req x2}.cfg + seeded TLC "
                     "simulations (depth 40, full alphabet: 2 eras, 2 requests, all 8 levels + unknown + absent, 17 slog levels, 3 clones, "
                     "2 handler families) + the lead counterexamples + the 160-case stateless-HTTP table; distinct = (era, kind of call, "
                     "family, clone, context kind, level, enabled, sent); evaluations = log calls judged")
    v.cov["exhaustive"] = False
    for tid, start, trows in traces[:3]:
        v.sample({"trace": tid, "steps": [[r["op"], r["f"], r["c"], r["sl"], r["lvl"], r["L"], r["en"], [s["lvl"] for s in r["sent"]]] for r in trows[1:8]]})

    hit_by_trace = {}
    # a step the specification cannot take is a generation error - unless the trace had already drifted
    first_drift = {}
    for f in fails:
        if f["monfail"] == "drift":
            tid = vlib.trace_of_line(traces, f["line"])[0]
            first_drift[tid] = min(first_drift.get(tid, f["line"]), f["line"])
    for f in fails:
        if f["monfail"] in ("unfollowable", "stuck"):
            tid = vlib.trace_of_line(traces, f["line"])[0]
            if f["monfail"] == "stuck" or first_drift.get(tid, 1 << 60) > f["line"]:
                e = rows[f["line"] - 1]
                raise vlib.MachineryError("monitor: %s at line %d (%s)" % (f["monfail"], f["line"], json.dumps(e)[:300]))
    fails = [f for f in fails if f["monfail"] != "unfollowable"]
    seen = set()
    ndrift = 0
    for f in sorted(fails, key=lambda f: f["line"]):
        e = rows[f["line"] - 1]
        if e["op"] == "http":
            tid, start, trows = "http", f["line"], [e]
            idx = 0
        else:
            tid, start, trows = vlib.trace_of_line(traces, f["line"])
            idx = f["line"] - start
        base_id = tid.split("@")[0]
        if f["monfail"] == "drift":
            ndrift += 1
            if ("drift", tid) not in seen and len(v.drift) < 20:
                seen.add(("drift", tid))
                v.drift.append("trace %s step %s %s: the real outcome differs from LogFilter.tla (%s)" % (
                    tid, e["i"], e["op"], json.dumps({k: e[k] for k in ("f", "k", "c", "sl", "lvl", "L", "en", "ok", "applied", "sent")})[:300]))
            continue
        sig = sig_of(f["monfail"], trows, idx)
        hit_by_trace.setdefault(base_id, set()).add(f["monfail"])
        if sig in seen:
            continue
        seen.add(sig)
        sc = by_id.get(base_id)
        upto = e["i"] if e["op"] != "SlogHandle" else None
        v.violation(sig, "%s (%s) fails on the real code: trace %s line %s: %s" % (
            f["monfail"], PROPERTY_OF.get(f["monfail"], "?"), tid, f["line"],
            json.dumps({k: e[k] for k in ("op", "oera", "f", "k", "c", "sl", "lvl", "L", "t", "d", "en", "sent")})[:400]),
            {"scenario": sc, "http": [{"http": {"era": e["oera"], "rl": e["L"], "l": e["lvl"]}}] if e["op"] == "http" else [],
             "seed": e.get("seed"), "line": e, "upto": upto})
    v.cov["monitor_failures"] = len([f for f in fails if f["monfail"] != "drift"])
    v.cov["drift_lines"] = ndrift
    # leads must reproduce on the real code; one that does not is drift of the model, never a verdict
    for s in lead_sc:
        if s["lead"] not in hit_by_trace.get(s["id"], set()):
            v.drift.append("lead %s: TLC's counterexample does not reproduce on the real code (the model's deviation is not in the code)" % s["id"])
    v.cov["leads_reproduced"] = sorted(s["id"] for s in lead_sc if s["lead"] in hit_by_trace.get(s["id"], set()))
    return v.finish()
