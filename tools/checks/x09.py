"""X09 (extension) - the streamable-HTTP shutdown satellite of property C05, stand-alone: `bin/check X09`.

See tools/httpclose.py (spec/HttpClose.tla, HttpCloseMC.tla, HttpCloseMon.tla, harness/mcp/c05_httpclose_test.go).
The same satellite is meant to run inside C05's own check (`connrun` for pid == "C05"); violations carry the C05.Http*
clauses either way, known findings are matched against `property=X09` lines here and `property=C05` lines there."""
import json
import vlib, httpclose

PID = "X09"


def run(tier, seed, replay):
    v = vlib.Verdict(PID, tier, seed)
    # findings recorded for C05 are the findings of this satellite
    v.known = dict(vlib.load_known().get("C05", {}), **v.known)
    v.assumptions = ["handlers return when released; a handler blocked inside the SDK is the SDK's business",
                     "the scripted network ends every exchange it cancels; held exchanges are let through before the eventual clauses are judged",
                     "seam-level scheduling: the SDK runs to quiescence between environment actions (no time passes between steps)",
                     "virtual time (testing/synctest): a step `tick` is 6 min, `idle` 13 h, SessionTimeout 12 h, drain 1 h + 25 h",
                     "HttpClose.tla exhaustive results are for the stated small constants"]
    replay_scn = None
    if replay:
        rep = json.load(open(replay))["replay"]
        replay_scn = rep["httpclose_scenario"]
    traces = httpclose.satellite(v, PID, tier, seed, replay_scn=replay_scn)
    steps = sum(len(httpclose.steps_of_trace(t)) for (_, _, t) in traces)
    v.cov["evaluations"] = steps
    distinct = {vlib.sha([t[0].get("stateless"), t[0].get("timeout"), t[0].get("sse"), t[0].get("store"), httpclose.steps_of_trace(t)]) for (_, _, t) in traces}
    v.cov["distinct_nontrivial"] = len(distinct)
    v.cov["rule"] = ("scenarios = environment-action scripts (transition cover of the seam-level TLC state graphs of HttpClose.tla, TLC "
                     "-simulate histories, hand-written races, seeded random scripts beyond the model's bounds), each run on a real "
                     "mcp.Client/StreamableClientTransport against a real mcp.Server/StreamableHTTPHandler through a scripted in-process "
                     "RoundTripper under synctest; evaluations = script steps executed; distinct by (mode, step list)")
    for tid, start, trows in traces[:3]:
        v.sample({"trace": tid, "mode": httpclose.mode_of({"stateless": trows[0].get("stateless"), "timeout": trows[0].get("timeout")}),
                  "steps": httpclose.steps_of_trace(trows)[:14]})
    return v.finish()
