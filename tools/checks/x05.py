"""X05 — extension check: the mcp.Connection / mcp.Transport contract (mcp/transport.go, sse.go, streamable.go).

model     TransportContract.tla (+ TransportContractDefs: the class table; TransportContractMC: budgets, witnesses): one
          duplex link, per endpoint Write threads, a reader, Close threads, one action per API call begin / end, the
          commit of a Write, the pump goroutine, the effect of Close and the peer learning of it as internal actions;
          six classes of buffering / close propagation (rdv, buf, stdio, sse, stream, streamns).  Exhaustive TLC per class
          (safety T1..T6, the liveness properties L1..L3 as invariants of the states at rest and - small budgets - as
          temporal properties under weak fairness), the contract as designed (Ideal = TRUE: T2 and T3 as well), and
          sensitivity runs that must FIND deviations D1 / D3 as implemented; witnesses; -coverage 1 in the thorough tier
generate  transition covers (tools/graphwalk.py) of the state graphs dumped by TLC + TLC -simulate behaviours with larger
          budgets, projected on the Begin actions (the schedule of API calls), + corner schedules; a seeded part of them
          with "no settle" steps (the next call races with the previous one)
replay    harness/mcp/x05_transport_test.go on eight real Connection pairs (mem, iopipe, logmem, ospipe, stdio, sse, stream,
          streamns); begin / end of every call logged with a global sequence number
judge     TransportContractMon.tla (properties only -> verdict), TransportContractTrace.tla (strict: every event is the
          model's Begin / End action, internal steps inferred, at rest where the log says so -> drift)
"""
import glob, json, os, random, re, shutil, tempfile, time
from concurrent.futures import ThreadPoolExecutor
import vlib, graphwalk

PID = "X05"
HARNESS = ["mcp/x05_transport_test.go"]
CLASSES = ["rdv", "buf", "stdio", "sse", "stream", "streamns"]
KINDS = {"rdv": ["mem", "iopipe", "logmem"], "buf": ["ospipe"], "stdio": ["stdio"], "sse": ["sse"], "stream": ["stream"],
         "streamns": ["streamns"]}
ACTIONS = ["WriteBegin", "WriteSend", "WriteEnd", "Pump", "PumpEof", "ReadBegin", "ReadTakeMsg", "ReadTakeErr", "ReadEnd",
           "CloseBegin", "CloseDo", "CloseEnd", "ProcessExit"]
_cov = re.compile(r"(?m)^<(\w+) line [^>]*>: (\d+):(\d+)")
LEADS = [("lead_sse_T2", "ClosedStopsReads"), ("lead_stream_T2", "ClosedStopsReads"), ("lead_streamns_T2", "ClosedStopsReads"),
         ("lead_stdio_T3", "ClosedStopsWrites"), ("lead_streamns_T3", "ClosedStopsWrites")]
WITNESSES = [("mc_rdv_q2", "NeverBlockedWrite"), ("mc_rdv_q2", "NeverDelivered2"), ("mc_rdv_q2", "NeverEofAfterMsg"),
             ("mc_buf_q", "NeverWriteErr"), ("mc_sse_q", "NeverDropped"), ("mc_sse_q", "NeverLateAccept"),
             ("mc_stream_q", "NeverWriteErr")]


def conn_name(kind, ep):
    """The Connection implementation behind an endpoint (signatures name it, not the scenario)."""
    if kind in ("mem", "iopipe", "ospipe"):
        return "ioConn"
    if kind == "logmem":
        return "loggingConn"
    if kind == "stdio":
        return "ioConn/stdio"
    side = "Client" if ep == "A" else "Server"
    if kind == "sse":
        return "sse%sConn" % side
    return "streamable%sConn" % side + ("/nosession" if kind == "streamns" and ep == "A" else "")


def wdir():
    d = tempfile.mkdtemp(prefix="x05-")
    vlib._scratch.append(d)
    return d


def spec_text(name):
    return open(os.path.join(vlib.SPEC, name)).read()


# --------------------------------------------------------------------------
# model checking


def model_check(v, tier):
    quick = tier == "quick"
    jobs = [("mc_%s_q" % c, 2) for c in CLASSES] + [("mc_rdv_q2", 1), ("live_rdv_q", 1)]
    jobs += [("ideal_%s" % c, 1) for c in ("stdio", "sse", "stream", "streamns")]
    if not quick:
        jobs += [("mc_%s_t1" % c, 2) for c in CLASSES] + [("mc_%s_t2" % c, 2) for c in CLASSES if c != "rdv"]
        jobs += [("mc_rdv_t3", 3), ("mc_sse_t3", 3), ("mc_stream_t3", 4), ("mc_rdv_t4", 4)]
        jobs += [("live_%s" % c, 1) for c in CLASSES]

    def mc(job):
        name, workers = job
        cov = (not quick) and name.endswith("_q") and name.startswith("mc_")
        return job, vlib.run_tlc("TransportContractMC", "TransportContract_%s.cfg" % name, workdir=wdir(), workers=workers,
                                 timeout=1500, heap_gb=3 if quick else 6, coverage=cov)

    def lead(job):
        name, inv = job
        return job, vlib.run_tlc("TransportContractMC", "TransportContract_%s.cfg" % name, workdir=wdir(), workers=1,
                                 timeout=300, heap_gb=2)

    def wit(job):
        base, w = job
        txt = spec_text("TransportContract_%s.cfg" % base)
        txt = re.sub(r"(?m)^(INVARIANTS|PROPERTIES|VIEW).*\n", "", txt) + "INVARIANT %s\n" % w
        return job, vlib.run_tlc("TransportContractMC", "wit.cfg", workdir=wdir(), extra_files={"wit.cfg": txt}, workers=1,
                                 timeout=300, heap_gb=2)

    with ThreadPoolExecutor(max_workers=3 if quick else 4) as ex:
        f_mc = [ex.submit(mc, j) for j in sorted(jobs, key=lambda j: -j[1])]
        f_ld = [ex.submit(lead, j) for j in LEADS]
        f_wt = [ex.submit(wit, j) for j in WITNESSES]
        r_mc, r_ld, r_wt = [f.result() for f in f_mc], [f.result() for f in f_ld], [f.result() for f in f_wt]
    live = {}
    for (name, _), res in r_mc:
        vlib.tlc_must_pass(res, name)
        v.add_tlc(name, res)
        if not res.ok:
            raise vlib.MachineryError("model violates %s in %s: the specification no longer satisfies its own properties\n%s"
                                      % (res.violation, name, res.stdout[-3000:]))
        for act, dist, tot in _cov.findall(res.stdout):      # (vlib's pattern misses lines with a location suffix)
            if act in ACTIONS:
                live[act] = live.get(act, 0) + int(tot)
    if not quick:
        dead = sorted(a for a in ACTIONS if live.get(a, 0) == 0)
        v.cov["dead_actions"] = dead
        if dead:
            raise vlib.MachineryError("vacuity: actions never taken in any configuration: %s" % dead)
    for (name, inv), res in r_ld:
        v.add_tlc(name, res)
        if res.violation != inv:
            raise vlib.MachineryError("sensitivity: %s must violate %s (the deviation as implemented) but gave %s %s"
                                      % (name, inv, res.violation, res.error))
    for (base, w), res in r_wt:
        if res.violation != w:
            raise vlib.MachineryError("vacuity: witness %s not reachable in %s (%s)" % (w, base, res.error or res.violation))
    v.cov["witnesses_reached"] = len(r_wt)
    v.cov["deviations_found_by_tlc"] = ["%s violates %s" % (n, i) for (n, i), _ in r_ld]


# --------------------------------------------------------------------------
# generation


def project(path):
    ops = []
    for name, args in path:
        if name == "WriteBegin":
            ops.append({"o": "W", "e": args[0], "i": args[1], "k": args[2], "ns": False})
        elif name == "ReadBegin":
            ops.append({"o": "R", "e": args[0], "i": 0, "k": "", "ns": False})
        elif name == "CloseBegin":
            ops.append({"o": "C", "e": args[0], "i": args[1], "k": "", "ns": False})
        elif name == "ProcessExit":
            ops.append({"o": "X", "e": args[0], "i": 0, "k": "", "ns": False})
    return ops


def cover_schedules(v, cls, cfg, seed):
    wd = wdir()
    dot = os.path.join(wd, "g.dot")
    res = vlib.run_tlc("TransportContractMC", cfg, workdir=wd, timeout=600, heap_gb=3, workers=2,
                       extra_args=["-dump", "dot,actionlabels", dot])
    vlib.tlc_must_pass(res, cfg)
    if not res.ok:
        raise vlib.MachineryError("cover model %s violates %s" % (cfg, res.violation))
    v.add_tlc(cfg, res)
    init, edges = graphwalk.parse_dot(dot)
    os.remove(dot)
    total_edges = sum(len(x) for x in edges.values())
    paths, covered = graphwalk.cover(init, edges, maxlen=60, seed=seed)
    v.cov.setdefault("graphs", []).append({"config": cfg, "nodes": len(edges), "edges": total_edges, "paths": len(paths)})
    return [project(p) for p in paths]


_label = re.compile(r"^\\\* <(\w+(?:\(.*\))?) line \d+", re.M)


def sim_schedules(v, cls, cfg, num, depth, seed):
    wd = wdir()
    sim = os.path.join(wd, "sim")
    os.makedirs(sim)
    res = vlib.run_tlc("TransportContractMC", cfg, workdir=wd, workers=1, timeout=600, heap_gb=3,
                       simulate="file=%s/b,num=%d" % (sim, num), depth=depth, seed=seed)
    if res.error or res.violation:
        raise vlib.MachineryError("%s simulation failed: %s %s\n%s" % (cfg, res.error, res.violation, res.stdout[-1500:]))
    m = re.search(r"The number of states generated: (\d+)", res.stdout)
    if m:
        res.generated = res.distinct = int(m.group(1))
    v.add_tlc("simulate:" + cfg, res)
    out = []
    for f in sorted(glob.glob(os.path.join(sim, "b_*"))):
        labels = _label.findall(open(f).read())
        out.append(project([graphwalk.parse_label(x) for x in labels if not x.startswith("Init")]))
    shutil.rmtree(sim, ignore_errors=True)
    return out


def corner_schedules(cls):
    W = lambda e, i, k="n", ns=False: {"o": "W", "e": e, "i": i, "k": k, "ns": ns}
    R = lambda e, ns=False: {"o": "R", "e": e, "i": 0, "k": "", "ns": ns}
    C = lambda e, i, ns=False: {"o": "C", "e": e, "i": i, "k": "", "ns": ns}
    X = lambda e: {"o": "X", "e": e, "i": 0, "k": "", "ns": False}
    rows = [
        # no Close at all: everything written is read, in order, both ways (T1, T6)
        [W("A", 1), W("A", 2, ns=True), W("A", 3, ns=True), R("B"), R("B"), R("B"), R("B"), W("B", 1), W("B", 2), R("A"), R("A"), R("A")],
        [R("A"), R("B"), W("A", 1), W("B", 1), R("A"), R("B"), W("B", 2), W("A", 2), R("B"), R("A")],
        # writers racing each other and a reader
        [W("A", 1, ns=True), W("A", 2, ns=True), W("A", 3, ns=True), R("B", ns=True), R("B"), R("B"), R("B")],
        # Close racing a blocked Read and blocked Writes, twice, from both sides
        [R("A"), R("B"), W("A", 1), W("A", 2), W("A", 3), C("A", 1, ns=True), C("A", 2, ns=True), C("B", 1)],
        [R("B"), C("B", 1, ns=True), C("B", 2, ns=True), W("A", 1, ns=True), W("B", 1), R("B"), R("A")],
        # queued messages, then Close, then Reads on the closed side (D1) and Writes on it (D3)
        [W("A", 1), W("A", 2), W("B", 1), W("B", 2), C("B", 1), R("B"), R("B"), R("B"), W("B", 3), R("A"), R("A"), R("A")],
        [W("A", 1), W("A", 2), W("B", 1), W("B", 2), C("A", 1), R("A"), R("A"), R("A"), W("A", 3), R("B"), R("B"), R("B"), R("B")],
        # the peer closes while messages are in flight; the end of the stream is reported once (D4)
        [W("A", 1), W("A", 2, ns=True), C("A", 1), R("B"), R("B"), R("B"), R("B")],
        [W("B", 1), C("B", 1), C("B", 2), R("A"), R("A"), R("A"), W("A", 1), W("A", 2)],
        [R("A"), C("B", 1), R("A"), W("A", 1), C("A", 1), W("A", 2), R("A")],
    ]
    if cls == "stdio":
        rows += [[W("A", 1), R("B"), R("B"), C("A", 1), W("A", 2), X("A"), R("B")],
                 [R("A"), R("B"), C("A", 1), C("B", 1), X("B"), X("A")],
                 [W("A", 1), W("B", 1), C("B", 1), X("B"), R("A"), R("A"), W("A", 2), R("B")]]
    if cls in ("stream", "streamns"):
        rows += [[W("B", 1, "orph"), W("B", 2), W("A", 1, "orph"), R("A"), R("B"), W("B", 3, "orph"), R("A")],
                 [W("B", 1, "orph"), C("B", 1), W("B", 2, "orph"), R("A")]]
    return rows


def generate(v, tier, seed):
    quick = tier == "quick"
    nsim = 60 if quick else 1200
    out = {}

    def gen(cls):
        sch = corner_schedules(cls)
        sch += cover_schedules(v, cls, "TransportContract_cover_%s_q.cfg" % cls, seed)
        if not quick:
            sch += cover_schedules(v, cls, "TransportContract_cover_%s_t.cfg" % cls, seed + 1)
        sch += sim_schedules(v, cls, "TransportContract_sim_%s.cfg" % cls, nsim, 50, seed + CLASSES.index(cls))
        return cls, sch
    with ThreadPoolExecutor(max_workers=6) as ex:
        for cls, sch in ex.map(gen, CLASSES):
            out[cls] = sch
    rows = []
    rnd = random.Random(seed * 104729 + 5)
    for cls in CLASSES:
        seen, uniq = set(), []
        for ops in out[cls]:
            if not ops:
                continue
            key = json.dumps(ops)
            if key not in seen:
                seen.add(key)
                uniq.append(ops)
        # a seeded part of the schedules a second time with racing steps
        racy = []
        for ops in uniq:
            if len(ops) >= 3 and rnd.random() < (0.5 if quick else 0.7):
                cp = [dict(o) for o in ops]
                for o in cp[:-1]:
                    if o["o"] != "X" and rnd.random() < 0.4:
                        o["ns"] = True
                key = json.dumps(cp)
                if key not in seen:
                    seen.add(key)
                    racy.append(cp)
        v.cov.setdefault("schedules", {})[cls] = {"settled": len(uniq), "racing": len(racy)}
        ncorner = len(corner_schedules(cls))
        allsch = uniq + racy
        cap = 260 if quick else 1000
        if len(allsch) > cap:       # the corner schedules always run; the rest is a seeded sample
            allsch = allsch[:ncorner] + rnd.sample(allsch[ncorner:], cap - ncorner)
            v.cov["schedules"][cls]["sampled"] = cap
        for n, ops in enumerate(allsch):
            kinds = KINDS[cls]
            # the three rdv transports share the schedules: each schedule on one of them (all of them in the thorough tier)
            for kind in (kinds if (not quick or n < 12) else [kinds[n % len(kinds)]]):
                rows.append({"id": "%s.%d" % (kind, n), "kind": kind, "cls": cls, "ops": ops})
    return rows


# --------------------------------------------------------------------------
# judging


def brief(e):
    if e.get("ev") in ("b", "e", "x"):
        s = "%s%s %s%s" % (e["ev"], e["op"], e["ep"], e["i"])
        if e["ev"] == "e":
            s += "=" + e["res"] + (":%s%d" % (e["src"], e["w"]) if e["res"] == "msg" else "")
        return s
    if e.get("ev") == "mark":
        return "%s[pend=%s leak=%s %s]" % (e["name"], ",".join("%s.%s%d" % (p["ep"], p["op"], p["i"]) for p in e["pend"]),
                                           ",".join(e["leak"]), e["note"])
    return e.get("ev", "?")


def run_mon(rows, nshard):
    traces = vlib.split_traces(rows)
    parts = [[t for j, t in enumerate(traces) if j % nshard == i] for i in range(nshard)]

    def one(part):
        prow = [r for (_, _, trows) in part for r in trows]
        if not prow:
            return [], None
        wd = wdir()
        pp = os.path.join(wd, "obs_in.ndjson")
        vlib.write_ndjson(pp, prow)
        res = vlib.run_tlc("TransportContractMon", "TransportContractMon.cfg", workdir=wd, extra_files={"obs.ndjson": pp},
                           workers=1, timeout=1500, heap_gb=4)
        hwm = [p for p in res.printed if isinstance(p, dict) and "hwm" in p]
        if res.error or hwm or res.violation or not res.ok:
            raise vlib.MachineryError("monitor did not consume the log (%s %s %s)\n%s"
                                      % (res.error, hwm, res.violation, "\n".join(res.stdout.splitlines()[-30:])))
        lineno, n = {}, 0
        for (tid, start, trows) in part:
            for off in range(len(trows)):
                n += 1
                lineno[n] = start + off
        return [{"monfail": p["monfail"], "line": lineno[p["line"]]} for p in res.printed
                if isinstance(p, dict) and "monfail" in p], res
    with ThreadPoolExecutor(max_workers=nshard) as ex:
        out = list(ex.map(one, parts))
    return sorted([f for (fl, _) in out for f in fl], key=lambda f: f["line"]), [r for (_, r) in out if r is not None]


def run_strict(cls, traces):
    """Strict validation of a list of (tid, rows) of one class. Returns (explained, drifts, tlc results)."""
    cfg_txt = spec_text("TransportContractTrace.cfg").replace('Class = "rdv"', 'Class = "%s"' % cls)
    cur, okc, drifts, runs = list(traces), 0, [], []
    for attempt in range(10):
        if not cur:
            break
        rows = [r for (_, tr) in cur for r in tr]
        sentinel = dict(rows[0])
        sentinel["ev"], sentinel["trace"] = "reset", "sentinel"
        wd = wdir()
        sp = os.path.join(wd, "obs_in.ndjson")
        vlib.write_ndjson(sp, rows + [sentinel])
        res = vlib.run_tlc("TransportContractTrace", "trace.cfg", workdir=wd, workers=1, timeout=1500, heap_gb=4,
                           extra_files={"obs.ndjson": sp, "trace.cfg": cfg_txt})
        runs.append(res)
        hwm = [p for p in res.printed if isinstance(p, dict) and "hwm" in p]
        if res.ok and not hwm:
            okc += len(cur)
            break
        if not hwm:
            raise vlib.MachineryError("strict trace spec failed to run: %s\n%s" % (res.error or res.violation, res.stdout[-2000:]))
        line = max(1, hwm[0]["hwm"])            # the first line no behaviour of the model reaches
        tr2 = vlib.split_traces(rows)
        tid, start, trows = vlib.trace_of_line(tr2, min(line, len(rows)))
        upto = min(line, len(rows)) - start
        drifts.append((tid, "trace %s: event %d not explained by TransportContract(%s): ... %s"
                       % (tid, upto, cls, " ".join(brief(r) for r in trows[max(1, upto - 6):upto + 1]))))
        idx = [i for i, (t2, _) in enumerate(cur) if t2 == tid][0]
        okc += idx
        cur = cur[idx + 1:]
    return okc, drifts, runs


# --------------------------------------------------------------------------


def run(tier, seed, replay):
    v = vlib.Verdict(PID, tier, seed)
    quick = tier == "quick"
    v.assumptions = [
        "HTTP is served in process (RoundTripper -> ServeHTTP with a buffered pipe-backed ResponseWriter; closing the response "
        "body cancels the request context): net/http's own connection handling and real sockets are not part of what is checked",
        "the server side of the HTTP transports is the bare SSEServerTransport / StreamableServerTransport behind glue that does "
        "what SSEHandler / StreamableHTTPHandler do around them (hanging GET closes the connection when the request ends; DELETE "
        "closes it; requests for a closed session get 404)",
        "StdioTransport is connected in process by swapping os.Stdin / os.Stdout for os.Pipe ends while Connect runs; the exit of "
        "a process is the harness closing its descriptors",
        "pipe-based transports run on real goroutines; 'settled' is read from the goroutine states (runtime.Stack); HTTP "
        "transports run under testing/synctest (virtual time; 4 s pass after every step of the streamable kinds so that the "
        "client's reconnect attempt happens)",
        "one call begins per step; ends happen when the SDK produces them: interleavings inside a call are explored by TLC on the "
        "model, on the real code only through the racing ('ns') steps",
        "messages are progress notifications (and responses nobody asked for); requests / responses routed over POST streams, "
        "batches (C02), resumption (C08/C09) are covered elsewhere",
        "TLC exhaustive results are for the stated small budgets (1-2 Writes and Reads per side, 1-2 Close calls per side, queue "
        "capacities 1 / 100)"]
    out = vlib.outdir(PID)
    phase, tmark = {}, [time.time()]

    def lap(name):
        phase[name] = round(time.time() - tmark[0], 1)
        tmark[0] = time.time()
    v.cov["phase_s"] = phase
    for stale in glob.glob(os.path.join(out, "violation-*.json")):
        if not (replay and os.path.abspath(stale) == os.path.abspath(replay)):
            os.remove(stale)
    bg = ThreadPoolExecutor(max_workers=1)
    fut = None
    if replay:
        rep = json.load(open(replay))["replay"]
        rows = [dict(rep["scenario"], id="replay.%d" % i) for i in range(rep.get("repeat", 20))]
    else:
        fut = bg.submit(model_check, v, tier)
        rows = generate(v, tier, seed)
        lap("generate")
    by_id = {r["id"]: r for r in rows}
    vlib.write_ndjson(os.path.join(out, "scenarios.ndjson"), rows)
    v.cov["scenarios"] = {k: sum(1 for r in rows if r["kind"] == k) for k in sorted({r["kind"] for r in rows})}

    # replay on the real code
    nshard = 1 if replay else 4
    shards = [rows[i::nshard] for i in range(nshard)]

    def replay_shard(i):
        hp, op = os.path.join(out, "scenarios.%d.ndjson" % i), os.path.join(out, "obs.%d.ndjson" % i)
        vlib.write_ndjson(hp, shards[i])
        if os.path.exists(op):
            os.remove(op)
        rc, gout, wall = vlib.go_test("mcp", "^TestVerif_X05$", HARNESS, env={"VERIF_IN": hp, "VERIF_OUT": op, "VERIF_SEED": seed},
                                      timeout=1200, race=(not quick and i == 0))
        vlib.go_must_build(rc, gout, PID)
        got = vlib.read_ndjson(op) if os.path.exists(op) else []
        os.remove(hp)
        if os.path.exists(op):
            os.remove(op)
        return rc, gout, got
    with ThreadPoolExecutor(max_workers=nshard) as ex:
        results = list(ex.map(replay_shard, range(nshard)))
    lap("replay")
    obs = []
    for i, (rc_go, gout, got) in enumerate(results):
        tr = vlib.split_traces(got)
        if "DATA RACE" in gout:
            m = re.search(r"WARNING: DATA RACE(?:.|\n)*?\n\s+(\S+)\(", gout)
            v.violation("NoRace:%s" % (m.group(1).split("/")[-1] if m else "?"),
                        "data race reported by the race detector while replaying schedules", {"output": gout[-3000:]})
            rc_go = 0 if len(tr) == len(shards[i]) else rc_go
        if rc_go != 0:
            lines = [l for l in gout.splitlines() if l.startswith("panic:") or "fatal error" in l]
            if not lines:
                raise vlib.MachineryError("X05 harness failed:\n" + gout[-3000:])
            crashed = shards[i][len(tr)]["id"] if len(tr) < len(shards[i]) else "?"
            h = by_id.get(crashed, {})
            v.violation("T4.NoPanic:%s" % re.sub(r"0x[0-9a-f]+|\d+", "N", lines[0])[:80],
                        "the harness process died while replaying schedule %s: %s" % (crashed, lines[0]),
                        {"scenario": h, "output": gout[-2500:]})
            v.cov["scenarios_not_replayed"] = v.cov.get("scenarios_not_replayed", 0) + len(shards[i]) - len(tr)
        obs += [r for (_, _, trows) in tr for r in trows]
    vlib.write_ndjson(os.path.join(out, "obs.ndjson"), obs)
    traces = vlib.split_traces(obs)
    v.cov["traces_validated_against_impl"] = len(traces)
    v.cov["evaluations"] = sum(1 for r in obs if r.get("ev") == "e")
    v.cov["steps_not_applicable"] = sum(1 for r in obs if r.get("ev") == "skip")
    blocked_m1 = sum(1 for r in obs if r.get("ev") == "mark" and r["name"] == "m1" and r["pend"])
    v.cov["traces_with_blocked_calls_at_rest"] = blocked_m1
    v.cov["distinct_nontrivial"] = sum(1 for (_, _, tr) in traces if any(r.get("ev") == "e" and r["res"] == "err" for r in tr))
    v.cov["results_seen"] = {}
    for r in obs:
        if r.get("ev") == "e":
            k = "%s/%s=%s" % (r["cls"], r["op"], r["res"])
            v.cov["results_seen"][k] = v.cov["results_seen"].get(k, 0) + 1
    v.cov["rule"] = ("schedules = corner schedules + transition covers of the TLC state graphs (one per class) + TLC-simulated "
                     "behaviours with 3 Writes / 3 Reads / 2 Closes per side, projected on the Begin actions, distinct; a seeded "
                     "part of them again with racing steps; each on the transports of its class (rdv: mem, iopipe, logmem; "
                     "buf: ospipe; stdio; sse; stream; streamns); non-trivial = some call returned an error")
    for tid, start, trows in traces[:2]:
        v.sample({"trace": tid, "events": " ".join(brief(r) for r in trows[1:40])})

    # verdict (monitor) and binding (strict), side by side
    ms = 1 if replay else (3 if quick else 4)
    by_cls = {}
    for (t, _, tr) in traces:
        by_cls.setdefault(tr[0]["cls"], []).append((t, tr))
    strict_jobs = []
    for cls, lst in by_cls.items():
        n = max(1, min(3 if not quick else 2, len(lst) // 250))
        for part in [lst[i::n] for i in range(n)]:
            if part:
                strict_jobs.append((cls, part))
    with ThreadPoolExecutor(max_workers=4) as ex:
        f_m = ex.submit(run_mon, obs, ms) if obs else None
        f_st = [ex.submit(run_strict, *j) for j in strict_jobs]
        fails, mres = f_m.result() if f_m else ([], [])
        st = [f.result() for f in f_st]
    for r in mres:
        v.add_tlc("TransportContractMon", r)
    lap("judge")
    if fut is not None:
        fut.result()
        lap("model_check_wait")
    bad = set()
    seen_once = set()
    nfail = {}
    for f in fails:
        tid, start, trows = vlib.trace_of_line(traces, f["line"])
        e = obs[f["line"] - 1]
        kind = trows[0]["kind"]
        h = by_id.get(tid, {})
        clause = f["monfail"]
        if (tid, clause) in seen_once:
            continue
        seen_once.add((tid, clause))
        desc_tr = " ".join(brief(r) for r in trows[1:f["line"] - start + 1])[-700:]
        if clause.startswith("Drift."):
            v.drift.append("%s in trace %s: %s" % (clause[6:], tid, desc_tr[-300:]))
            continue
        bad.add(tid)
        base, _, ep = clause.partition("@")
        if ep:
            cn = conn_name(kind, ep)
            if base.startswith("T2."):
                cn = cn.replace("/nosession", "")
            sig = "%s:%s" % (base, cn)
        else:
            sig = "%s:%s" % (base, kind)
        nfail[sig] = nfail.get(sig, 0) + 1
        v.violation(sig, "monitor %s failed at %s of trace %s (%s): %s" % (clause, e.get("name"), tid, kind, desc_tr),
                    {"scenario": {"kind": kind, "cls": trows[0]["cls"], "ops": h.get("ops", [])}, "repeat": 20,
                     "events": [brief(r) for r in trows[1:]], "seed": seed})
    v.cov["monitor_failures_by_signature"] = nfail
    explained = 0
    for okc, drifts, runs in st:
        explained += okc
        for res in runs:
            v.add_tlc("strict", res)
        for tid, msg in drifts:
            if tid not in bad:
                v.drift.append(msg)
    v.cov["traces_strictly_explained"] = explained
    v.cov["exhaustive"] = False
    return v.finish()
