"""X12 — extension check: the LIFECYCLE of the streamable-HTTP client transport (mcp/streamable.go:
StreamableClientTransport.Connect, streamableClientConn sessionUpdated / connectStandaloneSSE / Write / Read / fail / Close,
as driven by mcp.Client.Connect and a ClientSession through internal/jsonrpc2).

model     spec/StreamCliLife.tla (one action per request / response step; SDK-internal steps: ConnInit, ConnSA, Reader, ReaderFail,
          ReaderEOF, TClose, Done) with StreamCliLifeMC: exhaustive TLC on small constants (every interleaving: safety;
          liveness under fairness), the two deviations D5 / D6 as leads (must be found as implemented, must be absent with the
          Fix switch), reachability witnesses, -coverage 1 in the thorough tier
generate  transition covers (tools/graphwalk.py) of the seam-level ("settled") state graphs dumped by TLC for seven
          profiles + TLC -simulate behaviours of four larger profiles + corner histories (among them the scenarios of the two leads)
replay    harness/mcp/x12_streamclilife_test.go: a REAL mcp.Client + StreamableClientTransport against a scripted
          http.RoundTripper under testing/synctest, one snapshot after every action
judge     StreamCliLifeMon.tla (properties L1..L9 -> verdict), StreamCliLifeTrace.tla (strict: every step explained -> drift)
"""
import glob, json, os, random, re, shutil, tempfile, time
from concurrent.futures import ThreadPoolExecutor
import vlib, graphwalk

PID = "X12"
HARNESS = ["mcp/x12_streamclilife_test.go"]
ENV_ACTIONS = ["Connect", "CancelConnect", "Call", "Notify", "Close", "AnsPost", "Auth", "Ev", "AnsGet", "SaEv", "DelTimeout"]
SDK_ACTIONS = ["ConnInit", "ConnSA", "Reader", "ReaderFail", "ReaderEOF", "TClose", "Done"]
# names under which TLC reports them in the exhaustive specification (StreamCliLife!Next)
ACTIONS = ["DelTimeout"] + [a + "N" for a in ENV_ACTIONS if a != "DelTimeout"] + [a + "N" for a in SDK_ACTIONS]

WITNESSES = ["NeverGone", "NeverCloseWaits", "NeverImplicitDelete", "NeverRetiredWhileWriting", "NeverLateId", "NeverRetry",
             "NeverPingAnswered", "NeverConnectDelete", "NeverSecondClose", "NeverDeleteTimeout", "NeverCancelledWhileGet",
             "NeverMismatch"]
LEADS = [("StreamCliLife_lead_stream.cfg", "NothingLeft"), ("StreamCliLife_lead_cancel.cfg", "ConnectHonoursContext")]

_prof = re.compile(r'P = \[(.*?)\]\s*(?:\\n|\n|$)', re.S)


def cfg_of_state(text):
    """The configuration (standalone stream, OAuth handler, answer to the DELETE) of a behaviour, from the profile record P
    in the text of one of its states."""
    t = text.replace('\\"', '"').replace('\\n', '\n')
    sa = re.search(r"\bsa \|-> (TRUE|FALSE)", t)
    oa = re.search(r"\boauth \|-> (TRUE|FALSE)", t)
    de = re.search(r'\bdel \|-> "(\w+)"', t)
    nm = re.search(r'\bname \|-> "(\w+)"', t)
    if not (sa and oa and de and nm):
        raise vlib.MachineryError("cannot read the profile from a TLC state: %s" % text[:300])
    return nm.group(1), {"sa": sa.group(1) == "TRUE", "oauth": oa.group(1) == "TRUE", "del": de.group(1)}


def wdir():
    d = tempfile.mkdtemp(prefix="x12-")
    vlib._scratch.append(d)
    return d


def spec_text(name):
    return open(os.path.join(vlib.SPEC, name)).read()


# --------------------------------------------------------------------------
# model checking


def model_check(v, tier):
    quick = tier == "quick"
    jobs = [("StreamCliLife_mc_q.cfg", 3), ("StreamCliLife_live_q.cfg", 2), ("StreamCliLife_ideal.cfg", 1)]
    if not quick:
        jobs += [("StreamCliLife_mc_t.cfg", 4), ("StreamCliLife_live_t.cfg", 3)]

    def mc(job):
        cfg, workers = job
        cov = (not quick) and cfg in ("StreamCliLife_mc_q.cfg",)
        return job, vlib.run_tlc("StreamCliLifeMC", cfg, workdir=wdir(), workers=workers, timeout=1500,
                                 heap_gb=3 if quick else 8, coverage=cov)

    def lead(job):
        cfg, inv = job
        return job, vlib.run_tlc("StreamCliLifeMC", cfg, workdir=wdir(), workers=1, timeout=300, heap_gb=2)

    def wit(w):
        txt = spec_text("StreamCliLife_wit.cfg") + "INVARIANT %s\n" % w
        return w, vlib.run_tlc("StreamCliLifeMC", "wit.cfg", workdir=wdir(), extra_files={"wit.cfg": txt}, workers=1, timeout=600, heap_gb=2)

    with ThreadPoolExecutor(max_workers=3 if quick else 4) as ex:
        f_mc = [ex.submit(mc, j) for j in jobs]
        f_ld = [ex.submit(lead, j) for j in LEADS]
        f_wt = [ex.submit(wit, w) for w in ([] if quick else WITNESSES)]
        r_mc, r_ld, r_wt = [f.result() for f in f_mc], [f.result() for f in f_ld], [f.result() for f in f_wt]
    live = {}
    for (cfg, _), res in r_mc:
        vlib.tlc_must_pass(res, cfg)
        v.add_tlc(cfg, res)
        if not res.ok:
            raise vlib.MachineryError("model violates %s in %s: the specification no longer satisfies its own properties\n%s"
                                      % (res.violation, cfg, res.stdout[-3000:]))
        for act, (dist, tot) in res.coverage.items():
            if act in ACTIONS:
                live[act] = live.get(act, 0) + tot
    if not quick:
        dead = sorted(a for a in ACTIONS if live.get(a, 0) == 0)
        v.cov["dead_actions"] = dead
        v.cov["action_counts"] = live
        if dead:
            raise vlib.MachineryError("vacuity: actions never taken in any configuration: %s" % dead)
    for (cfg, inv), res in r_ld:
        v.add_tlc(cfg, res)
        if res.violation != inv:
            raise vlib.MachineryError("sensitivity: %s must violate %s (the deviation as implemented) but gave %s %s"
                                      % (cfg, inv, res.violation, res.error))
    for w, res in r_wt:
        if res.violation != w:
            raise vlib.MachineryError("vacuity: witness %s not reachable (%s)" % (w, res.error or res.violation))
    v.cov["witnesses_reached"] = len(r_wt)
    v.cov["leads_found_by_tlc"] = ["%s violates %s" % (c, i) for (c, i), _ in r_ld]


# --------------------------------------------------------------------------
# generation

_slabel = re.compile(r"^\\\* <(\w+(?:\(.*\))?) line \d+", re.M)             # simulation trace files


def project(path):
    """TLC action labels -> the operations of a history (SDK-internal steps dropped)."""
    ops = []
    for name, args in path:
        if name.endswith("S") and name[:-1] in ENV_ACTIONS:      # seam-level wrappers of StreamCliLifeMC
            name = name[:-1]
        if name == "AnsPost":
            ops.append(["Ans", args[0], args[1], args[2]])
        elif name == "AnsGet":
            ops.append(["Ans", "get", args[0], ""])
        elif name == "DelTimeout":
            ops.append(["Ans", "del", "timeout", ""])
        elif name in ("Auth", "Ev"):
            ops.append([name, args[0], args[1]])
        elif name == "SaEv":
            ops.append([name, args[0]])
        elif name == "Call":
            ops.append([name, args[0]])
        elif name in ("Connect", "CancelConnect", "Notify", "Close"):
            ops.append([name])
    return ops


def cover_histories(v, cfg, seed, max_paths=None):
    """One seam-level graph per profile (the profile is part of the state): a transition cover of each."""
    wd = wdir()
    dot = os.path.join(wd, "g.dot")
    res = vlib.run_tlc("StreamCliLifeMC", cfg, workdir=wd, timeout=900, heap_gb=3, workers=3, extra_args=["-dump", "dot,actionlabels", dot])
    vlib.tlc_must_pass(res, cfg)
    if not res.ok:
        raise vlib.MachineryError("cover model %s violates %s" % (cfg, res.violation))
    v.add_tlc(cfg, res)
    init, edges, states = graphwalk.parse_dot(dot, keep_state=True)
    os.remove(dot)
    rows = []
    for i0 in sorted(init, key=lambda n: cfg_of_state(states[n])[0]):
        name, c = cfg_of_state(states[i0])
        paths, total = graphwalk.cover([i0], edges, maxlen=48, seed=seed)
        npaths = len(paths)
        if max_paths and len(paths) > max_paths:
            rnd = random.Random(seed * 7919 + 13)
            paths = rnd.sample(paths, max_paths)
        v.cov.setdefault("graphs", []).append({"profile": name, "cfg": c, "edges": total, "cover_paths": npaths,
                                               "paths_replayed": len(paths)})
        rows += [{"id": "cov%s.%d" % (name, i), "cfg": c, "ops": project(p)} for i, p in enumerate(paths)]
    return rows


def sim_histories(v, cfg, num, depth, seed):
    wd = wdir()
    sim = os.path.join(wd, "sim")
    os.makedirs(sim)
    res = vlib.run_tlc("StreamCliLifeMC", cfg, workdir=wd, workers=1, timeout=600, heap_gb=3,
                       simulate="file=%s/b,num=%d" % (sim, num), depth=depth, seed=seed)
    if res.error or res.violation:
        raise vlib.MachineryError("%s simulation failed: %s %s\n%s" % (cfg, res.error, res.violation, res.stdout[-1500:]))
    m = re.search(r"The number of states generated: (\d+)", res.stdout)
    if m:
        res.generated = res.distinct = int(m.group(1))
    v.add_tlc("simulate:" + cfg, res)
    rows = []
    for i, f in enumerate(sorted(glob.glob(os.path.join(sim, "b_*")))):
        txt = open(f).read()
        labels = _slabel.findall(txt)
        ops = project([graphwalk.parse_label(x) for x in labels if not x.startswith("Init")])
        if ops:
            name, c = cfg_of_state(txt[:4000])
            rows.append({"id": "sim%s.%d" % (name, i), "cfg": c, "ops": ops})
    shutil.rmtree(sim, ignore_errors=True)
    return rows


def corner_histories():
    """Hand-written scenarios (ordinary histories, same operations) for the situations the task names."""
    def H(i, ops, sa=False, oauth=False, dele="ok"):
        return {"id": "corner.%s" % i, "cfg": {"sa": sa, "oauth": oauth, "del": dele}, "ops": ops}
    up = [["Connect"], ["Ans", "init", "json", "A"], ["Ans", "inited", "202", ""]]
    upsa = [["Connect"], ["Ans", "init", "json", "A"], ["Ans", "get", "sse", ""], ["Ans", "inited", "202", ""]]
    rows = [
        H("happy", upsa + [["Call", 1], ["Ans", "c1", "json", ""], ["Call", 2], ["Ans", "c2", "sse", ""], ["Ev", "c2", "resp"],
                           ["SaEv", "note"], ["SaEv", "ping"], ["Ans", "r1", "202", ""], ["Notify"], ["Ans", "n1", "202", ""],
                           ["Close"], ["Close"], ["Call", 3]], sa=True),
        H("sessionless", [["Connect"], ["Ans", "init", "json", ""], ["Ans", "get", "405", ""], ["Ans", "inited", "202", ""],
                          ["Call", 1], ["Ans", "c1", "json", ""], ["Close"], ["Call", 2]], sa=True),
        H("gone-with-three-pending", up + [["Call", 1], ["Call", 2], ["Call", 3], ["Ans", "c1", "sse", ""], ["Ans", "c2", "404", ""],
                                           ["Notify"], ["Ans", "c3", "json", ""], ["Close"]]),
        H("gone-while-closing", up + [["Call", 1], ["Close"], ["Ans", "c1", "404", ""], ["Call", 2]]),
        H("gone-on-initialized", upsa[:3] + [["Ans", "inited", "404", ""]], sa=True),
        H("rejections-leave-usable", up + [["Call", 1], ["Call", 2], ["Ans", "c1", "5xx", ""], ["Ans", "c2", "rpc404", ""], ["Call", 3],
                                           ["Ans", "c3", "neterr", ""], ["Notify"], ["Ans", "n1", "5xx", ""], ["Close"]]),
        H("terminal-with-pending", up + [["Call", 1], ["Call", 2], ["Ans", "c1", "http", ""], ["Call", 3], ["Ans", "c2", "json", ""]]),
        H("content-type-with-pending", up + [["Call", 1], ["Call", 2], ["Ans", "c1", "badct", ""], ["Call", 3], ["Ans", "c2", "json", ""]]),
        H("id-changes", up + [["Call", 1], ["Call", 2], ["Ans", "c1", "json", "B"], ["Call", 3], ["Ans", "c2", "sse", "A"], ["Ev", "c2", "resp"]]),
        H("id-late", [["Connect"], ["Ans", "init", "json", ""], ["Ans", "inited", "202", "B"], ["Call", 1], ["Ans", "c1", "json", "B"], ["Close"]]),
        H("id-on-202-to-initialize", [["Connect"], ["Ans", "init", "202", "A"]], sa=True),
        H("initialize-streamed", [["Connect"], ["Ans", "init", "sse", "A"], ["Ev", "init", "resp"], ["Ans", "get", "404", ""],
                                  ["Ans", "inited", "json", ""], ["Call", 1], ["Ans", "c1", "badjson", ""]], sa=True),
        H("initialize-stream-ends", [["Connect"], ["Ans", "init", "sse", "A"], ["Ev", "init", "eof"]], sa=True),
        H("close-waits-for-stream", up + [["Call", 1], ["Ans", "c1", "sse", ""], ["Close"], ["Call", 2], ["Ev", "c1", "eof"], ["Close"]]),
        H("delete-times-out", upsa + [["Call", 1], ["Ans", "c1", "json", ""], ["Close"], ["Ans", "del", "timeout", ""], ["Close"]],
          sa=True, dele="timeout"),
        H("delete-refused", up + [["Close"], ["Call", 1]], dele="405"),
        H("oauth", [["Connect"], ["Ans", "init", "401", ""], ["Auth", "init", "ok"], ["Ans", "init", "json", "A"], ["Ans", "inited", "202", ""],
                    ["Call", 1], ["Ans", "c1", "401", ""], ["Auth", "c1", "fail"], ["Call", 2], ["Ans", "c2", "401", ""], ["Auth", "c2", "ok"],
                    ["Ans", "c2", "401", ""]], oauth=True, dele="405"),
        H("oauth-retry-after-gone", up + [["Call", 1], ["Call", 2], ["Ans", "c1", "401", ""], ["Ans", "c2", "404", ""], ["Auth", "c1", "ok"],
                                          ["Ans", "c1", "json", ""]], oauth=True),
        H("cancel-during-get", [["Connect"], ["Ans", "init", "json", "A"], ["CancelConnect"], ["Ans", "get", "sse", ""]], sa=True),
        H("cancel-during-initialized", upsa[:3] + [["CancelConnect"]], sa=True, dele="neterr"),
        H("stream-left-after-gone", up + [["Call", 1], ["Ans", "c1", "sse", ""], ["Call", 2], ["Ans", "c2", "404", ""], ["Close"]]),
        H("stream-left-after-terminal", up + [["Call", 1], ["Ans", "c1", "sse", ""], ["Call", 2], ["Ans", "c2", "http", ""]]),
    ]
    for k in ("404", "4xx", "500", "200plain", "503sse", "neterr", "405"):
        rows.append(H("get-" + k, [["Connect"], ["Ans", "init", "json", "A"], ["Ans", "get", k, ""], ["Ans", "inited", "202", ""],
                                   ["Call", 1], ["Ans", "c1", "json", ""]], sa=True))
    for k in ("404", "http", "5xx", "neterr", "rpcerr", "badjson", "badct", "202"):
        rows.append(H("init-" + k, [["Connect"], ["Ans", "init", k, ""]], sa=True))
    return rows


# --------------------------------------------------------------------------
# judging


def brief(r):
    return {"n": r.get("n"), "op": [r.get("op"), r.get("a1"), r.get("a2"), r.get("a3")], "applied": r.get("applied"),
            "cfg": [r.get("sa"), r.get("oauth"), r.get("del")], "conn": [r.get("conn"), r.get("connres")], "sid": r.get("sid"),
            "reqs": ["%s%s[%s,%s,%s,%s%s:%s]" % (q["tag"], "'" if q["att"] > 1 else "", q["sid"], q["pv"], q["st"], q["cls"],
                                                 ("+" + q["h"]) if q["h"] else "", q["rbody"]) for q in r.get("reqs", [])],
            "calls": [[c["k"], c["st"], c["res"]] for c in r.get("calls", [])],
            "notifs": [[c["st"], c["res"]] for c in r.get("notifs", [])],
            "close": [r.get("closeiss"), r.get("closeret"), r.get("closeerr")], "wait": r.get("waitret"),
            "cancel": r.get("cancel"), "leak": r.get("leak"), "panic": r.get("panic"), "note": r.get("note")}


def sig_of(inv, e):
    """Signature = the clause + the abstract situation in which it fails."""
    reqs = e.get("reqs", [])
    if inv == "L9.ConnectHonoursContext":
        opn = sorted({q["tag"] for q in reqs if q["st"] == "open"})
        return "%s:connect-waiting-for=%s" % (inv, "+".join(opn) or "nothing")
    if inv == "L8.NothingLeft":
        # which bodies are still open, and how did the calls they belong to end?
        kinds = set()
        for q in reqs:
            if q["rbody"] == "open":
                if q["meth"] == "GET":
                    kinds.add("standalone-stream")
                    continue
                res = [c["res"] for c in e.get("calls", []) if "c%d" % c["k"] == q["tag"]]
                r = res[0] if res else ("connect" if q["tag"] == "init" else "?")
                kinds.add("response-stream-of-failed-call" if r in ("gone", "fatal", "rej", "closed") else "response-stream-of-call-ended-" + r)
        left = ",".join(sorted(set((e.get("leak") or "").split(","))))
        return "%s:%s:left=%s" % (inv, "+".join(sorted(kinds)) or "no-body", left or "nothing")
    op = e.get("op")
    arg = ""
    if op == "Ans":
        arg = "%s,%s%s" % (re.sub(r"\d", "", e.get("a1", "")), e.get("a2"), ("," + e.get("a3")) if e.get("a3") else "")
    elif op in ("Auth", "Ev"):
        arg = "%s,%s" % (re.sub(r"\d", "", e.get("a1", "")), e.get("a2"))
    elif op == "SaEv":
        arg = e.get("a1")
    return "%s:%s(%s)" % (inv, op, arg)


def run_mon(rows, nshard):
    traces = vlib.split_traces(rows)
    parts = [[t for j, t in enumerate(traces) if j % nshard == i] for i in range(nshard)]

    def one(part):
        prow = [r for (_, _, trows) in part for r in trows]
        if not prow:
            return [], None
        wd = wdir()
        pp = os.path.join(wd, "obs_in.ndjson")
        vlib.write_ndjson(pp, prow)
        res = vlib.run_tlc("StreamCliLifeMon", "StreamCliLifeMon.cfg", workdir=wd, extra_files={"obs.ndjson": pp}, workers=1,
                           timeout=1500, heap_gb=4)
        hwm = [p for p in res.printed if isinstance(p, dict) and "hwm" in p]
        if res.error or hwm or res.violation or not res.ok:
            raise vlib.MachineryError("monitor did not consume the log (%s %s %s)\n%s"
                                      % (res.error, hwm, res.violation, "\n".join(res.stdout.splitlines()[-30:])))
        lineno, n = {}, 0
        for (tid, start, trows) in part:
            for off in range(len(trows)):
                n += 1
                lineno[n] = start + off
        return [{"monfail": p["monfail"], "line": lineno[p["line"]]} for p in res.printed
                if isinstance(p, dict) and "monfail" in p], res
    with ThreadPoolExecutor(max_workers=nshard) as ex:
        out = list(ex.map(one, parts))
    fails = sorted([f for (fl, _) in out for f in fl], key=lambda f: f["line"])
    return fails, [r for (_, r) in out if r is not None]


def run_strict(traces):
    """Strict validation of a list of (tid, rows). Returns (explained, drifts, tlc results)."""
    cur, okc, drifts, runs = list(traces), 0, [], []
    for attempt in range(10):
        if not cur:
            break
        rows = [r for (_, tr) in cur for r in tr]
        sentinel = dict(rows[0])
        sentinel["ev"], sentinel["trace"] = "reset", "sentinel"
        wd = wdir()
        sp = os.path.join(wd, "obs_in.ndjson")
        vlib.write_ndjson(sp, rows + [sentinel])
        res = vlib.run_tlc("StreamCliLifeTrace", "StreamCliLifeTrace.cfg", workdir=wd, workers=1, timeout=1500, heap_gb=4,
                           extra_files={"obs.ndjson": sp})
        runs.append(res)
        hwm = [p for p in res.printed if isinstance(p, dict) and "hwm" in p]
        if res.ok and not hwm:
            okc += len(cur)
            break
        if not hwm:
            raise vlib.MachineryError("strict StreamCliLifeTrace failed to run: %s\n%s" % (res.error or res.violation, res.stdout[-2000:]))
        line = max(1, hwm[0]["hwm"] - 1)
        tr2 = vlib.split_traces(rows)
        tid, start, trows = vlib.trace_of_line(tr2, min(line, len(rows)))
        drifts.append((tid, "trace %s step %d not explained by StreamCliLife: %s"
                       % (tid, line - start, json.dumps(brief(rows[min(line, len(rows)) - 1]))[:600])))
        idx = [i for i, (t2, _) in enumerate(cur) if t2 == tid][0]
        okc += idx
        cur = cur[idx + 1:]
    return okc, drifts, runs


# --------------------------------------------------------------------------


def run(tier, seed, replay):
    v = vlib.Verdict(PID, tier, seed)
    quick = tier == "quick"
    v.assumptions = [
        "HTTP is a scripted http.RoundTripper (no sockets): a request whose context is already over is not sent (as net/http's "
        "Transport does), a parked request returns the context's error when its context ends, response bodies are in-memory pipes; "
        "net/http's own connection handling (redirects, connection reuse) is not part of what is checked",
        "testing/synctest: a step is over when every goroutine is durably blocked; one environment / application action per step "
        "(seam level); interleavings inside the SDK are explored by TLC on the model only",
        "the session-terminating DELETE is answered at once (class chosen per scenario), or never (closeDeleteTimeout passes): "
        "streamableClientConn.Close runs under the jsonrpc2 state lock, so a DELETE parked while another goroutine of the "
        "connection needs that lock cannot be waited out in a synctest bubble; 'never' is therefore only generated together with "
        "non-terminal answers",
        "legacy handshake only (ProtocolVersion 2025-11-25: initialize, notifications/initialized); MaxRetries < 0 (no reconnects: "
        "C09 covers them); strict mode off; calls are not cancelled by the application (C04), only Connect's context is",
        "TLC exhaustive results are for the stated small constants (1-3 calls, at most one notification, two standalone events, "
        "one server request, two authorizations, two Close calls; answer classes partitioned over the configurations)"]
    out = vlib.outdir(PID)
    phase, tmark = {}, [time.time()]

    def lap(name):
        phase[name] = round(time.time() - tmark[0], 1)
        tmark[0] = time.time()
    v.cov["phase_s"] = phase
    for stale in glob.glob(os.path.join(out, "violation-*.json")):
        if not (replay and os.path.abspath(stale) == os.path.abspath(replay)):
            os.remove(stale)
    if replay:
        rep = json.load(open(replay))["replay"]
        rows = [dict(rep["history"], id="replay")]
    else:
        with ThreadPoolExecutor(max_workers=1) as bg:
            fut = bg.submit(model_check, v, tier)
            nsim = 400 if quick else 5000
            gens = [lambda: cover_histories(v, "StreamCliLife_cover.cfg", seed, 160 if quick else None),
                    lambda: sim_histories(v, "StreamCliLife_sim.cfg", nsim, 36, seed)]
            with ThreadPoolExecutor(max_workers=2) as ex:
                rows = [r for part in ex.map(lambda g: g(), gens) for r in part]
            rows = corner_histories() + rows
            lap("generate")
            fut.result()
            lap("model_check_wait")
    seen, uniq = set(), []
    for r in rows:
        key = json.dumps([r["cfg"], r["ops"]], sort_keys=True)
        if key not in seen:
            seen.add(key)
            uniq.append(r)
    rows = uniq
    by_id = {r["id"]: r for r in rows}
    vlib.write_ndjson(os.path.join(out, "histories.ndjson"), rows)
    v.cov["histories"] = len(rows)

    # replay on the real code
    nshard = 1 if replay else (3 if quick else 4)
    shards = [rows[i::nshard] for i in range(nshard)]

    def replay_shard(i):
        hp, op = os.path.join(out, "histories.%d.ndjson" % i), os.path.join(out, "obs.%d.ndjson" % i)
        vlib.write_ndjson(hp, shards[i])
        if os.path.exists(op):
            os.remove(op)
        rc, gout, wall = vlib.go_test("mcp", "^TestVerif_X12$", HARNESS, env={"VERIF_IN": hp, "VERIF_OUT": op, "VERIF_SEED": seed + 1000 * i},
                                      timeout=240, race=(not quick and i == 0), extra_args=["-p", "4"])
        vlib.go_must_build(rc, gout, PID)
        got = vlib.read_ndjson(op) if os.path.exists(op) else []
        os.remove(hp)
        if os.path.exists(op):
            os.remove(op)
        return rc, gout, got
    with ThreadPoolExecutor(max_workers=nshard) as ex:
        results = list(ex.map(replay_shard, range(nshard)))
    lap("replay")
    obs_rows = []
    for i, (rc_go, gout, got) in enumerate(results):
        tr = vlib.split_traces(got)
        if "DATA RACE" in gout:
            m = re.search(r"WARNING: DATA RACE(?:.|\n)*?\n\s+(\S+)\(", gout)
            v.violation("NoRace:%s" % (m.group(1).split("/")[-1] if m else "?"),
                        "data race reported by the race detector while replaying histories", {"output": gout[-3000:]})
            rc_go = 0 if len(tr) == len(shards[i]) else rc_go
        if rc_go != 0:
            lines = [l for l in gout.splitlines() if l.startswith("panic:") or "fatal error" in l]
            if not lines:
                raise vlib.MachineryError("X12 harness failed:\n" + gout[-3000:])
            done_ids = [t[0] for t in tr]
            crashed = shards[i][len(done_ids)]["id"] if len(done_ids) < len(shards[i]) else "?"
            h = by_id.get(crashed, {})
            v.violation("NoPanic:%s" % re.sub(r"0x[0-9a-f]+|\d+", "N", lines[0])[:80],
                        "the harness process died while replaying history %s: %s" % (crashed, lines[0]),
                        {"history": h, "output": gout[-2500:]})
            v.cov["histories_not_replayed"] = v.cov.get("histories_not_replayed", 0) + len(shards[i]) - len(tr)
        obs_rows += [r for (_, _, trows) in tr for r in trows]
    vlib.write_ndjson(os.path.join(out, "obs.ndjson"), obs_rows)
    traces = vlib.split_traces(obs_rows)
    steps = [r for r in obs_rows if r.get("ev") == "step"]
    v.cov["traces_validated_against_impl"] = len(traces)
    v.cov["evaluations"] = len(steps)
    v.cov["steps_not_applicable"] = sum(1 for r in steps if not r.get("applied"))
    v.cov["requests_seen"] = sum(len(t[2][-1].get("reqs", [])) for t in traces)
    cls, nontrivial, results = set(), 0, set()
    for tid, start, trows in traces:
        last = trows[-1]
        for q in last.get("reqs", []):
            if q["cls"]:
                cls.add("%s %s/%s%s" % (q["meth"], re.sub(r"\d", "", q["tag"]), q["cls"], ("+" + q["h"]) if q["h"] else ""))
        for c in last.get("calls", []):
            results.add(c["res"])
        if any(c["res"] not in ("ok", "") for c in last.get("calls", [])) or last.get("conn") == "err":
            nontrivial += 1
    v.cov["distinct_nontrivial"] = nontrivial
    v.cov["answer_classes_seen"] = sorted(cls)
    v.cov["call_results_seen"] = sorted(results)
    v.cov["rule"] = ("histories = transition covers of the seam-level TLC state graphs of seven configurations (failures and response "
                     "streams; standalone stream; session ids; OAuth; cancelled Connect and failing DELETE; unanswered DELETE; remaining "
                     "answer classes) - quick: a seeded sample of the larger covers - + TLC-simulated behaviours of three larger "
                     "configurations + corner scenarios (among them those of the two deviations TLC finds as leads); distinct by configuration and "
                     "operation sequence; non-trivial = a call failed or Connect failed")
    for tid, start, trows in traces[:2]:
        v.sample({"trace": tid, "steps": [brief(r) for r in trows[1:7]]})

    # verdict (monitor) and binding (strict)
    ms = 1 if replay else (3 if quick else 4)
    tl = [(t, tr) for (t, _, tr) in traces]
    with ThreadPoolExecutor(max_workers=4) as ex:
        f_m = ex.submit(run_mon, obs_rows, ms) if obs_rows else None
        f_st = [ex.submit(run_strict, part) for part in [tl[i::ms] for i in range(ms)] if part]
        fails, mres = f_m.result() if f_m else ([], [])
        st = [f.result() for f in f_st]
    for r in mres:
        v.add_tlc("StreamCliLifeMon", r)
    lap("judge")
    bad, first_only = set(), set()
    for f in fails:
        tid, start, trows = vlib.trace_of_line(traces, f["line"])
        e = obs_rows[f["line"] - 1]
        upto = f["line"] - start
        h = by_id.get(tid, {})
        if (tid, f["monfail"]) in first_only:      # snapshots are cumulative: report where a clause first breaks
            continue
        first_only.add((tid, f["monfail"]))
        bad.add(tid)
        v.violation(sig_of(f["monfail"], e),
                    "monitor %s failed at step %d of trace %s: %s" % (f["monfail"], upto, tid, json.dumps(brief(e))[:700]),
                    {"history": {"cfg": h.get("cfg"), "ops": h.get("ops", [])[:upto]}, "failing_step": brief(e), "seed": seed})
    explained = 0
    for okc, drifts, runs in st:
        explained += okc
        for res in runs:
            v.add_tlc("strict", res)
        for tid, msg in drifts:
            v.drift.append(msg)
    v.cov["traces_strictly_explained"] = explained
    v.cov["exhaustive"] = False
    return v.finish()
