"""X02 — extension check: the legacy HTTP+SSE transport of MCP 2024-11-05 (mcp/sse.go, mcp/event.go).

model     SSELegacy.tla (server: SSEHandler table, SSEServerTransport queue / closed flag / hanging GET, one action per
          protocol step) and SSELegacyCli.tla (client: Connect, reader goroutine, Read / Write / Close) with
          SSELegacyMC / SSELegacyCliMC: exhaustive TLC on small constants (safety + liveness under fairness),
          sensitivity configurations for deviation D1 (must be found as implemented, must be absent as designed),
          reachability witnesses, -coverage 1 in the thorough tier
generate  transition covers (tools/graphwalk.py) of the seam-level ("settled") state graphs dumped by TLC + TLC -simulate
          behaviours of larger configurations + hand-written corner histories; projected on the environment actions
replay    harness/mcp/x02_sse_test.go: real SSEHandler + Server / bare SSEServerTransport served in process, real
          SSEClientTransport against a scripted RoundTripper; testing/synctest
judge     SSELegacyMon.tla / SSELegacyCliMon.tla (properties only -> verdict),
          SSELegacyTrace.tla / SSELegacyCliTrace.tla (strict: every step explained by the model -> drift)
"""
import glob, json, os, random, re, shutil, tempfile, time
from concurrent.futures import ThreadPoolExecutor
import vlib, graphwalk

PID = "X02"
HARNESS = ["mcp/x02_sse_test.go"]
INTERNAL = {"PostBody", "Deliver", "Respond", "ConnClose", "GetExit", "Scan"}
SRV_WITNESSES = ["NeverDraining", "NeverLatePush", "NeverParkedPost", "NeverCrossTalk"]
CLI_WITNESSES = ["NeverDropped", "NeverDecode"]


def wdir():
    d = tempfile.mkdtemp(prefix="x02-")
    vlib._scratch.append(d)
    return d


def spec_text(name):
    return open(os.path.join(vlib.SPEC, name)).read()


# --------------------------------------------------------------------------
# model checking


def model_check(v, tier):
    quick = tier == "quick"
    jobs = [("SSELegacyMC", "SSELegacy_mc_q1.cfg", 2), ("SSELegacyMC", "SSELegacy_mc_q2.cfg", 2),
            ("SSELegacyMC", "SSELegacy_mc_q3.cfg", 2), ("SSELegacyMC", "SSELegacy_live.cfg", 2),
            ("SSELegacyMC", "SSELegacy_ideal.cfg", 1), ("SSELegacyMC", "SSELegacy_ideal_direct.cfg", 1),
            ("SSELegacyCliMC", "SSELegacyCli_mc.cfg", 2)]
    if not quick:
        jobs += [("SSELegacyMC", "SSELegacy_mc_t1.cfg", 3), ("SSELegacyMC", "SSELegacy_mc_t2.cfg", 3),
                 ("SSELegacyMC", "SSELegacy_mc_t3.cfg", 3), ("SSELegacyMC", "SSELegacy_live2.cfg", 2),
                 ("SSELegacyCliMC", "SSELegacyCli_mc_t.cfg", 3)]
    leads = [("SSELegacy_lead.cfg", "ClosedRefuses"), ("SSELegacy_lead_push.cfg", "NoPushAfterClose"),
             ("SSELegacy_lead_direct.cfg", "ClosedRefuses")]

    def mc(job):
        mod, cfg, workers = job
        cov = (not quick) and cfg in ("SSELegacy_mc_q2.cfg", "SSELegacy_mc_q3.cfg", "SSELegacyCli_mc.cfg")
        return job, vlib.run_tlc(mod, cfg, workdir=wdir(), workers=workers, timeout=1200, heap_gb=3 if quick else 8, coverage=cov)

    def lead(job):
        cfg, inv = job
        return job, vlib.run_tlc("SSELegacyMC", cfg, workdir=wdir(), workers=1, timeout=300, heap_gb=2)

    def wit(job):
        mod, base, w = job
        txt = spec_text(base)
        txt = re.sub(r"(?m)^(INVARIANTS|PROPERTIES|VIEW).*\n", "", txt).replace("MCFairSpec", "MCSpec")
        txt += "INVARIANT %s\n" % w
        return w, vlib.run_tlc(mod, "wit.cfg", workdir=wdir(), extra_files={"wit.cfg": txt}, workers=1, timeout=300, heap_gb=2)

    wits = [("SSELegacyMC", "SSELegacy_mc_q2.cfg", "NeverDraining"), ("SSELegacyMC", "SSELegacy_mc_q2.cfg", "NeverLatePush"),
            ("SSELegacyMC", "SSELegacy_mc_q3.cfg", "NeverParkedPost"),
            ("SSELegacyMC", "SSELegacy_mc_q1.cfg", "NeverCrossTalk"), ("SSELegacyMC", "SSELegacy_mc_q3.cfg", "NeverEofWithQueue")] + \
           [("SSELegacyCliMC", "SSELegacyCli_mc.cfg", w) for w in CLI_WITNESSES]
    with ThreadPoolExecutor(max_workers=4 if quick else 5) as ex:
        f_mc = [ex.submit(mc, j) for j in jobs]
        f_ld = [ex.submit(lead, j) for j in leads]
        f_wt = [ex.submit(wit, j) for j in wits]
        r_mc, r_ld, r_wt = [f.result() for f in f_mc], [f.result() for f in f_ld], [f.result() for f in f_wt]
    dead = []
    for (mod, cfg, _), res in r_mc:
        vlib.tlc_must_pass(res, cfg)
        v.add_tlc(cfg, res)
        if not res.ok:
            raise vlib.MachineryError("model violates %s in %s: the specification no longer satisfies its own properties\n%s"
                                      % (res.violation, cfg, res.stdout[-3000:]))
        for act, (dist, tot) in res.coverage.items():
            if tot == 0 and re.match(r"^(Get|PostLookup|Release|PostBody|Deliver|Read|Respond|EndSlow|Send|Disconnect|Close|"
                                     r"ConnClose|GetExit|Connect|First|Abort|Ev|End|Scan|Write)$", act):
                dead.append((cfg, act))
    # an action may be dead in one configuration (Read in handler mode) but not in all of them
    if tier != "quick":
        seen_live = {}
        for (mod, cfg, _), res in r_mc:
            for act, (dist, tot) in res.coverage.items():
                seen_live[(mod, act)] = seen_live.get((mod, act), 0) + tot
        really_dead = sorted({a for (m, a), n in seen_live.items() if n == 0 and
                              re.match(r"^(Get|PostLookup|Release|PostBody|Deliver|Read|Respond|EndSlow|Send|Disconnect|Close|"
                                       r"ConnClose|GetExit|Connect|First|Abort|Ev|End|Scan|Write)$", a)})
        v.cov["dead_actions"] = really_dead
        if really_dead:
            raise vlib.MachineryError("vacuity: actions never taken in any configuration: %s" % really_dead)
    for (cfg, inv), res in r_ld:
        v.add_tlc(cfg, res)
        if res.violation != inv:
            raise vlib.MachineryError("sensitivity: %s must violate %s (deviation D1 as implemented) but gave %s %s"
                                      % (cfg, inv, res.violation, res.error))
    for w, res in r_wt:
        if res.violation != w:
            raise vlib.MachineryError("vacuity: witness %s not reachable (%s)" % (w, res.error or res.violation))
    v.cov["witnesses_reached"] = len(r_wt)
    # unbounded in the length of behaviours, and beyond the sizes TLC exhausts: Apalache discharges the inductive invariant
    # of the client-side model (SSELegacyCliInd.tla: K1-K6 + the reader's queue holds exactly the scanned, unread,
    # non-comment events in serial order) over the module's own Next for MaxEv/MaxRead/MaxWrite = 6/8/4 (the size TLC
    # only samples in SSELegacyCli_sim.cfg).  ~45 s: thorough tier only.
    if not quick:
        ra = vlib.run_apalache_inductive("SSELegacyCliInd", "CInit", "IndInit", "IndInv")
        v.cov.setdefault("apalache_inductive", []).append(ra)
        if ra["status"] == "refuted":
            raise vlib.MachineryError("SSELegacyCliInd: IndInv is not inductive (%s)" % ra.get("detail"))
    v.cov["leads_found_by_tlc"] = ["%s violates %s" % (c, i) for (c, i), _ in r_ld]


# --------------------------------------------------------------------------
# generation


def project(path):
    ops = []
    for name, args in path:
        if name in INTERNAL:
            continue
        if name.endswith("S"):      # seam-level wrappers of SSELegacyMC / SSELegacyCliMC: GetS, PostS(t,k,g), ...
            name = name[:-1]
        ops.append([name, list(args)])
    return ops


def cover_histories(v, mod, cfg, side, direct, seed, prefix, max_paths=None):
    wd = wdir()
    dot = os.path.join(wd, "g.dot")
    res = vlib.run_tlc(mod, cfg, workdir=wd, timeout=600, heap_gb=3, workers=2, extra_args=["-dump", "dot,actionlabels", dot])
    vlib.tlc_must_pass(res, cfg)
    if not res.ok:
        raise vlib.MachineryError("cover model %s violates %s" % (cfg, res.violation))
    v.add_tlc(cfg, res)
    init, edges = graphwalk.parse_dot(dot)
    os.remove(dot)
    total_edges = sum(len(x) for x in edges.values())
    paths, covered = graphwalk.cover(init, edges, maxlen=40, seed=seed)
    if max_paths and len(paths) > max_paths:
        rnd = random.Random(seed * 7919 + 13)
        paths = rnd.sample(paths, max_paths)
    v.cov.setdefault("graphs", []).append({"config": cfg, "nodes": len(edges), "edges": total_edges,
                                           "paths_replayed": len(paths), "sampled": bool(max_paths and covered and len(paths) == max_paths)})
    return [{"id": "%s%d" % (prefix, i), "side": side, "direct": direct, "ops": project(p)} for i, p in enumerate(paths)]


_label = re.compile(r"^\\\* <(\w+(?:\(.*\))?) line \d+", re.M)


def sim_histories(v, mod, cfg, side, direct, num, depth, seed, prefix):
    wd = wdir()
    sim = os.path.join(wd, "sim")
    os.makedirs(sim)
    res = vlib.run_tlc(mod, cfg, workdir=wd, workers=1, timeout=600, heap_gb=3,
                       simulate="file=%s/b,num=%d" % (sim, num), depth=depth, seed=seed)
    if res.error or res.violation:
        raise vlib.MachineryError("%s simulation failed: %s %s\n%s" % (cfg, res.error, res.violation, res.stdout[-1500:]))
    m = re.search(r"The number of states generated: (\d+)", res.stdout)
    if m:
        res.generated = res.distinct = int(m.group(1))
    v.add_tlc("simulate:" + cfg, res)
    rows = []
    for i, f in enumerate(sorted(glob.glob(os.path.join(sim, "b_*")))):
        labels = _label.findall(open(f).read())
        path = [graphwalk.parse_label(x) for x in labels if not x.startswith("Init")]
        ops = project(path)
        if ops:
            rows.append({"id": "%s%d" % (prefix, i), "side": side, "direct": direct, "ops": ops})
    shutil.rmtree(sim, ignore_errors=True)
    return rows


def corner_histories():
    """Hand-written scenarios for the fault actions the task names; they are ordinary histories (same ops)."""
    H = lambda i, d, ops: {"id": "corner.%s" % i, "side": "srv", "direct": d, "ops": ops}
    C = lambda i, ops: {"id": "corner.%s" % i, "side": "cli", "ops": ops}
    rows = [
        # POST arriving after close, bare transport (deviation D1): several tries, the select is random
        H("d-post-after-close", True, [["Get", []], ["Close", [1]]] + [["Post", [1, k, False]] for k in ("call", "notif") * 6] + [["Read", [1]]]),
        H("d-queued-then-close", True, [["Get", []], ["Post", [1, "call", False]], ["Post", [1, "notif", False]], ["Close", [1]],
                                        ["Read", [1]], ["Read", [1]], ["Read", [1]], ["Send", [1]]]),
        # POST racing with close: parked between lookup and push while the session goes away
        H("h-post-races-close", False, [["Get", []], ["Post", [1, "call", True]], ["Post", [1, "notif", True]], ["Close", [1]],
                                        ["Release", [1]], ["Release", [2]], ["Post", [1, "call", False]]]),
        H("h-post-races-disconnect", False, [["Get", []], ["Post", [1, "call", True]], ["Disconnect", [1]], ["Release", [1]],
                                             ["Post", [1, "call", False]], ["Send", [1]]]),
        # the client goes away / the server closes while a tool handler is still running (D2)
        H("h-disconnect-while-busy", False, [["Get", []], ["Post", [1, "slow", False]], ["Disconnect", [1]], ["Post", [1, "call", False]],
                                             ["Post", [1, "notif", False]], ["Send", [1]], ["EndSlow", [1]], ["Post", [1, "call", False]]]),
        H("h-close-while-busy", False, [["Get", []], ["Post", [1, "slow", False]], ["Close", [1]], ["Post", [1, "call", False]],
                                        ["Send", [1]], ["EndSlow", [1]], ["Post", [1, "call", False]], ["Send", [1]]]),
        # three sessions on one handler, interleaved traffic, one of them dies
        H("h-three-sessions", False, [["Get", []], ["Get", []], ["Get", []], ["Post", [1, "call", False]], ["Post", [2, "call", False]],
                                      ["Post", [3, "notif", False]], ["Send", [2]], ["Send", [1]], ["Disconnect", [2]],
                                      ["Post", [2, "call", False]], ["Post", [1, "notif", False]], ["Post", [3, "call", False]],
                                      ["Send", [3]], ["Close", [3]], ["Post", [3, "call", False]], ["GetRefused", []]]),
        H("h-refusals", False, [["Post", [-1, "call", False]], ["Post", [0, "call", False]], ["Get", []], ["Post", [1, "ctype", False]],
                                ["Post", [1, "badjson", False]], ["Post", [1, "badreq", False]], ["Post", [0, "badjson", False]],
                                ["Post", [-1, "ctype", False]], ["GetRefused", []], ["Post", [1, "call", False]]]),
        # client: endpoint on another origin; late first event; GET cut mid-event; named events
        C("c-other-origin", [["Connect", ["ok"]], ["First", ["endpoint", "absother"]], ["Write", ["202"]], ["Write", ["4xx"]], ["Close", []]]),
        C("c-late-endpoint", [["Connect", ["ok"]], ["Ev", ["msg"]], ["Write", ["202"]], ["First", ["endpoint", "query"]], ["Write", ["200"]]]),
        C("c-cut-mid-event", [["Connect", ["ok"]], ["First", ["endpoint", "rel"]], ["Ev", ["msg"]], ["Read", []], ["End", ["cutdata"]],
                              ["Read", []], ["Write", ["202"]], ["Read", []]]),
        C("c-err-mid-event", [["Connect", ["ok"]], ["First", ["endpoint", "abspath"]], ["Ev", ["msg"]], ["Ev", ["msg"]], ["End", ["err"]],
                              ["Read", []], ["Read", []], ["Close", []], ["Close", []]]),
        C("c-named-events", [["Connect", ["ok"]], ["First", ["endpoint", "rel"]], ["Ev", ["named"]], ["Ev", ["msg"]], ["Read", []], ["Read", []]]),
        C("c-abort", [["Connect", ["ok"]], ["Abort", []]]),
    ]
    for k in ("http3", "http4", "http5", "neterr"):
        rows.append(C("c-status-" + k, [["Connect", [k]]]))
    return rows


# --------------------------------------------------------------------------
# judging


def brief_srv(r):
    return {"n": r.get("n"), "op": [r.get("op"), r.get("a1"), r.get("a2"), r.get("a3")],
            "posts": [[p["p"], p["tgt"], p["kind"], p["ph"], p["status"], p["iss"], p["fin"]] for p in r.get("posts", [])],
            "sess": [{"s": x["s"], "got": x["got"], "out": [[o["name"][:3], o["cls"], o["x"]] for o in x["out"]], "sres": x["sres"],
                      "rds": x["rds"], "intab": x["intab"], "ended": x["ended"], "disc": x["disc"], "closeiss": x["closeiss"],
                      "closeret": x["closeret"], "busy": x["busy"]} for x in r.get("sess", [])], "note": r.get("note")}


def brief_cli(r):
    return {"n": r.get("n"), "op": [r.get("op"), r.get("a1"), r.get("a2")], "conn": r.get("conn"), "status": r.get("status"),
            "first": r.get("first"), "ep": r.get("ep"), "bodyclosed": r.get("bodyclosed"), "stream": r.get("stream"),
            "ended": r.get("ended"), "rds": [[x["r"], x["i"]] for x in r.get("rds", [])],
            "wrs": [[x["r"], x["posted"], x["cls"]] for x in r.get("wrs", [])],
            "posts": [[x["urlok"], x["origin"], x["url"]] for x in r.get("posts", [])], "note": r.get("note")}


def offender_kind(inv, e):
    """For clauses about a POST: the kind class of the (first) POST of the snapshot that breaks it."""
    sess = {x["s"]: x for x in e.get("sess", [])}
    good = lambda k: "msg" if k in ("call", "notif", "slow") else k
    for p in e.get("posts", []):
        x = sess.get(p["tgt"])
        if p["ph"] != "done":
            continue
        if inv == "S7.ClosedRefuses" and x and x["closeret"] and x["closeret"] < p["iss"] and p["status"] < 400:
            return good(p["kind"])
        if inv == "S5.GoneRefused" and x and x["endstep"] and x["endstep"] < p["iss"] and not (400 <= p["status"] <= 499):
            return good(p["kind"])
        if inv == "S5.Refusal" and (p["tgt"] in (0, -1) or not good(p["kind"]) == "msg") and not (400 <= p["status"] <= 499):
            return "%s,%s" % (good(p["kind"]), {0: "noid", -1: "unknown"}.get(p["tgt"], "id"))
    return None


def sig_of(inv, e):
    op = e.get("op")
    if e.get("side") != "cli":
        k = offender_kind(inv, e)
        if k:
            return "%s:%s:Post(%s)" % (inv, "direct" if e.get("direct") else "handler", k)
    if e.get("side") == "cli":
        arg = e.get("a1") if op in ("Connect", "First", "End", "Ev", "Write") else ""
        return "%s:cli:%s(%s)" % (inv, op, arg)
    mode = "direct" if e.get("direct") else "handler"
    if op == "Post":
        k = e.get("a2")
        return "%s:%s:Post(%s)" % (inv, mode, "msg" if k in ("call", "notif", "slow") else k)
    return "%s:%s:%s" % (inv, mode, op)


def run_mon(mod, cfg, rows, nshard):
    """Evaluate a monitor over rows (split at trace boundaries into nshard parts). Returns fails with global line numbers."""
    traces = vlib.split_traces(rows)
    parts = [[t for j, t in enumerate(traces) if j % nshard == i] for i in range(nshard)]

    def one(part):
        prow = [r for (_, _, trows) in part for r in trows]
        if not prow:
            return [], None
        wd = wdir()
        pp = os.path.join(wd, "obs_in.ndjson")
        vlib.write_ndjson(pp, prow)
        res = vlib.run_tlc(mod, cfg, workdir=wd, extra_files={"obs.ndjson": pp}, workers=1, timeout=1500, heap_gb=4)
        hwm = [p for p in res.printed if isinstance(p, dict) and "hwm" in p]
        if res.error or hwm or res.violation or not res.ok:
            raise vlib.MachineryError("monitor %s did not consume the log (%s %s %s)\n%s"
                                      % (mod, res.error, hwm, res.violation, "\n".join(res.stdout.splitlines()[-30:])))
        lineno, n = {}, 0
        for (tid, start, trows) in part:
            for off in range(len(trows)):
                n += 1
                lineno[n] = start + off
        return [{"monfail": p["monfail"], "line": lineno[p["line"]]} for p in res.printed
                if isinstance(p, dict) and "monfail" in p], res
    with ThreadPoolExecutor(max_workers=nshard) as ex:
        out = list(ex.map(one, parts))
    fails = sorted([f for (fl, _) in out for f in fl], key=lambda f: f["line"])
    return fails, [r for (_, r) in out if r is not None]


def run_strict(mod, cfg_txt, traces, brief):
    """Strict validation of a list of (tid, rows). Returns (explained, drifts, tlc results)."""
    cur, okc, drifts, runs = list(traces), 0, [], []
    for attempt in range(8):
        if not cur:
            break
        rows = [r for (_, tr) in cur for r in tr]
        sentinel = dict(rows[0])
        sentinel["ev"], sentinel["trace"] = "reset", "sentinel"
        wd = wdir()
        sp = os.path.join(wd, "obs_in.ndjson")
        vlib.write_ndjson(sp, rows + [sentinel])
        res = vlib.run_tlc(mod, "trace.cfg", workdir=wd, workers=1, timeout=1500, heap_gb=4,
                           extra_files={"obs.ndjson": sp, "trace.cfg": cfg_txt})
        runs.append(res)
        hwm = [p for p in res.printed if isinstance(p, dict) and "hwm" in p]
        if res.ok and not hwm:
            okc += len(cur)
            break
        if not hwm:
            raise vlib.MachineryError("strict %s failed to run: %s\n%s" % (mod, res.error or res.violation, res.stdout[-2000:]))
        # the snapshot of line hwm-1 could not be reached (the env step of that line, or the settling after it)
        line = max(1, hwm[0]["hwm"] - 1)
        tr2 = vlib.split_traces(rows)
        tid, start, trows = vlib.trace_of_line(tr2, min(line, len(rows)))
        drifts.append((tid, "trace %s step %d not explained by %s: %s"
                       % (tid, line - start, mod.replace("Trace", ""), json.dumps(brief(rows[min(line, len(rows)) - 1]))[:400])))
        idx = [i for i, (t2, _) in enumerate(cur) if t2 == tid][0]
        okc += idx
        cur = cur[idx + 1:]
    return okc, drifts, runs


# --------------------------------------------------------------------------


def run(tier, seed, replay):
    v = vlib.Verdict(PID, tier, seed)
    quick = tier == "quick"
    v.assumptions = [
        "HTTP is served in process (ServeHTTP with a recording ResponseWriter that implements Flusher and a cancellable request "
        "context; scripted RoundTripper on the client side): net/http's own connection handling is not part of what is checked",
        "testing/synctest: a step is over when every goroutine of the SDK is durably blocked; the harness issues one environment "
        "action per step (seam level); interleavings inside the SDK are explored by TLC on the model only, except where a gate "
        "(a request body that is not readable yet, a tool handler that does not return yet) pins them in the real code",
        "handler mode observes delivery through the server's tool / progress handlers and, for requests a closing connection "
        "refuses, through the error response on the stream; notifications dropped by a closing connection are not observable",
        "session ids are compared for freshness within one handler; unguessability (crypto/rand.Text) is not tested",
        "TLC exhaustive results are for the stated small constants (1-2 sessions, 2-3 POSTs, 0-1 server messages, queue capacity "
        "1-2 instead of 100; client: 3 events, 3-4 reads, 2 writes)"]
    out = vlib.outdir(PID)
    phase, tmark = {}, [time.time()]

    def lap(name):
        phase[name] = round(time.time() - tmark[0], 1)
        tmark[0] = time.time()
    v.cov["phase_s"] = phase
    for stale in glob.glob(os.path.join(out, "violation-*.json")):
        if not (replay and os.path.abspath(stale) == os.path.abspath(replay)):
            os.remove(stale)
    if replay:
        rep = json.load(open(replay))["replay"]
        rows = [dict(rep["history"], id="replay")]
    else:
        with ThreadPoolExecutor(max_workers=1) as bg:
            fut = bg.submit(model_check, v, tier)
            nsim = 250 if quick else 2500
            gens = [
                lambda: cover_histories(v, "SSELegacyMC", "SSELegacy_cover_h12.cfg", "srv", False, seed, "h12.", 450 if quick else None),
                lambda: cover_histories(v, "SSELegacyMC", "SSELegacy_cover_h21.cfg", "srv", False, seed, "h21.", 300 if quick else None),
                lambda: cover_histories(v, "SSELegacyMC", "SSELegacy_cover_d12.cfg", "srv", True, seed, "d12.", 450 if quick else None),
                lambda: sim_histories(v, "SSELegacyMC", "SSELegacy_sim_h.cfg", "srv", False, nsim, 30, seed, "simh."),
                lambda: sim_histories(v, "SSELegacyMC", "SSELegacy_sim_d.cfg", "srv", True, nsim, 30, seed + 1, "simd."),
                lambda: cover_histories(v, "SSELegacyCliMC", "SSELegacyCli_cover_q.cfg" if quick else "SSELegacyCli_cover.cfg",
                                        "cli", False, seed, "ccov."),
                lambda: sim_histories(v, "SSELegacyCliMC", "SSELegacyCli_sim.cfg", "cli", False, nsim, 24, seed + 2, "simc."),
            ]
            with ThreadPoolExecutor(max_workers=4) as ex:
                rows = [r for part in ex.map(lambda g: g(), gens) for r in part]
            rows = corner_histories() + rows
            lap("generate")
            fut.result()
            lap("model_check_wait")
    # distinct histories only
    seen, uniq = set(), []
    for r in rows:
        key = json.dumps([r["side"], r.get("direct", False), r["ops"]])
        if key not in seen:
            seen.add(key)
            uniq.append(r)
    rows = uniq
    by_id = {r["id"]: r for r in rows}
    vlib.write_ndjson(os.path.join(out, "histories.ndjson"), rows)
    v.cov["histories"] = {"server_handler": sum(1 for r in rows if r["side"] == "srv" and not r["direct"]),
                          "server_direct": sum(1 for r in rows if r["side"] == "srv" and r["direct"]),
                          "client": sum(1 for r in rows if r["side"] == "cli")}

    # replay on the real code
    nshard = 1 if replay else (3 if quick else 4)
    shards = [rows[i::nshard] for i in range(nshard)]

    def replay_shard(i):
        hp, op = os.path.join(out, "histories.%d.ndjson" % i), os.path.join(out, "obs.%d.ndjson" % i)
        vlib.write_ndjson(hp, shards[i])
        if os.path.exists(op):
            os.remove(op)
        rc, gout, wall = vlib.go_test("mcp", "^TestVerif_X02$", HARNESS, env={"VERIF_IN": hp, "VERIF_OUT": op, "VERIF_SEED": seed + 1000 * i},
                                      timeout=1200, race=(not quick and i == 0))
        vlib.go_must_build(rc, gout, PID)
        got = vlib.read_ndjson(op) if os.path.exists(op) else []
        os.remove(hp)
        if os.path.exists(op):
            os.remove(op)
        return rc, gout, got
    with ThreadPoolExecutor(max_workers=nshard) as ex:
        results = list(ex.map(replay_shard, range(nshard)))
    lap("replay")
    obs_rows = []
    for i, (rc_go, gout, got) in enumerate(results):
        tr = vlib.split_traces(got)
        if "DATA RACE" in gout:
            m = re.search(r"WARNING: DATA RACE(?:.|\n)*?\n\s+(\S+)\(", gout)
            v.violation("NoRace:%s" % (m.group(1).split("/")[-1] if m else "?"),
                        "data race reported by the race detector while replaying histories", {"output": gout[-3000:]})
            rc_go = 0 if len(tr) == len(shards[i]) else rc_go
        if rc_go != 0:
            lines = [l for l in gout.splitlines() if l.startswith("panic:") or "fatal error" in l]
            if not lines:
                raise vlib.MachineryError("X02 harness failed:\n" + gout[-3000:])
            done_ids = [t[0] for t in tr]
            crashed = shards[i][len(done_ids)]["id"] if len(done_ids) < len(shards[i]) else "?"
            h = by_id.get(crashed, {})
            v.violation("NoPanic:%s" % re.sub(r"0x[0-9a-f]+|\d+", "N", lines[0])[:80],
                        "the harness process died while replaying history %s: %s" % (crashed, lines[0]),
                        {"history": h, "output": gout[-2500:]})
            v.cov["histories_not_replayed"] = v.cov.get("histories_not_replayed", 0) + len(shards[i]) - len(tr)
        obs_rows += [r for (_, _, trows) in tr for r in trows]
    srv_rows = [r for r in obs_rows if r.get("side") == "srv"]
    cli_rows = [r for r in obs_rows if r.get("side") == "cli"]
    vlib.write_ndjson(os.path.join(out, "obs_srv.ndjson"), srv_rows)
    vlib.write_ndjson(os.path.join(out, "obs_cli.ndjson"), cli_rows)
    srv_traces, cli_traces = vlib.split_traces(srv_rows), vlib.split_traces(cli_rows)
    v.cov["traces_validated_against_impl"] = len(srv_traces) + len(cli_traces)
    v.cov["evaluations"] = sum(1 for r in obs_rows if r.get("ev") == "step")
    v.cov["steps_not_applicable"] = sum(1 for r in obs_rows if r.get("ev") == "step" and not r.get("applied"))
    v.cov["posts"] = sum(len(t[2][-1].get("posts", [])) for t in srv_traces) + sum(len(t[2][-1].get("posts", [])) for t in cli_traces)
    cls = set()
    nontrivial = 0
    for tid, start, trows in srv_traces:
        last = trows[-1]
        for p in last.get("posts", []):
            cls.add("%s/%s/%s/%d" % ("direct" if last["direct"] else "handler", p["kind"],
                                     {0: "noid", -1: "unknown"}.get(p["tgt"], "id"), p["status"]))
        if any(x["disc"] or x["closeiss"] for x in last.get("sess", [])) and any(p["status"] >= 400 for p in last.get("posts", [])):
            nontrivial += 1
    for tid, start, trows in cli_traces:
        last = trows[-1]
        if last.get("ended") or last.get("conn") == "failed" or any(w["r"] == "err" for w in last.get("wrs", [])):
            nontrivial += 1
    v.cov["distinct_nontrivial"] = nontrivial
    v.cov["post_classes_seen"] = sorted(cls)
    v.cov["late_accepts_seen"] = sum(1 for t in srv_traces for p in t[2][-1].get("posts", []) for x in t[2][-1]["sess"]
                                     if p["tgt"] == x["s"] and p["status"] == 202 and
                                     ((x["closeret"] and x["closeret"] < p["fin"]) or (x["endstep"] and x["endstep"] < p["fin"])))
    v.cov["cross_origin_posts_followed"] = sum(1 for t in cli_traces for p in t[2][-1].get("posts", []) if p["origin"] == "other")
    v.cov["named_events_surfaced"] = sum(1 for t in cli_traces if "named" in t[2][-1].get("stream", []) and
                                         any(x["r"] == "msg" for x in t[2][-1].get("rds", [])))
    v.cov["rule"] = ("histories = transition covers of the seam-level TLC state graphs (server: handler 1x2 and 2x2, bare transport; "
                     "client) - quick: a seeded sample of the cover paths of the server graphs - + TLC-simulated behaviours of larger "
                     "configurations + corner scenarios (POST after close, POST racing close / disconnect, close while a handler "
                     "runs, three sessions, refusals, cross-origin endpoint, late endpoint, stream cut mid-event); distinct by "
                     "operation sequence; non-trivial = a session was closed and a POST refused / a client connection failed, "
                     "ended or had a Write refused")
    for tid, start, trows in srv_traces[:1]:
        v.sample({"trace": tid, "steps": [brief_srv(r) for r in trows[1:6]]})
    for tid, start, trows in cli_traces[:1]:
        v.sample({"trace": tid, "steps": [brief_cli(r) for r in trows[1:6]]})

    # verdict (monitors) and binding (strict), side by side
    ms = 1 if replay else (2 if quick else 3)
    srv_groups = {False: [(t, tr) for (t, _, tr) in srv_traces if not tr[0]["direct"]],
                  True: [(t, tr) for (t, _, tr) in srv_traces if tr[0]["direct"]]}
    tcfg = spec_text("SSELegacyTrace.cfg")

    def split(lst, n):
        return [lst[i::n] for i in range(n)]
    strict_jobs = []
    for d, lst in srv_groups.items():
        for part in split(lst, ms):
            if part:
                strict_jobs.append(("SSELegacyTrace", tcfg.replace("Direct = FALSE", "Direct = %s" % ("TRUE" if d else "FALSE")), part, brief_srv))
    for part in split([(t, tr) for (t, _, tr) in cli_traces], ms):
        if part:
            strict_jobs.append(("SSELegacyCliTrace", spec_text("SSELegacyCliTrace.cfg"), part, brief_cli))
    with ThreadPoolExecutor(max_workers=4) as ex:
        f_ms = ex.submit(run_mon, "SSELegacyMon", "SSELegacyMon.cfg", srv_rows, ms) if srv_rows else None
        f_mc = ex.submit(run_mon, "SSELegacyCliMon", "SSELegacyCliMon.cfg", cli_rows, ms) if cli_rows else None
        f_st = [ex.submit(run_strict, *j) for j in strict_jobs]
        srv_fails, srv_res = f_ms.result() if f_ms else ([], [])
        cli_fails, cli_res = f_mc.result() if f_mc else ([], [])
        st = [f.result() for f in f_st]
    for r in srv_res:
        v.add_tlc("SSELegacyMon", r)
    for r in cli_res:
        v.add_tlc("SSELegacyCliMon", r)
    lap("judge")
    bad = set()
    first_only = set()      # snapshots are cumulative: a broken clause stays broken; report where it first shows
    for fails, rws, traces, brief in ((srv_fails, srv_rows, srv_traces, brief_srv), (cli_fails, cli_rows, cli_traces, brief_cli)):
        for f in fails:
            tid, start, trows = vlib.trace_of_line(traces, f["line"])
            e = rws[f["line"] - 1]
            upto = f["line"] - start
            h = by_id.get(tid, {})
            if (tid, f["monfail"]) in first_only:
                continue
            first_only.add((tid, f["monfail"]))
            if f["monfail"].startswith("Drift."):
                v.drift.append("%s in trace %s at step %d: %s" % (f["monfail"][6:], tid, upto, json.dumps(brief(e))[:300]))
                continue
            bad.add(tid)
            v.violation(sig_of(f["monfail"], e),
                        "monitor %s failed at step %d of trace %s: %s" % (f["monfail"], upto, tid, json.dumps(brief(e))[:500]),
                        {"history": {"side": h.get("side"), "direct": h.get("direct", False), "ops": h.get("ops", [])[:upto]},
                         "failing_step": brief(e), "seed": seed})
    explained = 0
    for okc, drifts, runs in st:
        explained += okc
        for res in runs:
            v.add_tlc("strict", res)
        for tid, msg in drifts:
            if tid not in bad:
                v.drift.append(msg)
    v.cov["traces_strictly_explained"] = explained
    v.cov["exhaustive"] = False
    return v.finish()
