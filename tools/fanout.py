"""Fan-out satellite of C03 (spec/Fanout.tla, spec/FanoutMon.tla, harness/mcp/c03_fanout_test.go).

The C03 check drives one session at a time; the SDK also has notifying methods that fan out over several sessions
(Client.AddRoots/RemoveRoots over the servers a Client is connected to, Server.ResourceUpdated over the subscribed
sessions - 2025-11-25 sessions and 2026-07-28 listen streams) and per-session ones (NotifyProgress, Log).  Here ONE
goroutine executes a program of such methods and of calls over 2-3 REAL sessions; TLC generates the programs together
with the environment's choices (which messages are slow to leave, which notification handlers are slow, the order in
which the gates are released); the TLA+ monitor judges, per session, that a message issued after a method had returned
is handled after that method's message (and after its handler finished, for a notification).

satellite(v, pid, tier, seed, replay_scn=None) mirrors c08.satellite: it reports the C03.Fanout* clauses into the
caller's verdict."""
import json, os, random
from concurrent.futures import ThreadPoolExecutor
import vlib

HARNESS = ["mcp/c03_fanout_test.go"]
DELAY_MS = 3000   # virtual time a gate stays closed once nothing else can move (3 gates at most: 9 s < the 10 s of notifySessions)
MODULE = "FanoutMC"
METHOD = {("c2s", "F"): "notifications/roots/list_changed", ("c2s", "N"): "notifications/progress", ("c2s", "C"): "tools/call",
          ("s2c", "F"): "notifications/resources/updated", ("s2c", "N"): "notifications/progress|message",
          ("s2c", "C"): "sampling/createMessage"}

# configurations of the real pair(s): direction, protocol version per session, which programs apply
#   c2s: ONE mcp.Client connected to NS mcp.Servers;  s2c: ONE mcp.Server with NS subscribed mcp.Clients
#   "mixed": session 1 speaks 2025-11-25, the others 2026-07-28
CONFIGS = [("c2s.modern", "c2s", "modern"), ("c2s.legacy", "c2s", "legacy"), ("s2c.legacy", "s2c", "legacy"),
           ("s2c.modern", "s2c", "modern"), ("s2c.mixed", "s2c", "mixed"), ("c2s.mixed", "c2s", "mixed")]


def vers_of(kind, ns):
    if kind == "mixed":
        return ["legacy"] + ["modern"] * (ns - 1)
    return [kind] * ns


def applicable(prog, ns):
    """The configurations a program can run in: a 2026-07-28 server session cannot make calls to its client."""
    out = []
    for name, d, kind in CONFIGS:
        vers = vers_of(kind, ns)
        if d == "s2c" and any(o[0] == "C" and vers[o[1] - 1] == "modern" for o in prog):
            continue
        if kind == "mixed" and ns < 2:
            continue
        out.append((name, d, vers))
    return out


NS_OF = {"gen_quick": 2, "gen_len4": 2, "gen_3s": 3, "sim_3s5": 3}   # NS of the configuration that generated the set


def shape(prog):
    """abstract program class: the kinds, with the sessions renamed in order of first use"""
    names, out = {}, []
    for k, s in prog:
        if k == "F":
            out.append("F")
        else:
            out.append("%s%d" % (k, names.setdefault(s, len(names) + 1)))
    return ",".join(out)


def tlc(cfg, *, workers=2, timeout=600, heap_gb=4, **kw):
    return vlib.run_tlc(MODULE, cfg, workers=workers, timeout=timeout, heap_gb=heap_gb, **kw)


def scenarios_of(res, cfg):
    vlib.tlc_must_pass(res, cfg)
    if not res.ok:
        raise vlib.MachineryError("Fanout %s: the model violates %s (a lead, not a verdict)" % (cfg, res.violation or res.error))
    seen, out = set(), []
    for p in res.printed:
        if isinstance(p, dict) and "prog" in p:
            key = json.dumps(p, sort_keys=True)
            if key not in seen:
                seen.add(key)
                out.append(p)
    if not out:
        raise vlib.MachineryError("Fanout %s produced no scenarios" % cfg)
    out.sort(key=lambda p: json.dumps(p, sort_keys=True))
    return out


class ModelPhase:
    """Design level + generation.  The TLC runs are independent and run side by side; the generation runs are awaited
    first (the harness needs them), the exhaustive checks, what-ifs and witnesses go on while the real code runs and are
    collected by finish()."""

    def __init__(self, v, tier, seed):
        self.v, self.tier = v, tier
        self.ex = ThreadPoolExecutor(max_workers=12)
        self.jobs = {}
        self.seed = seed
        go = self.go
        self.chain = None
        go("gen_quick", "Fanout_gen_quick.cfg", workers=4 if tier == "quick" else 2)
        if tier == "thorough":
            go("gen_len4", "Fanout_gen_len4.cfg", workers=3, heap_gb=6)
            go("gen_3s", "Fanout_gen_3s.cfg", workers=2)
            go("sim_3s5", "Fanout_sim_3s5.cfg", workers=2, simulate="num=400", depth=120, seed=seed)

    def background(self):
        """The runs the harness does not wait for: started once the scenarios are there.  The exhaustive checks run side
        by side with the real code; the small runs (what-ifs, witnesses) one after the other."""
        if self.tier == "quick":
            self.go("mc", "Fanout_mc_quick.cfg", workers=3)
            self.go("whatif_multi", "Fanout_whatif_multi.cfg", workers=1)
            return
        self.go("mc", "Fanout_mc_thorough.cfg", workers=4, heap_gb=6)
        self.go("mc3", "Fanout_mc_thorough3.cfg", workers=4, heap_gb=6)
        base = open(os.path.join(vlib.SPEC, "Fanout_wit.cfg")).read()
        # the canonical order of the SDK's internal steps loses no scenario: the same set without it
        gq = open(os.path.join(vlib.SPEC, "Fanout_gen_quick.cfg")).read().replace("Canon = TRUE", "Canon = FALSE")
        small = [("whatif_multi", "Fanout_whatif_multi.cfg", {}), ("whatif_butlast", "Fanout_whatif_butlast.cfg", {})]
        for w in ("WitNeverQueuedBehind", "WitNeverSenderHeld"):
            small.append(("wit:" + w, "wit_%s.cfg" % w, {"extra_files": {"wit_%s.cfg" % w: base + "INVARIANT %s\n" % w}}))
        small.append(("gen_quick_nocanon", "gen_quick_nocanon.cfg", {"extra_files": {"gen_quick_nocanon.cfg": gq}, "workers": 2}))

        def chain():
            return [(name, cfg, tlc(cfg, **dict({"workers": 1}, **kw))) for name, cfg, kw in small]
        self.chain = self.ex.submit(chain)

    def go(self, name, cfg, **kw):
        self.jobs[name] = (cfg, self.ex.submit(tlc, cfg, **kw))

    def scenario_sets(self):
        sets = {}
        for name in sorted(self.jobs):
            if name.startswith(("gen_", "sim_")) and name != "gen_quick_nocanon":
                cfg, f = self.jobs[name]
                r = f.result()
                sets[name] = scenarios_of(r, cfg)
                self.v.add_tlc(cfg + (" (simulate)" if name.startswith("sim") else " (generate scenarios)"), r)
        self.sets = sets
        self.background()
        return sets

    def finish(self):
        v = self.v
        done = [(name, cfg, f.result()) for name, (cfg, f) in sorted(self.jobs.items())]
        if self.chain is not None:
            done += self.chain.result()
        for name, cfg, r in done:
            if name.startswith("whatif"):
                if r.violation != "ObservedInOrder":
                    raise vlib.MachineryError("sensitivity: with an asynchronous fan-out (%s) the model no longer violates "
                                              "ObservedInOrder (%s)" % (cfg, r.violation or r.error or "no error"))
                v.add_tlc(cfg + " (what-if, must violate ObservedInOrder)", r)
            elif name.startswith("wit:"):
                if r.violation != name[4:]:
                    raise vlib.MachineryError("vacuity: witness %s not reachable (%s)" % (name[4:], r.violation or r.error))
                v.add_tlc("Fanout_wit.cfg + %s (witness, must be violated)" % name[4:], r)
            elif name.startswith("mc"):
                vlib.tlc_must_pass(r, cfg)
                v.add_tlc(cfg + " (ObservedInOrder, NotificationCompletesFirst, NoStuck)", r)
                if not r.ok:
                    raise vlib.MachineryError("Fanout model violates %s on %s (a lead, not a verdict)" % (r.violation, cfg))
            elif name == "gen_quick_nocanon":
                if scenarios_of(r, cfg) != self.sets["gen_quick"]:  # noqa
                    raise vlib.MachineryError("Fanout: the canonical generation differs from the unrestricted one")
                v.add_tlc(cfg + " (generation without the canonical order: same set)", r)
                v.cov["fanout_canonical_generation_checked"] = True
        self.ex.shutdown()


def pick_rows(sets, tier, seed):
    rnd = random.Random(seed * 7919 + 3)
    rows = []

    def add(prefix, j, sc, cfgs):
        for name, d, vers in cfgs:
            rows.append({"id": "%s%d.%s" % (prefix, j, name), "dir": d, "vers": vers, "prog": sc["prog"], "armS": sc["armS"],
                         "armH": sc["armH"], "rel": sc["rel"], "nmeth": rnd.choice(["progress", "log"]),
                         "fmeth": rnd.choice(["add", "remove", "alt"]), "delay_ms": DELAY_MS})

    def one(sc, j, ns):
        ap = applicable(sc["prog"], ns)
        return [ap[(j + seed) % len(ap)]]

    q = sets["gen_quick"]
    if tier == "quick":
        # the complete set (2 sessions, programs of 2-3 ops, up to 2 gates), every scenario in ONE configuration
        # (rotating with the seed); the thorough tier runs every scenario in EVERY configuration
        for j, sc in enumerate(q):
            add("q", j, sc, one(sc, j, 2))
    else:
        for j, sc in enumerate(q):
            add("q", j, sc, applicable(sc["prog"], 2))
        for name, prefix, limit in (("gen_len4", "l", 4000), ("gen_3s", "t", 1500), ("sim_3s5", "s", 800)):
            s = sets[name]
            idx = sorted(rnd.sample(range(len(s)), min(limit, len(s))))
            for j in idx:
                add(prefix, j, s[j], one(s[j], j, NS_OF[name]))
    return rows


def culprit(trows, upto, clause):
    """For the signature only: re-derive which earlier message the failing h.start overtook."""
    kind, targets, ret_before, retd, failed, started, ended = {}, {}, {}, set(), set(), set(), set()
    e = trows[upto]
    for r in trows[:upto]:
        ev = r.get("ev")
        if ev == "issue":
            kind[r["op"]], targets[r["op"]], ret_before[r["op"]] = r["kind"], set(r["targets"]), set(retd)
        elif ev == "ret":
            retd.add(r["op"])
            if r.get("err"):
                failed.add(r["op"])
        elif ev == "h.start":
            started.add((r["op"], r["s"]))
        elif ev == "h.end":
            ended.add((r["op"], r["s"]))
    for k in sorted(ret_before.get(e["op"], ())):
        if e["s"] in targets.get(k, ()) and k not in failed:
            if (k, e["s"]) not in started:
                if clause.endswith("ObservedInOrder"):
                    return k, kind[k], kind.get(e["op"], "?"), "unstarted"
            elif kind[k] != "C" and (k, e["s"]) not in ended and clause.endswith("CompletesFirst"):
                return k, kind[k], kind.get(e["op"], "?"), "unfinished"
    return 0, "?", kind.get(e["op"], "?"), "?"


def run_harness(pid, rows, seed, timeout):
    out = vlib.outdir(pid)
    scen, obs = os.path.join(out, "fanout_scenarios.ndjson"), os.path.join(out, "fanout_obs.ndjson")
    vlib.write_ndjson(scen, rows)
    if os.path.exists(obs):
        os.remove(obs)
    rc, gout, wall = vlib.go_test("mcp", "^TestVerif_C03Fanout$", HARNESS, timeout=timeout, extra_args=["-p", "4"],
                                  env={"VERIF_IN": scen, "VERIF_OUT": obs, "VERIF_SEED": seed, "VERIF_PAR": 4})
    vlib.go_must_build(rc, gout, pid + " fanout")
    orows = []
    if os.path.exists(obs):
        for line in open(obs):
            try:
                orows.append(json.loads(line))
            except ValueError:
                break
    if rc != 0 and not any(r.get("ev") == "panic" for r in orows):
        raise vlib.MachineryError("fanout harness failed:\n" + gout[-3000:])
    if not orows:
        raise vlib.MachineryError("fanout harness produced no observations:\n" + gout[-2000:])
    vlib.write_ndjson(obs, orows)
    return obs, orows, wall


def satellite(v, pid, tier, seed, replay_scn=None):
    mp = None
    if replay_scn is not None:
        rows = [replay_scn]
    else:
        mp = ModelPhase(v, tier, seed)
        sets = mp.scenario_sets()
        v.cov["fanout_tlc_scenarios"] = {k: len(s) for k, s in sets.items()}
        rows = pick_rows(sets, tier, seed)
    obs, orows, wall = run_harness(pid, rows, seed, timeout=900)
    v.cov["fanout_go_test_wall_s"] = round(wall, 1)
    # the monitor reads the events the property speaks about (the gate bookkeeping is for the binding report below)
    judged = ("reset", "issue", "ret", "h.start", "h.end", "panic", "setup.error")
    keep = [i for i, r in enumerate(orows) if r.get("ev") in judged]
    mobs = os.path.join(vlib.outdir(pid), "fanout_obs_mon.ndjson")
    vlib.write_ndjson(mobs, [orows[i] for i in keep])
    fails, mres = vlib.run_monitor("FanoutMon", "FanoutMon.cfg", mobs, timeout=900, heap_gb=6)
    for f in fails:
        f["line"] = keep[f["line"] - 1] + 1
    v.add_tlc("FanoutMon", mres)
    traces = vlib.split_traces(orows)
    by_id = {r["id"]: r for r in rows}
    for f in fails:
        clause = f["monfail"]
        tid, start, trows = vlib.trace_of_line(traces, f["line"])
        e = orows[f["line"] - 1]
        if clause.startswith("X."):
            raise vlib.MachineryError("fanout harness sanity clause %s failed in trace %s: %s" % (clause, tid, json.dumps(e)[:300]))
        sc = by_id.get(tid, {})
        d = sc.get("dir", "?")
        vers = sc.get("vers", [])
        if clause == "C03.FanoutNoPanic":
            sig = "%s:%s/%d/%s" % (clause, d, len(vers), shape(sc.get("prog", [])))
            v.violation(sig, "the SDK panicked in trace %s: %s" % (tid, str(e.get("msg"))[:200]), {"fanout_scenario": sc, "event": e})
            continue
        k1, kind1, kind2, how = culprit(trows, f["line"] - start, clause)
        # the environment's choice that matters for this failure: an unstarted m1 was slow to leave, an unfinished one slow to handle
        flags = "+slowsend" if how == "unstarted" and [k1, e.get("s")] in sc.get("armS", []) else \
                "+slowhandler" if how == "unfinished" and [k1, e.get("s")] in sc.get("armH", []) else ""
        dirv = d + ("" if d == "c2s" else "-" + (vers[e.get("s", 1) - 1] if 0 < e.get("s", 0) <= len(vers) else "?"))
        meth = METHOD.get((d, kind1), "?")
        if (d, kind1) == ("s2c", "N"):
            meth = "notifications/message" if sc.get("nmeth") == "log" and dirv.endswith("legacy") else "notifications/progress"
        sig = "%s:%s/%s/%d/%s%s<%s" % (clause, meth, dirv, len(vers), kind1, flags, kind2)
        v.violation(sig, "%s failed at line %d of trace %s: the peer of session %s started handling the message of op %s (%s) "
                         "before that of op %s (%s), whose method had returned before op %s was issued"
                    % (clause, f["line"] - start + 1, tid, e.get("s"), e.get("op"), kind2, k1, kind1, e.get("op")),
                    {"fanout_scenario": sc, "event": e})
    if mp is not None:
        mp.finish()
    # binding: what the model promised about the run itself (reported as drift, never as a violation)
    ran = stuck = unscripted = leak = 0
    armed = reached = 0
    for tid, start, trows in traces:
        fin = [r for r in trows if r.get("ev") == "final"]
        if fin:
            ran += 1
            if fin[0].get("stuck") or not fin[0].get("senderDone"):
                stuck += 1
                if stuck <= 3:
                    v.drift.append("fanout trace %s: the program did not run to its end although every gate was released (Fanout.tla: NoStuck)" % tid)
        unscripted += sum(1 for r in trows if r.get("ev") == "rel" and not r.get("scripted"))
        leak += sum(1 for r in trows if r.get("ev") == "bubble.leak")
        sc = by_id.get(tid, {})
        armed += len(sc.get("armS", [])) + len(sc.get("armH", []))
        reached += sum(1 for r in trows if r.get("ev") in ("s.held", "h.held"))
    if unscripted:
        v.drift.append("fanout: %d gate(s) were reached at a moment at which Fanout.tla has none to release" % unscripted)
    if armed != reached and not unscripted and not stuck:
        v.drift.append("fanout: %d gates armed by the scenarios, %d reached on the real code" % (armed, reached))
    if ran < len(rows) and not any(r.get("ev") == "panic" for r in orows):
        raise vlib.MachineryError("fanout: only %d of %d scenarios ran to the end" % (ran, len(rows)))
    v.cov["fanout_scenarios_run"] = len(traces)
    v.cov["fanout_ops_executed"] = sum(1 for r in orows if r.get("ev") == "issue")
    v.cov["fanout_messages_handled"] = sum(1 for r in orows if r.get("ev") == "h.start")
    v.cov["fanout_gates_armed"], v.cov["fanout_gates_reached"] = armed, reached
    v.cov["fanout_goroutines_left_behind"] = leak
    v.cov["fanout_by_configuration"] = {}
    for r in rows:
        c = r["id"].split(".", 1)[1] if "." in r["id"] else "?"
        v.cov["fanout_by_configuration"][c] = v.cov["fanout_by_configuration"].get(c, 0) + 1
    v.cov["fanout_program_classes"] = len({shape(r["prog"]) for r in rows})
    v.cov["traces_validated_against_impl"] = v.cov.get("traces_validated_against_impl", 0) + len(traces)
    return traces, rows
