"""Streamable-HTTP shutdown satellite of property C05 (DESIGN.md 13.1: a property's own check covers every transport
the property names).

  spec/HttpClose.tla      the model: a real client session and a real server session over streamable HTTP as one state
                          machine (session table entry, per-request exchanges with handler state, standalone GET, nested
                          server->client call, client calls, standalone-SSE goroutine, DELETE of Close, idle timer, both
                          close sequences; stateless mode), the C05 clauses as invariants / liveness properties
  spec/HttpCloseMC.tla    bounded configurations, the seam-level graph (environment steps when the SDK is quiescent),
                          simulation with a history variable, witnesses, the lead StuckNested, two design switches
  spec/HttpCloseMon.tla   the monitor (the verdict): C05.HttpCloseReturns, HttpWaitReturns, HttpNoDispatchAfterClose,
                          HttpHandlersFinishFirst, HttpSessionRemoved, HttpNoLeak, HttpNoPanic
  harness/mcp/c05_httpclose_test.go   real mcp.Client + StreamableClientTransport against real Server + StreamableHTTPHandler
                          through a scripted in-process RoundTripper under testing/synctest

satellite(v, pid, tier, seed, replay_scn=None) mirrors c08.satellite: model check, generation (graphwalk transition cover of
the seam graph + -simulate histories + hand-written corner scripts + seeded random scripts), harness, monitor, violations
into the caller's verdict with replay objects {"httpclose_scenario": <scenario>}."""
import json, os, random, re, threading, time
import vlib, graphwalk

HARNESS = ["mcp/c05_httpclose_test.go"]
MODULE = "HttpCloseMC"

MC = {"quick": ["HttpClose_mc_q1.cfg", "HttpClose_mc_q2.cfg", "HttpClose_mc_q3.cfg", "HttpClose_mc_q4.cfg"],
      "thorough": ["HttpClose_mc_t1.cfg", "HttpClose_mc_t2.cfg", "HttpClose_mc_t3.cfg", "HttpClose_mc_t4.cfg", "HttpClose_mc_t5.cfg",
                   "HttpClose_mc_t6.cfg", "HttpClose_mc_t7.cfg"]}
LIVE = {"quick": ["HttpClose_live_q.cfg"],
        "thorough": ["HttpClose_live_t1.cfg", "HttpClose_live_t2.cfg", "HttpClose_live_t3.cfg", "HttpClose_live_t4.cfg"]}
COVER = {"quick": ["HttpClose_cover_qa.cfg", "HttpClose_cover_qb.cfg", "HttpClose_cover_qc.cfg"],
         "thorough": ["HttpClose_cover_ta.cfg", "HttpClose_cover_tb.cfg", "HttpClose_cover_tc.cfg", "HttpClose_cover_td.cfg",
                      "HttpClose_cover_qb.cfg", "HttpClose_cover_qc.cfg"]}
GEN = {"quick": ["HttpClose_gen.cfg", "HttpClose_gen_sl.cfg"], "thorough": ["HttpClose_gen.cfg", "HttpClose_gen_nt.cfg", "HttpClose_gen_sl.cfg"]}
# -coverage 1 once (thorough): these configurations together must leave no action of HttpClose.tla dead
COVERAGE_CFGS = ["HttpClose_mc_t2.cfg", "HttpClose_mc_t3.cfg", "HttpClose_mc_t5.cfg", "HttpClose_mc_t6.cfg"]
ACTIONS = ["Call", "Release", "Ret", "Sreq", "Ans", "CCancel", "CClose", "SClose", "DelMode", "ReleaseDel", "CutPost", "CutGet", "NetDown",
           "Tick", "Idle", "CNotif", "SNotif", "PostArrive", "SrvAccept", "HandlerCtxReturn", "SrvRespond", "PostEnd", "SrvSetClosing",
           "SrvTransportClose", "SrvDone", "SrvCloseWoken", "SrvOnClose", "GetEnd", "GetArrive", "DelArrive", "CliStreamEnd", "CliAccept",
           "CliAnswerPost", "CliVanished", "SlServeReturn", "CliSetClosing", "CliFailNotice", "CliTransportClose", "CliFinish", "SseExit", "SseBodyEnd",
           "CliDone", "CliCloseReturn"]
WITNESSES = ["W_NoLate", "W_NoLateRefused", "W_NoLost", "W_NoCloseWhileRunning", "W_NoTwoClosers", "W_NoDelTimeout", "W_NoBackoffClose",
             "W_NoStuck", "W_NoTimerClose", "W_NoMissing", "W_NoCtxCancel", "W_NoLateN"]
VERSIONS = ["2025-11-25", "2025-06-18", "2025-03-26"]

# ---------------------------------------------------------------------------------------------------------------------
# hand-written corner scripts: each race named in the task, pinned with the network holds and the handler gates.
# (name, cfg, steps)  cfg keys: stateless, timeout, nosse, store
ST, TO = {}, {"timeout": True}
CORNERS = [
    # session termination by client DELETE, handler still running when its session is terminated
    ("delete-while-handler-runs", TO, "call|k1 cclose|c1 tick ret|k1"),
    ("delete-after-call-abandoned", ST, "call|k1 emit|k1 ccancel|k1 cclose|c1 tick ret|k1"),
    ("delete-held-then-server-close", TO, "call|k1 delmode|hold ret|k1 cclose|c1 sclose|s1 reldel"),
    ("delete-hangs-until-timeout", ST, "delmode|hang call|k1 ret|k1 cclose|c1 tick"),
    ("delete-fails", TO, "delmode|fail call|k1 ret|k1 cclose|c1 sclose|s1"),
    ("delete-fails-then-idle-timeout", TO, "delmode|fail cclose|c1 idle"),
    ("delete-times-out-handler-running", TO, "call|k1 emit|k1 cutpost|k1 cclose|c1 tick ret|k1"),
    # by ServerSession.Close()
    ("server-close-while-handler-runs", TO, "call|k1 call|k2 sclose|s1 ret|k1 ret|k2 tick"),
    ("server-close-during-nested-call", TO, "call|k1 sreq|k1 sclose|s1 ans|k1 ret|k1 tick"),
    ("server-close-then-nested-call", TO, "call|k1 sclose|s1 sreq|k1 ret|k1 tick"),
    ("server-close-idle-client-learns", ST, "sclose|s1 tick"),
    ("server-close-no-standalone-stream", {"nosse": True}, "call|k1 sclose|s1 ret|k1 call|k2 cclose|c1"),
    # by idle timeout
    ("idle-timeout-idle-session", TO, "call|k1 ret|k1 idle tick"),
    ("idle-timeout-handler-still-running", TO, "call|k1 emit|k1 cutpost|k1 idle ret|k1 tick"),
    ("idle-timeout-not-while-post-open", TO, "call|k1 idle ret|k1 idle"),
    ("idle-timeout-then-client-close", TO, "idle cclose|c1"),
    # the HTTP server going away: every exchange cancelled
    ("netdown-with-calls-then-closes", TO, "call|k1 call|k2 netdown ret|k1 cclose|c1 sclose|s1 ret|k2"),
    ("netdown-then-client-fails-by-itself", ST, "call|k1 netdown tick ret|k1"),
    ("netdown-during-delete", TO, "call|k1 delmode|hold ret|k1 cclose|c1 netdown"),
    # client Close while POSTs / the standalone GET / a reconnect back-off timer are in flight
    ("client-close-while-post-in-flight", TO, "callh|k1 cclose|c1 rel|k1 ret|k1"),
    ("client-close-with-two-calls", ST, "call|k1 call|k2 cclose|c1 ret|k2 ret|k1"),
    ("client-close-during-backoff", ST, "cutget cclose|c1"),
    ("client-close-during-backoff-net-down", ST, "netdown cclose|c1 tick"),
    ("client-close-after-reconnect", TO, "cutget tick cclose|c1"),
    ("client-close-while-its-handler-runs", ST, "call|k1 sreq|k1 cclose|c1 ans|k1 ret|k1"),
    ("client-close-then-nested-call-arrives", ST, "call|k1 call|k2 cclose|c1 sreq|k1 ret|k1 ret|k2"),
    # two Closes racing
    ("two-client-closes", TO, "call|k1 cclose|c1 cclose|c2 ret|k1"),
    ("two-server-closes", TO, "call|k1 sclose|s1 sclose|s2 ret|k1 tick"),
    ("client-and-server-close", TO, "call|k1 sclose|s1 cclose|c1 ret|k1"),
    ("server-close-vs-held-delete", ST, "delmode|hold call|k1 cclose|c1 ret|k1 sclose|s1 reldel"),
    ("idle-timeout-vs-delete", TO, "delmode|hold cclose|c1 idle reldel"),
    # Close racing a new POST for the session
    ("post-arrives-while-closing", TO, "call|k1 callh|k2 sclose|s1 rel|k2 ret|k1 tick"),
    ("post-arrives-after-closed", TO, "callh|k1 sclose|s1 rel|k1 tick"),
    ("post-after-delete", ST, "call|k1 callh|k2 ccancel|k1 cclose|c1 rel|k2 ret|k1"),
    ("notification-while-closing", TO, "call|k1 sclose|s1 cnotif snotif ret|k1 tick"),
    ("call-after-server-closed", ST, "sclose|s1 call|k1 tick"),
    # peer vanishing
    ("vanish-with-running-handler", TO, "call|k1 vanish ret|k1 idle"),
    ("vanish-then-server-close", ST, "call|k1 call|k2 vanish sclose|s1 ret|k1 ret|k2"),
    ("vanish-idle-session-reaped", TO, "vanish idle tick"),
    ("vanish-during-nested-call", TO, "call|k1 sreq|k1 vanish idle"),
    ("netdown-during-nested-call-then-close", ST, "call|k1 sreq|k1 netdown ans|k1 sclose|s1"),
    # stateless mode: ephemeral per-request sessions
    ("stateless-cut-while-handler-runs", {"stateless": True}, "call|k1 call|k2 cutpost|k1 ret|k2 ret|k1 cclose|c1"),
    ("stateless-client-close-with-call", {"stateless": True}, "call|k1 cclose|c1 ret|k1"),
    ("stateless-netdown", {"stateless": True}, "call|k1 call|k2 netdown ret|k1 ret|k2 cclose|c1"),
    ("stateless-nested-call-refused", {"stateless": True}, "call|k1 sreq|k1 emit|k1 ret|k1 cclose|c1"),
    ("stateless-cancel", {"stateless": True}, "call|k1 emit|k1 ccancel|k1 ret|k1"),
    # with an event store (cut streams are resumed instead of failing)
    ("store-cut-post-then-close", {"store": True, "timeout": True}, "call|k1 emit|k1 cutpost|k1 tick sclose|s1 ret|k1 tick"),
    ("store-client-close-during-resume", {"store": True}, "call|k1 emit|k1 cutpost|k1 cclose|c1 tick ret|k1"),
    # an event store whose SessionClosed fails when the session ends (Close from either side, the idle reaper)
    ("storefail-server-close", {"store": True, "storefail": True}, "call|k1 ret|k1 tick sclose|s1 tick"),
    ("storefail-server-close-busy", {"store": True, "storefail": True}, "call|k1 sclose|s1 tick ret|k1 tick"),
    ("storefail-client-close", {"store": True, "storefail": True}, "call|k1 ret|k1 tick cclose|c1 tick"),
    ("storefail-idle", {"store": True, "storefail": True, "timeout": True}, "call|k1 ret|k1 tick idle tick"),
]


def mk_scenario(sid, cfg, steps, rnd=None, version=None):
    c = {"stateless": bool(cfg.get("stateless")), "timeout": bool(cfg.get("timeout")), "nosse": bool(cfg.get("nosse")),
         "store": bool(cfg.get("store")), "storefail": bool(cfg.get("store") and cfg.get("storefail"))}
    c["version"] = version or cfg.get("version") or (rnd.choice(VERSIONS) if rnd else VERSIONS[0])
    return {"id": sid, "cfg": c, "steps": steps}


def corner_scenarios(rnd):
    return [mk_scenario("corner-" + n, cfg, [s.split("|") for s in text.split()], rnd) for (n, cfg, text) in CORNERS]


LABEL = {"SCall": "call", "SCallHeld": "callh", "SRelease": "rel", "SRet": "ret", "SSreq": "sreq", "SAns": "ans", "SCCancel": "ccancel",
         "SCutPost": "cutpost", "SCClose": "cclose", "SSClose": "sclose", "SDelMode": "delmode", "SReleaseDel": "reldel", "SCutGet": "cutget",
         "SNetDown": "netdown", "SVanish": "vanish", "STick": "tick", "SIdle": "idle", "SCNotif": "cnotif", "SSNotif": "snotif"}


def cfg_consts(cfgname):
    txt = open(os.path.join(vlib.SPEC, cfgname)).read()
    b = lambda name: re.search(r"%s = (TRUE|FALSE)" % name, txt).group(1) == "TRUE"
    return {"stateless": b("Stateless"), "timeout": b("Timeout"), "nosse": not b("Sse")}


def own_wd():
    return vlib.scratch("hcl-")


# short TLC runs spend their time starting the JVM: C1 only
FAST = ["-XX:TieredStopAtLevel=1"]


# at most this many TLC JVMs of this satellite at a time (the machine is shared)
JVMS = threading.BoundedSemaphore(6)


def parallel(jobs, sem=None):
    out, errs = {}, []

    def wrap(name, fn):
        try:
            if sem is None:
                out[name] = fn()
            else:
                with sem:
                    out[name] = fn()
        except Exception as e:  # noqa
            errs.append(e)
    ts = [threading.Thread(target=wrap, args=j) for j in jobs]
    for t in ts:
        t.start()
    for t in ts:
        t.join()
    if errs:
        raise errs[0]
    return out


# ---------------------------------------------------------------------------------------------------------------------
# 1. the model


def model_jobs(tier):
    """(name, thunk) list: exhaustive safety configs, liveness configs, the lead (must be violated), the design switches
    (must be violated), reachability witnesses; thorough: -coverage 1 on the configuration with everything enabled."""
    jobs = []

    def mc(cfg, workers, heap, cover=False):
        def run():
            # the -coverage 1 configurations run on HttpClose.tla itself (no history variable): TLC then reports per action
            r = vlib.run_tlc("HttpClose" if cover else MODULE, cfg, workdir=own_wd(), workers=workers, timeout=1500, heap_gb=heap, coverage=cover,
                             java_opts=(FAST if tier == "quick" else []))
            vlib.tlc_must_pass(r, cfg)
            if not r.ok:
                raise vlib.MachineryError("HttpClose model violates %s in %s (design check failed)" % (r.violation, cfg))
            return [(cfg + (" (-coverage 1)" if cover else ""), r)]
        return run

    def live(cfg):
        def run():
            r = vlib.run_tlc(MODULE, cfg, workdir=own_wd(), workers=2, timeout=1500, heap_gb=4)
            vlib.tlc_must_pass(r, cfg)
            if not r.ok:
                raise vlib.MachineryError("HttpClose model violates %s in %s (design check failed)" % (r.violation, cfg))
            return [(cfg + " (liveness under weak fairness)", r)]
        return run

    def must_violate(cfg, what, workers=2):
        def run():
            r = vlib.run_tlc(MODULE, cfg, workdir=own_wd(), workers=workers, timeout=900, heap_gb=3, java_opts=FAST)
            if r.violation != what and not (what == "temporal" and r.violation):
                raise vlib.MachineryError("%s: expected a violation of %s, got %s %s" % (cfg, what, r.violation, r.error))
            return [(cfg + " (must be violated: %s)" % what, r)]
        return run

    def witnesses(names):
        def run():
            base = re.sub(r"(?m)^INVARIANTS.*$", "", open(os.path.join(vlib.SPEC, "HttpClose_wit.cfg")).read())
            out = []
            for w in names:
                r = vlib.run_tlc(MODULE, "wit.cfg", workdir=own_wd(), workers=2, timeout=600, heap_gb=3, java_opts=FAST,
                                 extra_files={"wit.cfg": base + "\nINVARIANT %s\n" % w})
                if r.violation != w:
                    raise vlib.MachineryError("vacuity: witness %s is not reachable (%s)" % (w, r.error or r.violation))
                out.append(("witness " + w, r))
            return out
        return run

    for cfg in MC[tier]:
        jobs.append((cfg, mc(cfg, 2 if tier == "quick" else 4, 3 if tier == "quick" else 8, cover=(cfg in COVERAGE_CFGS))))
    for cfg in LIVE[tier]:
        jobs.append((cfg, live(cfg)))
    jobs.append(("lead", must_violate("HttpClose_lead_stuck.cfg", "temporal")))
    if tier == "thorough":
        jobs.append(("wit_await", must_violate("HttpClose_wit_await.cfg", "RunningHandlersFinish")))
        jobs.append(("wit_sse", must_violate("HttpClose_wit_sse.cfg", "temporal")))
        jobs.append(("witA", witnesses(WITNESSES[:6])))
        jobs.append(("witB", witnesses(WITNESSES[6:])))
    return jobs


# ---------------------------------------------------------------------------------------------------------------------
# 2. generation


def env_cover(init, edges, maxlen, seed):
    from checks import c08
    return c08.env_cover(init, edges, maxlen=maxlen, seed=seed)


def cover_scenarios(cfgname, seed, rnd, limit, prefix):
    wd = own_wd()
    dot = os.path.join(wd, "g.dot")
    res = vlib.run_tlc(MODULE, cfgname, workdir=wd, workers=2, timeout=900, heap_gb=4, extra_args=["-dump", "dot,actionlabels", dot],
                       java_opts=(FAST if "_cover_q" in cfgname else []))
    vlib.tlc_must_pass(res, cfgname)
    if not res.ok:
        raise vlib.MachineryError("HttpClose seam-level model violates %s in %s" % (res.violation, cfgname))
    init, edges = graphwalk.parse_dot(dot)
    os.remove(dot)
    paths, total = env_cover(init, edges, 14, seed)
    consts = cfg_consts(cfgname)
    npaths = len(paths)
    if limit and len(paths) > limit:
        paths = rnd.sample(paths, limit)
    out = []
    for i, p in enumerate(paths):
        steps = []
        for (name, args) in p:
            if name in LABEL:
                steps.append([LABEL[name]] + [str(a) for a in args])
        if steps:
            out.append(mk_scenario("%s%d" % (prefix, i), consts, steps, rnd))
    return (cfgname + "(seam graph)", res), out, {"nodes": len(edges), "env_edges": total, "paths": npaths}


def simulate_scenarios(cfgname, num, depth, seed, rnd, prefix):
    res = vlib.run_tlc(MODULE, cfgname, workdir=own_wd(), workers=1, timeout=900, heap_gb=3, simulate="num=%d" % num, depth=depth, seed=seed,
                       java_opts=(FAST if num <= 60 else []))
    if res.error or res.violation:
        raise vlib.MachineryError("HttpCloseMC simulation failed: %s %s\n%s" % (res.error, res.violation, res.stdout[-1500:]))
    m = re.search(r"The number of states generated: (\d+)", res.stdout)
    if m:
        res.generated = res.distinct = int(m.group(1))
    beh, last = [], None
    for p in res.printed:
        if not isinstance(p, dict) or "steps" not in p:
            continue
        if last is not None and (len(p["steps"]) <= len(last["steps"]) or p["steps"][:len(last["steps"])] != last["steps"]):
            beh.append(last)
        last = p
    if last is not None:
        beh.append(last)
    out, seen = [], set()
    for i, b in enumerate(beh):
        key = json.dumps(b, sort_keys=True)
        if key in seen:
            continue
        seen.add(key)
        consts = {"stateless": b["stateless"], "timeout": b["timeout"], "nosse": not b["sse"]}
        sc = mk_scenario("%s%d" % (prefix, i), consts, [[str(x) for x in s["step"]] for s in b["steps"]], rnd)
        # what the model says the harness sees: before the first step, after every step
        EXPECT[sc["id"]] = [s["pre"] for s in b["steps"]] + [b["final"]]
        out.append(sc)
    return (cfgname + "(simulate)", res), out


# scenario id -> projections of the model's quiescent states (HttpCloseMC!Proj): [before step 1, after step 1, ...]
EXPECT = {}


def project(snap):
    """The harness snapshot in the vocabulary of HttpCloseMC!Proj."""
    return {"intab": snap["intab"], "listed": snap["listed"], "clisted": snap["clisted"], "sclosing": snap["sclosing"],
            "strclosed": snap["strclosed"], "calls": {k: ("err" if v == "toolerr" else v) for k, v in snap["calls"].items()},
            "handlers": dict(snap["handlers"]), "chandlers": {k: v for k, v in snap["chandlers"].items() if v == "running"}}


def conformance(v, traces):
    """Binding of HttpClose.tla to the code: for the behaviours TLC generated by simulation, the snapshot the harness
    took after every step must be the projection of the model's state after that step.  A difference is DRIFT (the
    model no longer describes the code); the monitor's verdict does not depend on it."""
    checked = steps = 0
    seen = set()
    for tid, start, trows in traces:
        exp = EXPECT.get(tid)
        if exp is None:
            continue
        snaps = [r for r in trows if r.get("ev") in ("ready", "step")]
        if not snaps or snaps[0].get("ev") != "ready" or any(r.get("ev") == "panic" for r in trows):
            continue
        checked += 1
        for i, r in enumerate(snaps):
            if i >= len(exp):
                break
            if r.get("ev") == "step" and not r.get("applied"):
                key = ("not-applicable", r.get("op"))
                if key not in seen:
                    seen.add(key)
                    v.drift.append("httpclose trace %s: step %d %s %s is enabled in HttpClose.tla but was not applicable on the real code"
                                   % (tid, i, r.get("op"), r.get("a1")))
                break
            real, want = project(r["snap"]), exp[i]
            want = {"intab": want["intab"], "listed": want["listed"], "clisted": want["clisted"], "sclosing": want["sclosing"],
                    "strclosed": want["strclosed"], "calls": {k: x for k, x in want["calls"].items() if x != "none"},
                    "handlers": {k: x for k, x in want["handlers"].items() if x != "none"},
                    "chandlers": {k: x for k, x in want["chandlers"].items() if x == "running"}}
            steps += 1
            skip = set()
            if exp[i].get("gone"):          # a vanished client: its side of the projection means nothing
                skip |= {"clisted", "calls", "chandlers"}
            if exp[i].get("delpend"):       # whoever made the client idle is busy sending the DELETE: its caller has not returned
                skip |= {"calls"}
            diff = [f for f in want if f not in skip and want[f] != real[f]]
            if diff:
                key = (diff[0], r.get("op"))
                if key not in seen:
                    seen.add(key)
                    v.drift.append("httpclose trace %s: after step %d (%s %s) the code shows %s=%s, HttpClose.tla says %s"
                                   % (tid, i, r.get("op"), r.get("a1"), diff[0], json.dumps(real[diff[0]]), json.dumps(want[diff[0]])))
                break
    v.cov["httpclose_conformance_traces"] = checked
    v.cov["httpclose_conformance_steps_compared"] = steps


def random_scenarios(n, seed, rnd, prefix):
    """Seeded random scripts beyond the model's bounds: more calls, emits, an event store, protocol versions, more
    closers; applicability is left to the harness (a step that is not applicable is logged and skipped)."""
    out = []
    for i in range(n):
        stateless = rnd.random() < 0.15
        cfg = {"stateless": stateless, "timeout": rnd.random() < 0.6, "nosse": (not stateless and rnd.random() < 0.15),
               "store": (not stateless and rnd.random() < 0.25)}
        cfg["storefail"] = bool(cfg["store"] and rnd.random() < 0.3)
        ks = ["k%d" % j for j in range(1, rnd.randint(2, 4) + 1)]
        steps, called, closers = [], [], {"c": 0, "s": 0}
        for _ in range(rnd.randint(4, 16)):
            r = rnd.random()
            if r < 0.22 and len(called) < len(ks):
                k = ks[len(called)]
                called.append(k)
                steps.append([rnd.choice(["call", "call", "call", "callh"]), k])
            elif r < 0.40 and called:
                steps.append([rnd.choice(["ret", "ret", "emit", "sreq", "ans", "rel", "cutpost", "ccancel"]), rnd.choice(called)])
            elif r < 0.52:
                side = rnd.choice("cs")
                if closers[side] < 2 and not (side == "s" and stateless):
                    closers[side] += 1
                    steps.append([side + "close", "%s%d" % (side, closers[side])])
            elif r < 0.62:
                steps.append(["tick"])
            elif r < 0.68:
                steps.append(["idle"])
            elif r < 0.74:
                steps.append([rnd.choice(["netdown", "vanish", "cutget", "cutget"])])
            elif r < 0.80:
                steps.append(["delmode", rnd.choice(["fail", "hang", "hold"])])
            elif r < 0.84:
                steps.append(["reldel"])
            elif r < 0.92:
                steps.append([rnd.choice(["cnotif", "snotif"])])
            elif called:
                steps.append([rnd.choice(["ans", "ret"]), rnd.choice(called)])
        if steps:
            out.append(mk_scenario("%s%d" % (prefix, i), cfg, steps, rnd))
    return out


# ---------------------------------------------------------------------------------------------------------------------
# 3./4. running and judging


def run_harness(pid, rows, seed, timeout=900, prefix="httpclose_"):
    out = vlib.outdir(pid)
    scen = os.path.join(out, prefix + "scenarios.ndjson")
    vlib.write_ndjson(scen, rows)
    obs = os.path.join(out, prefix + "obs.ndjson")
    if os.path.exists(obs):
        os.remove(obs)
    env = {"VERIF_IN": scen, "VERIF_OUT": obs, "VERIF_SEED": seed}
    if os.environ.get("VERIF_DEBUG_STACK"):
        env["VERIF_DEBUG_STACK"] = os.environ["VERIF_DEBUG_STACK"]
    rc, gout, wall = vlib.go_test("mcp", "^TestVerif_HttpClose$", HARNESS, timeout=timeout, env=env, extra_args=["-p", "4"])
    vlib.go_must_build(rc, gout, pid + " httpclose")
    orows = []
    if os.path.exists(obs):
        for line in open(obs):
            try:
                orows.append(json.loads(line))
            except ValueError:
                break   # last line cut short by a crash of the test process
    if rc != 0 and not any(r.get("ev") in ("panic", "bubble.leak") for r in orows):
        m = re.search(r"^(panic: .*|fatal error: .*)$", gout, re.M)
        if m and "go-sdk" in gout and orows:
            # the SDK crashed the test process (a panic in one of its own goroutines cannot be recovered by the harness):
            # real-code behaviour, attributed to the scenario in flight
            orows.append({"ev": "panic", "msg": m.group(1)[:300], "where": "process crash", "seq": 0, "t": 0})
        else:
            raise vlib.MachineryError("HttpClose harness failed:\n" + gout[-3000:])
    if not orows:
        raise vlib.MachineryError("HttpClose harness produced no observations:\n" + gout[-2000:])
    vlib.write_ndjson(obs, orows)
    return obs, orows, wall


def mode_of(cfg):
    return "%s%s%s%s" % ("stateless" if cfg.get("stateless") else "stateful", "+timeout" if cfg.get("timeout") else "",
                         "+nosse" if cfg.get("nosse") else "", ("+storefail" if cfg.get("storefail") else "+store") if cfg.get("store") else "")


def collapse(ops):
    out = []
    for o in ops:
        if out and out[-1].rstrip("+") == o:
            out[-1] = o + "+"
        else:
            out.append(o)
    return out


def applied_ops(trows, upto):
    ops = []
    for r in trows[:upto + 1]:
        if r.get("ev") == "step" and r.get("applied"):
            ops.append(r.get("op"))
    return ops


def class_of(clause, trows, upto, e):
    """Failures identified by their abstract class alone (one known-finding line covers all scripts that show it)."""
    if clause == "C05.HttpCloseReturns" and e.get("ev") == "quiesce1":
        running = e.get("running") or []
        nested = [k for k in running if not k.endswith("?")]
        ops = applied_ops(trows, upto)
        # the nested request or its answer cannot travel any more: the client is gone, the network is down, the client has
        # closed, or an exchange was cut and the client has not resumed it (the request then sits in the event store / is
        # refused for ever) - in every case nothing retires the server->client call, which is the recorded defect
        unreachable = (e.get("gone") or e.get("down") or any(r.get("ev") == "ctr.close.end" for r in trows[:upto])
                       or any(o in ("cutpost", "cutget") for o in ops))
        if nested and "sreq" in ops and unreachable:
            return "class:handler-awaits-nested-call-to-unreachable-client"
    return None


def signature(clause, scn, trows, upto, e):
    c = class_of(clause, trows, upto, e)
    if c:
        return "%s:%s" % (clause, c)
    ops = applied_ops(trows, upto)
    if e.get("ev") in ("final", "bubble.leak") and clause == "C05.HttpNoLeak":
        left = sorted({x.split("<-")[0] for x in (e.get("leaks") or e.get("left") or [])})
        return "%s:%s:left=%s" % (clause, mode_of(scn["cfg"]), ",".join(left)[:200] or "?")
    if e.get("ev") == "quiesce1" and clause == "C05.HttpNoLeak":
        left = sorted({x.split("<-")[0] for x in (e.get("cleft") or []) + (e.get("sleft") or []) + (e.get("oleft") or [])})
        return "%s:%s:%s:left=%s" % (clause, mode_of(scn["cfg"]), ",".join(collapse(ops)), ",".join(left)[:160])
    return "%s:%s:%s" % (clause, mode_of(scn["cfg"]), ",".join(collapse(ops)) or "-")


def steps_of_trace(trows):
    out = []
    for r in trows:
        if r.get("ev") == "step":
            out.append([r.get("op")] + ([r.get("a1")] if r.get("a1") else []))
        elif r.get("ev") == "script.end":
            break
    return out


def judge(v, pid, obs, orows, scen_by_id):
    fails, mres = vlib.run_monitor("HttpCloseMon", "HttpCloseMon.cfg", obs, timeout=1800, heap_gb=6)
    v.add_tlc("HttpCloseMon", mres)
    traces = vlib.split_traces(orows)
    other = {}
    for f in fails:
        clause = f["monfail"]
        tid, start, trows = vlib.trace_of_line(traces, f["line"])
        e = orows[f["line"] - 1]
        if clause.startswith("X."):
            raise vlib.MachineryError("harness sanity clause %s failed in trace %s at line %d: %s" % (clause, tid, f["line"], json.dumps(e)[:300]))
        if not clause.startswith(pid_prefix(pid)):
            other[clause] = other.get(clause, 0) + 1
            continue
        sc = scen_by_id.get(tid)
        if sc is None:
            head = trows[0]
            sc = {"id": tid, "cfg": {"stateless": head.get("stateless"), "timeout": head.get("timeout"), "nosse": not head.get("sse") and not head.get("stateless"),
                                     "store": head.get("store"), "storefail": head.get("storefail"), "version": head.get("version")}, "steps": steps_of_trace(trows)}
        ev = dict(e)
        ev.pop("snap", None)
        v.violation(signature(clause, sc, trows, f["line"] - start, e),
                    "%s failed at line %d (trace %s, event %s) on a real client/server pair over streamable HTTP" % (clause, f["line"], tid, e.get("ev")),
                    {"httpclose_scenario": sc, "event": ev})
    v.cov["httpclose_other_property_clauses_failed"] = other
    return traces


def pid_prefix(pid):
    return "C05." if pid.startswith("X") else pid + "."


def satellite(v, pid, tier, seed, replay_scn=None):
    """The streamable-HTTP shutdown part of C05 (see the module docstring).  Reports the C05.Http* clauses of
    HttpCloseMon into the caller's verdict; returns the traces."""
    rnd = random.Random(seed * 130003 + 5)
    t0 = time.time()
    marks = [("start", t0)]

    def phase(name):
        marks.append((name, time.time()))
        v.cov["httpclose_phase_wall_s"] = {marks[i][0]: round(marks[i][1] - marks[i - 1][1], 1) for i in range(1, len(marks))}

    if replay_scn is not None:
        rows = [replay_scn]
        obs, orows, wall = run_harness(pid, rows, seed)
        traces = judge(v, pid, obs, orows, {r["id"]: r for r in rows})
        v.cov["httpclose_scenarios_run"] = len(traces)
        v.cov["traces_validated_against_impl"] = v.cov.get("traces_validated_against_impl", 0) + len(traces)
        return traces
    # the exhaustive / liveness configurations are checked in the background while scenarios are generated and run
    mres = {}

    def model_thread():
        try:
            mres["jobs"] = model_jobs(tier)
            mres["got"] = parallel(mres["jobs"], JVMS)
        except Exception as e:  # noqa
            mres["err"] = e
    mt = threading.Thread(target=model_thread)
    mt.start()
    try:
        limit = 30 if tier == "quick" else 260
        jobs = [(cfg, (lambda c=cfg, i=i: cover_scenarios(c, seed, rnd_for(seed, i), limit, "cov%d." % i))) for i, cfg in enumerate(COVER[tier])]
        nsim = 40 if tier == "quick" else 450
        jobs += [(cfg, (lambda c=cfg, i=i: simulate_scenarios(c, nsim if i == 0 else max(10, nsim // 3), 60, seed, rnd_for(seed, 100 + i), "sim%d." % i)))
                 for i, cfg in enumerate(GEN[tier])]
        got = parallel(jobs)
        rows, gstats = [], {}
        for i, cfg in enumerate(COVER[tier]):
            (label, res), sc, st = got[cfg]
            v.add_tlc(label, res)
            rows += sc
            gstats[cfg] = st
        ncov = len(rows)
        for cfg in GEN[tier]:
            (label, res), sc = got[cfg]
            v.add_tlc(label, res)
            rows += sc
        ntlc = len(rows)
        rows += corner_scenarios(rnd)
        rows += random_scenarios(60 if tier == "quick" else 900, seed, rnd, "rnd")
        v.cov["httpclose_seam_graphs"] = gstats
        v.cov["httpclose_cover_scenarios"] = ncov
        v.cov["httpclose_tlc_generated_scenarios"] = ntlc
        phase("generate")
        obs, orows, wall = run_harness(pid, rows, seed, timeout=1500)
        v.cov["httpclose_go_test_wall_s"] = round(wall, 1)
        phase("harness")
    finally:
        mt.join()
    if "err" in mres:
        raise mres["err"]
    taken = {}
    for name, _ in mres["jobs"]:
        for (label, r) in mres["got"][name]:
            v.add_tlc(label, r)
            for a, (d, t) in r.coverage.items():
                taken[a] = taken.get(a, 0) + t
    if tier == "thorough":
        dead = [a for a in ACTIONS if taken.get(a, 0) == 0]
        if dead:
            raise vlib.MachineryError("dead actions of HttpClose.tla (never taken in %s): %s" % (COVERAGE_CFGS, dead))
        v.cov["httpclose_actions_covered"] = len(ACTIONS)
    v.cov["httpclose_model_runs"] = sum(len(mres["got"][n]) for n, _ in mres["jobs"])
    phase("model(rest)")
    traces = judge(v, pid, obs, orows, {r["id"]: r for r in rows})
    conformance(v, traces)
    phase("monitor")
    ran = {tid for tid, _, trs in traces if any(r.get("ev") == "final" for r in trs)}
    if len(ran) < len(rows) and not any(r.get("ev") in ("panic", "bubble.leak") for r in orows):
        raise vlib.MachineryError("httpclose: only %d of %d scenarios ran to the end" % (len(ran), len(rows)))
    steps = [r for r in orows if r.get("ev") == "step"]
    v.cov["httpclose_scenarios_run"] = len(traces)
    v.cov["httpclose_steps_executed"] = len(steps)
    v.cov["httpclose_steps_not_applicable"] = sum(1 for r in steps if not r.get("applied"))
    v.cov["httpclose_closes_observed"] = sum(1 for r in orows if r.get("ev") == "close.end")
    v.cov["httpclose_server_connections_closed"] = sum(1 for r in orows if r.get("ev") == "tr.close")
    v.cov["httpclose_deletes_sent"] = sum(1 for r in orows if r.get("ev") == "x.begin" and r.get("kind") == "del")
    v.cov["httpclose_handlers_run"] = sum(1 for r in orows if r.get("ev") == "h.start")
    v.cov["traces_validated_against_impl"] = v.cov.get("traces_validated_against_impl", 0) + len(traces)
    return traces


def rnd_for(seed, i):
    return random.Random(seed * 7919 + i)
