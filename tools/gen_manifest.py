#!/usr/bin/env python3
"""Regenerate /verif/MANIFEST.json from the table below (one source of truth)."""
import json, os, sys
HERE = os.path.dirname(os.path.abspath(__file__))
VERIF = os.path.dirname(HERE)

CHECKS = {
    "C20": dict(
        engine="EventStore",
        category="model_checking",
        text=("EventStore.tla models MemoryEventStore one action per method; TLC checks the C20 invariants exhaustively for "
              "2 sessions x 2 streams, <=3 (quick) / <=4 (thorough) appends; every edge of a reduced state graph is replayed on the real "
              "store together with seeded random histories, and every recorded operation is judged by the TLA+ monitor "
              "EventStoreMon (property only) and the strict trace spec EventStoreTrace (binding); concurrent histories are "
              "checked for linearizability by TLC (EventStoreLin); thorough adds -race."),
        design_ref="DESIGN.md section 6 C20",
        note="Trusted: TLC, the Go harness' projection through the public API, small-scope bounds for the exhaustive part.",
        technique="TLA+ spec + TLC exhaustive; transition-cover replay and trace validation of the real store; TLC linearizability search",
    ),
}

def _conn(pid, what):
    return dict(
        engine="Conn",
        category="model_checking",
        text=("Environment-action scripts (TLC-generated from Conn.tla, hand-written corner cases, seeded random) are executed on REAL client and "
              "server sessions over a scripted transport inside testing/synctest; every observable event and every critical section of "
              "jsonrpc2.Connection (verif hook) is logged and judged by the TLA+ monitor ConnMon (clauses " + what + "), evaluated by TLC over the logs. "
              "Conn.tla models the connection one action per critical section and is checked exhaustively for small constants."),
        design_ref="DESIGN.md section 6 " + pid + ", section 5.1",
        note="Trusted: TLC; the scripted transport and scripted handlers of the harness; testing/synctest quiescence as the notion of 'step finished'; seam-level scheduling (SDK critical sections run to quiescence between environment actions).",
        technique="TLA+ spec + TLC; scenario replay on real sessions under synctest; TLA+ monitor over recorded traces",
    )

CHECKS.update({
    "C01": _conn("C01", "C01.CompleteOnce/OwnResponse/ErrorHasCause/ResponseCompletes/NotBlockedAfterTermination/FailFastAfterTermination"),
    "C02": _conn("C02", "C02.AnsweredAtMostOnce/NoReplyToNotification/AnsweredWhenUsable/DupInflightIdAnswered"),
    "C03": _conn("C03", "C03.DispatchFIFO/NotificationCompletesFirst/NotifyReturnsAfterHandOff"),
    "C04": _conn("C04", "C04.PromptReturn/CancelAnnounced/OnlyMatchingSent/OnlyMatchingCancelled/MatchingHandlerCancelled"),
    "C05": _conn("C05", "C05.TransportClosedOnlyAfterHandlers/NoDispatchAfterClose/CloseReturns/WaitReturns/Removed/NoLeak/NoPanic"),
    "C07": dict(
        engine="Negotiate", category="model_checking",
        text=("NegotiateDefs.tla states C07 as five declarative clauses over (configuration, outcome) plus a check-by-check transcription of the client and "
              "server negotiation code. TLC enumerates the complete 970-cell matrix (requested version x transport x advertised subset x discover availability) "
              "and evaluates the design on every cell; every cell is executed on a real Client/Server pair (in-memory, io pipes, SSE, streamable stateful/stateless "
              "through an in-process RoundTripper under synctest) with ListTools and CallTool right after Connect; the TLA+ monitor NegotiateMon judges each outcome."),
        design_ref="DESIGN.md section 6 C07, 5.3",
        note="Trusted: TLC; harness projection (InitializeResult version, methods seen by a sending middleware); client and server are the same SDK build; advertised subsets only reachable through a ProtocolVersionSupporter wrapper on mem/io transports.",
        technique="TLA+ decision table enumerated by TLC; every cell run on the real SDK; TLA+ monitor over observations",
    ),
    "C14": dict(
        engine="Bearer", category="model_checking",
        text=("BearerDefs.tla holds the abstract product of 54 000 cases (header shapes x verifier outcomes x scope sets x expiry around the skew boundary x options), "
              "the code-shaped Expected and the declarative property Holds (iff admission, status by cause, challenge content, same token info). TLC checks "
              "Holds(c, Expected(c)) on the whole product and exports it; every case is run through the real middleware under a frozen clock and the TLA+ monitor "
              "evaluates Holds on the real outcome. Exhaustive in both tiers."),
        design_ref="DESIGN.md section 6 C14",
        note="Trusted: TLC; concretisation of abstract header/expiry classes in the harness; synctest frozen clock.",
        technique="TLA+ decision table enumerated by TLC; complete product run on the real middleware; TLA+ monitor",
    ),
})

NOT_YET = "check not built yet in this round (planned with the same technique; see DESIGN.md section 6)"

def main():
    props = [json.loads(l) for l in open(os.path.join(VERIF, "properties.jsonl"))]
    checks, na, engines = [], [], {}
    for p in props:
        pid = p["id"]
        if pid in CHECKS and os.path.exists(os.path.join(HERE, "checks", pid.lower() + ".py")):
            c = CHECKS[pid]
            checks.append({
                "property_id": pid,
                "quick_cmd": "bin/check %s --tier quick" % pid,
                "thorough_cmd": "bin/check %s --tier thorough" % pid,
                "evidence_file": "/verif/evidence/%s.json" % pid,
                "replay_cmd_template": "bin/check %s --replay {path}" % pid,
                "engine": c["engine"],
                "level_claimed": {"category": c["category"], "text": c["text"], "design_ref": c["design_ref"]},
                "level_note": c["note"],
                "technique": c["technique"],
            })
            engines.setdefault(c["engine"], []).append(pid)
        else:
            na.append({"property_id": pid, "reason": CHECKS.get(pid, {}).get("na", NOT_YET)})
    hooks_commits = []
    hc = os.path.join(VERIF, "HOOK_COMMITS.txt")
    if os.path.exists(hc):
        hooks_commits = [l.split()[0] for l in open(hc) if l.strip() and not l.startswith("#")]
    m = {
        "version": 1,
        "setup_cmd": "bin/setup",
        "hooks": {
            "guard": "verif",
            "enable": "go test -tags verif -overlay <harness overlay> (harness _test.go files live in /verif/harness and are injected, nothing is written under /repo)",
            "baseline_off_cmd": "cd /repo && go test -json -vet=off -count=1 -timeout 25m ./...",
            "source_commits": hooks_commits,
            "add_only": True,
        },
        "engines": [{"name": k, "path": "/verif/spec/%s.tla" % k, "serves_properties": v,
                     "kind_free_text": "TLA+ specification checked with TLC; bound to the Go code by replay and trace validation"}
                    for k, v in sorted(engines.items())],
        "checks": checks,
        "notes": "All checks: exit 0 held / exit 1 VIOLATION (real-code behaviour only) / exit 2 machinery error. Known findings in KNOWN_FINDINGS.txt.",
        "not_applicable": na,
    }
    with open(os.path.join(VERIF, "MANIFEST.json"), "w") as fh:
        json.dump(m, fh, indent=1)
    print("MANIFEST: %d checks, %d not_applicable" % (len(checks), len(na)))

if __name__ == "__main__":
    main()
