#!/usr/bin/env python3
"""Regenerate /verif/MANIFEST.json from the table below (one source of truth)."""
import json, os, sys
HERE = os.path.dirname(os.path.abspath(__file__))
VERIF = os.path.dirname(HERE)

CHECKS = {
    "C20": dict(
        engine="EventStore",
        category="model_checking",
        text=("EventStore.tla models MemoryEventStore one action per method; TLC checks the C20 invariants exhaustively for "
              "2 sessions x 2 streams, <=3 (quick) / <=4 (thorough) appends; every edge of a reduced state graph is replayed on the real "
              "store together with seeded random histories, and every recorded operation is judged by the TLA+ monitor "
              "EventStoreMon (property only) and the strict trace spec EventStoreTrace (binding); concurrent histories are "
              "checked for linearizability by TLC (EventStoreLin); thorough adds -race."),
        design_ref="DESIGN.md section 6 C20",
        note="Trusted: TLC, the Go harness' projection through the public API, small-scope bounds for the exhaustive part.",
        technique="TLA+ spec + TLC exhaustive; transition-cover replay and trace validation of the real store; TLC linearizability search",
    ),
}

NOT_YET = "check not built yet in this round (planned with the same technique; see DESIGN.md section 6)"

def main():
    props = [json.loads(l) for l in open(os.path.join(VERIF, "properties.jsonl"))]
    checks, na, engines = [], [], {}
    for p in props:
        pid = p["id"]
        if pid in CHECKS and os.path.exists(os.path.join(HERE, "checks", pid.lower() + ".py")):
            c = CHECKS[pid]
            checks.append({
                "property_id": pid,
                "quick_cmd": "bin/check %s --tier quick" % pid,
                "thorough_cmd": "bin/check %s --tier thorough" % pid,
                "evidence_file": "/verif/evidence/%s.json" % pid,
                "replay_cmd_template": "bin/check %s --replay {path}" % pid,
                "engine": c["engine"],
                "level_claimed": {"category": c["category"], "text": c["text"], "design_ref": c["design_ref"]},
                "level_note": c["note"],
                "technique": c["technique"],
            })
            engines.setdefault(c["engine"], []).append(pid)
        else:
            na.append({"property_id": pid, "reason": CHECKS.get(pid, {}).get("na", NOT_YET)})
    hooks_commits = []
    hc = os.path.join(VERIF, "HOOK_COMMITS.txt")
    if os.path.exists(hc):
        hooks_commits = [l.split()[0] for l in open(hc) if l.strip() and not l.startswith("#")]
    m = {
        "version": 1,
        "setup_cmd": "bin/setup",
        "hooks": {
            "guard": "verif",
            "enable": "go test -tags verif -overlay <harness overlay> (harness _test.go files live in /verif/harness and are injected, nothing is written under /repo)",
            "baseline_off_cmd": "cd /repo && go test -json -vet=off -count=1 -timeout 25m ./...",
            "source_commits": hooks_commits,
            "add_only": True,
        },
        "engines": [{"name": k, "path": "/verif/spec/%s.tla" % k, "serves_properties": v,
                     "kind_free_text": "TLA+ specification checked with TLC; bound to the Go code by replay and trace validation"}
                    for k, v in sorted(engines.items())],
        "checks": checks,
        "notes": "All checks: exit 0 held / exit 1 VIOLATION (real-code behaviour only) / exit 2 machinery error. Known findings in KNOWN_FINDINGS.txt.",
        "not_applicable": na,
    }
    with open(os.path.join(VERIF, "MANIFEST.json"), "w") as fh:
        json.dump(m, fh, indent=1)
    print("MANIFEST: %d checks, %d not_applicable" % (len(checks), len(na)))

if __name__ == "__main__":
    main()
