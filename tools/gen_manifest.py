#!/usr/bin/env python3
"""Regenerate /verif/MANIFEST.json from the table below (one source of truth)."""
import json, os, sys
HERE = os.path.dirname(os.path.abspath(__file__))
VERIF = os.path.dirname(HERE)

CHECKS = {
    "C20": dict(
        engine="EventStore",
        category="model_checking",
        text=("EventStore.tla models MemoryEventStore one action per method; TLC checks the C20 invariants exhaustively for "
              "2 sessions x 2 streams, <=3 (quick) / <=4 (thorough) appends; every edge of a reduced state graph is replayed on the real "
              "store together with seeded random histories, and every recorded operation is judged by the TLA+ monitor "
              "EventStoreMon (property only) and the strict trace spec EventStoreTrace (binding); concurrent histories are "
              "checked for linearizability by TLC (EventStoreLin); thorough adds -race. After is modelled in two phases (iterator objects as state: Get / Begin / IterNext / Stop; one or two iterators, exhaustive): every operation - incl. SessionClosed and SessionClosed + Open + Append under the same ids - may fall between obtaining an iterator and ranging it, between two items and between two rangings, and the monitor judges that each ranging replays exactly one moment of its own duration (ReplayExact; assumption: a read begins when ranging begins)."),
        design_ref="DESIGN.md section 6 C20",
        note="Trusted: TLC, the Go harness' projection through the public API, small-scope bounds for the exhaustive part.",
        technique="TLA+ spec + TLC exhaustive; transition-cover replay and trace validation of the real store; TLC linearizability search",
    ),
}

def _conn(pid, what):
    return dict(
        engine="Conn",
        category="model_checking",
        text=("Conn.tla models jsonrpc2.Connection one action per critical section and is checked exhaustively by TLC for small constants. TLC-generated behaviours "
              "are replayed on REAL client and server sessions over a scripted transport inside testing/synctest at two granularities: environment-action scripts "
              "(ConnGen; the SDK runs to quiescence between actions) and lock-step critical-section scripts (ConnGenCS; every updateInFlight call parks at the verif "
              "gate and the script releases the section TLC chose), plus hand-written corner cases and seeded random scripts (a third with seeded critical-section scheduling). "
              "Every observable event and every critical section (verif hook) is logged and judged by the TLA+ monitor ConnMon (clauses " + what + "), evaluated by TLC over "
              "the logs; the strict trace spec ConnTrace must explain every recorded trace (drift otherwise)."
              + (" In addition every critical section of every connection created by the repository's own tests (tracer hook) is judged by ConnSnap.tla"
                 + (" (thorough tier)." if pid == "C01" else ".") if pid in ("C01", "C05") else "")
              + (" The property quantifies over every transport: the streamable-HTTP server transport is covered by scenarios generated from StreamSrv.tla (gated races, a transition-cover "
                 "sample of the seam-level TLC graph, seeded random scripts) run on a real StreamableHTTPHandler and judged by the " + pid + " clauses of StreamSrvMon "
                 + {"C02": "(HttpCallAnswered, HttpAnsweredAtMostOnce)", "C03": "(SameStreamOrder)", "C04": "(CancelNoticeReachesPeer)"}[pid] + "."
                 if pid in ("C02", "C03", "C04") else "")
              + (" On the newline-delimited transports every reply framing (TLC-enumerated ordered partitions of the responses to 1-3 outstanding calls, with or without a notification and a call to "
                 "the SDK, into bare messages and JSON arrays; exhaustive in the thorough tier, exhaustive for <= 2 calls plus a sample in the quick tier) is run on a real ClientSession and "
                 "ServerSession over IOTransport against a raw peer (Wire.tla; clauses CompletesAnyFraming/OwnResponseAnyFraming; a hang is observed at quiescence under synctest)." if pid == "C01" else "")
              + (" The wire part (Wire.tla) adds the complete request-shape table, every batch composition, batch id re-use judged both after the reply's Write returned and while it is still inside "
                 "Write (pinned by a held writer), mixed response/call frames, and the same on the streamable HTTP endpoint, where a hanging exchange is an observation." if pid == "C02" else "")
              + (" Persistent senders of notifications are modelled apart in ConnNotify.tla (TLC: Close terminates under fairness with the code's admission rule, and must NOT terminate with the "
                 "'admit while not idle' rule - a sensitivity witness) and run as notifyloop scripts over a slow scripted transport." if pid == "C05" else "")),
        design_ref="DESIGN.md section 6 " + pid + ", section 5.1, section 13",
        note="Trusted: TLC; the scripted transport and scripted handlers of the harness; testing/synctest quiescence as the notion of 'step finished'; scheduling is controlled at environment-action and critical-section level only (not inside a critical section, not between non-critical-section steps).",
        technique="TLA+ spec + TLC exhaustive; TLC-generated behaviours replayed on real sessions under synctest (environment-action and lock-step critical-section level); TLA+ monitor and strict trace validation of recorded traces",
    )

CHECKS.update({
    "C01": _conn("C01", "C01.CompleteOnce/OwnResponse/ErrorHasCause/ResponseCompletes/FailedWriteCompletesCall/BadParamsCallFails/NotBlockedAfterTermination/FailFastAfterTermination"),
    "C02": _conn("C02", "C02.AnsweredAtMostOnce/NoReplyToNotification/AnsweredWhenUsable/AnsweredBeforeTransportClosed/DupInflightIdAnswered"),
    "C03": _conn("C03", "C03.DispatchFIFO/NotificationCompletesFirst/NotifyReturnsAfterHandOff, incl. handlers that call the peer with their own context"),
    "C04": _conn("C04", "C04.PromptReturn/CancelAnnounced/OnlyMatchingSent/OnlyMatchingCancelled/MatchingHandlerCancelled"),
    "C05": _conn("C05", "C05.TransportClosedOnlyAfterHandlers/AnsweredBeforeTransportClosed/NoDispatchAfterClose/CloseReturns/WaitReturns/Removed/NoLeak/NoPanic and, on real client/server pairs scripted by PairEnv.tla, C05.PairCloseReturns/PairWaitReturns/PairRemoved/PairNoLeak, and on a 2026-07-28 pair with listen streams, failing writes and vanishing peers scripted by PairSub.tla, C05.PairSubCloseReturns/WaitReturns/Removed/CallsComplete/NoDispatchAfterClose/HandlerNotCancelled/TransportClosedAfterHandlers/NoLeak(AfterClose)/NoPanic"),
    "C07": dict(
        engine="Negotiate", category="model_checking",
        text=("NegotiateDefs.tla states C07 as five declarative clauses over (configuration, outcome) plus a check-by-check transcription of the client and "
              "server negotiation code. TLC enumerates a matrix of 28 980 cells (quick: a 5670-cell core crossing every value of every dimension): requested version x transport incl. stateful without session ids x advertised subset x availability of server/discover and the shape its absence takes (JSON-RPC -32601 / -32022, or a plain HTTP 404/400/405/501 with a non-JSON-RPC body from a front end) x the version the peer answers initialize with (honest, each SDK version, unknown older/between/newer/garbage) x a prior connection through another endpoint of the same Server x the client's first request already in flight while Server.Connect is still asking the transport for its versions; the initialize fallback is observed on the wire; "
              "and evaluates the design on every cell; every cell is executed on a real Client/Server pair (in-memory, io pipes, SSE, streamable stateful/stateless "
              "through an in-process RoundTripper under synctest) with ListTools and CallTool right after Connect; the TLA+ monitor NegotiateMon judges each outcome."),
        design_ref="DESIGN.md section 6 C07, 5.3",
        note="Trusted: TLC; harness projection (InitializeResult version, methods seen by a sending middleware); client and server are the same SDK build; advertised subsets only reachable through a ProtocolVersionSupporter wrapper on mem/io transports.",
        technique="TLA+ decision table enumerated by TLC; every cell run on the real SDK; TLA+ monitor over observations",
    ),
    "C14": dict(
        engine="Bearer", category="model_checking",
        text=("BearerDefs.tla holds the abstract product of 81 600 cases (header shapes x verifier outcomes incl. error-with-info x scope lists incl. duplicates x expiry around the skew boundary x options), "
              "the code-shaped Expected and the declarative property Holds (iff admission, status by cause, challenge content, same token info). TLC checks "
              "Holds(c, Expected(c)) on the whole product and exports it; every case is run through the real middleware under a frozen clock and the TLA+ monitor "
              "evaluates Holds on the real outcome. Exhaustive in both tiers. Every case is presented twice to one middleware instance whose verifier returns the same cached TokenInfo, and the handler must see the verifier's info value by value."),
        design_ref="DESIGN.md section 6 C14",
        note="Trusted: TLC; concretisation of abstract header/expiry classes in the harness; synctest frozen clock.",
        technique="TLA+ decision table enumerated by TLC; complete product run on the real middleware; TLA+ monitor",
    ),
})

CHECKS.update({
    "C12": dict(
        engine="HttpGate", category="model_checking",
        text=("HttpGateDefs/HeaderMirrorDefs state C12 as two TLA+ decision tables: the gate order of the streamable and SSE handlers, and the client-encode / HTTP-hop / "
              "server-validate chain for x-mcp-header values. TLC enumerates every abstract POST request within K deviations (3 quick: 14k cases, 5 thorough: 334k) plus an "
              "all-faults product, and the complete 540-case mirror table, checks the code-shaped tables against the property and exports the cases; every case is executed on "
              "the real handlers and through the real client, streamable transport and stateless server; the TLA+ monitors HttpGateMon/HeaderMirrorMon judge status, error code "
              "and whether any middleware or handler observed the message. The mirror part is crossed with client-side histories (never listed; within or after a positive ttlMs; no ttl; later page; tool changed on the server with or without re-listing, cache hit, list_changed; tool moved to another page; every history of at most 3 (quick) / 4 (thorough) steps over list / wait / change / shrink) with the client's list cache transcribed in HeaderMirrorDefs; Agreement is judged for informed clients, uninformed ones are compared with the model as drift."),
        design_ref="DESIGN.md section 6 C12, 5.6",
        note="Trusted: TLC; seeded concretisation of abstract classes; injected http.LocalAddrContextKey instead of a socket; in-process Request.Write/ReadRequest hop; the gate product is K-bounded, the mirror table complete.",
        technique="TLA+ decision tables enumerated by TLC; conformance replay on real handlers under synctest; TLA+ monitors",
    ),
    "C13": dict(
        engine="KeepAlive", category="model_checking",
        text=('KeepAlive.tla models the ticker loop of startKeepalive with an explicit clock, an environment-chosen ping outcome script, the instant at which the peer completes the handshake (keep-alive starts in Connect, before it) and the fate of the context given to Connect (kept / cancelled after tick k); TLC checks Accuracy/Completeness (including sustained pinging while keep-alive is in force)/Timing/SilentStop/NoLeftovers exhaustively for all 5461 scripts over {answered, timed-out, method-not-found, connection-error} up to length 6 x thresholds x owner closing idle / with a ping in flight / while a handler keeps Close waiting, and for scripts up to length 4 x handshake after tick 1..4 or never x Connect context cancelled after tick 0..4, scripts <= 4 with one ping held by the transport of the session itself for 9/16, 1 1/16 or 2 1/16 intervals (explicit one-waiting-tick ticker semantics), owner closing while a ping is held with a tick waiting, and scripts <= 3 x how the session of the pinging side was established (legacy initialize / initialize after a rejected server/discover / a version without ping) (865k states; thorough design check 3.07M), and exports all 152 996 cases; ping attempts are observed by a sending middleware; a leftover is decided by a goroutine dump, never by a goroutine count. Every behaviour runs on the real code under synctest (function level, real ServerSession, real legacy ClientSession against a scripted peer); the TLA+ monitor KeepAliveMon judges the virtual-time observations.'),
        design_ref="DESIGN.md section 6 C13",
        note="Trusted: TLC; testing/synctest virtual time; the scripted peer/Connection; the goroutine-dump census (and the goroutine-count heuristic deciding when to take it); script length <= 6. The real-time watchdog and process restart of the harness (a go1.25.0 synctest bubble can, rarely, spin inside the runtime); script length <= 4 for the handshake and context dimensions.",
        technique="TLA+ spec + TLC exhaustive; exhaustive replay of TLC-generated cases into real code with quiescence/leak check; TLA+ monitor",
    ),
    "C15": dict(
        engine="OAuthFlow", category="model_checking",
        text=("OAuthFlow.tla models AuthorizationCodeHandler.Authorize step by step (challenge, 3 PRM locations, root-AS fallback, 5 AS-metadata locations, predefined endpoints (the outcomes at the AS-metadata locations are independent: after a fatal outcome the later locations are scripted too, and the predefined-endpoint fallback is allowed only if no document served by that server fails the issuer/PKCE/script checks - NoFallbackAfterRejected; a witness configuration in which discovery goes on after a rejection must violate it), "
              "CIMD/pre-registered/DCR registration, state and RFC 9207 checks, exchange, install) with the environment choosing the document or HTTP outcome at every fetch; TLC "
              "checks the eight C15 invariants exhaustively (95k states) and dumps the state graph. Issuer identifiers (metadata issuer, PreregisteredClient.Issuer, RFC 9207 iss) range over "
              "relation classes: exact/slash, near misses (port, scheme, userinfo, query, fragment, host suffix, extra path segment, strict path prefix, unrelated) which are mismatches, and "
              "case/trailing-dot variants which are not judged except for iss; the harness concretises each class and re-derives it from the concrete strings. A cover of every labelled edge plus seeded behaviours (quick), and every terminal "
              "behaviour of a reduced configuration plus 120k samples (thorough), are replayed on the real Authorize through a fake RoundTripper and scripted code fetcher; every "
              "observation is judged by the TLA+ monitor OAuthFlowMon. URLs range over scheme class (https, http, script-capable) x authority class (loopback, other, none) x form (hierarchical, opaque) in the challenge's resource_metadata, every URL field of protected-resource and authorization-server metadata and the registration response; the code's two checks (scheme deny-list; https-or-loopback) are modelled separately and a witness configuration without the deny-list must violate NoScriptSchemes."),
        design_ref="DESIGN.md section 6 C15",
        note="Trusted: TLC; the harness' URL classification and provenance map; the harness' issuer-relation classifier (c15Rel); finite variant sets; no TLS and no redirects; x/oauth2 sends the token request it is asked to.",
        technique="TLA+ spec + TLC exhaustive; state-graph transition cover and behaviour enumeration replayed on the real code; TLA+ monitor",
    ),
    "C16": dict(
        engine="TypedTool", category="model_checking",
        text=("An independent JSON-Schema validator and default-application semantics written in TLA+ (TypedToolDefs) are evaluated by TLC over a complete bounded family of "
              "130 411 (schema / Go type, value) cases; TLC checks the code-shaped procedure of toolForErr/applySchema against the property on every case. Every case (quick: all "
              "output, valid, boundary and reflected cases + 3000 samples; thorough: all) is executed as a real tools/call through mcp.AddTool, a real Server and a real Client, and "
              "every outcome is judged by the same TLA+ predicates. The output side also states that valid output is returned (ValidOutputReturned), over pointer Out types "
              "(*struct, *int, nil handler results) crossed with four SchemaCache arrangements (no cache, hit after an earlier registration, hit through the element-type sibling, "
              "pointer registration filling the cache). TypedToolConc.tla adds the interleaving state machine of 2-3 calls in flight on one server (invoke / produce / respond; PerCallOutput, NonInterference; a shared-scratch what-if must fail); all complete schedules (10 and 280) are pinned on the real server by handler and middleware gates in a synctest bubble and every call's structured content and text are judged against its own case."),
        design_ref="DESIGN.md section 6 C16",
        note="Trusted: TLC + CommunityModules Json; the TLA+ schema exporter; the harness' tagged-JSON codec and struct projections; the in-memory transport.",
        technique="TLA+ decision table with an independent validator; TLC-enumerated product; TLA+ monitor over real outcomes",
    ),
})

CHECKS.update({
    "C06": dict(
        engine="Lifecycle", category="model_checking",
        text=("Lifecycle.tla transcribes the session receive path (validateRequestMeta, ServerSession.handle, initialize/initialized, discover) as a step function over a "
              "833-letter message alphabet (method x per-request-meta class x initialize-params class x spelling of the member names on the wire: literal, escaped solidus, \\uXXXX - "
              "all the same JSON - x presentation of the metadata in params: exact _meta, only a case variant, exact next to a case variant supplying missing or overriding entries, duplicate "
              "exact members ending in the deciding object or in null, and the same for the entries inside _meta; Lifecycle!Carried states which metadata each presentation carries) and states C06 as eight clauses over a phase tracker that sees only messages and replies. TLC checks the clauses on the complete "
              "(state x message) table and on every core-letter sequence up to length 3 (quick) / 4 (thorough), and generates table cells, transition-cover walks, all core "
              "sequences and seeded length-8 simulations; these are replayed on a real mcp.Server with every user-visible handler instrumented (raw io pipes, in-memory, "
              "stateful streamable HTTP in process) under synctest; the TLA+ monitor LifecycleMon gives the verdict."),
        design_ref="DESIGN.md section 6 C06, 5.3",
        note="Trusted: TLC + Json module; the harness' concretisation of abstract letters and classification of replies; synctest quiescence as 'no reply'; the instrumented handler set as 'reaches server-side handlers'.",
        technique="TLA+ spec + TLC (exhaustive table, bounded sequences, simulation); sequences replayed on real sessions; TLA+ monitor",
    ),
    "C17": dict(
        engine="Paginate", category="model_checking",
        text=("Paginate.tla models the feature set with its lazily rebuilt sorted index, the keyset pagination of paginateList and the client iterator; TLC checks exactly-once, "
              "stable order, termination with an empty cursor, bad-cursor rejection and iterator = manual paging exhaustively for 5 ids, page sizes 1-3, <=2 (quick) / <=4 (thorough) "
              "mutations. Every edge of the reduced state graph is replayed on a real Server + Client for tools, prompts, resources and templates, with seeded random histories, "
              "iterator replays and thousands of issued, stale, forged and arbitrary cursor strings; every page, iterator output and cursor outcome is judged by the TLA+ monitor "
              "PaginateMon and the strict trace spec PaginateTrace; thorough adds -race. Iterator = manual paging is also checked when a visibility filter between server and client "
              "(a receiving middleware hiding a set of ids: 4 sets quick, all 32 thorough) makes pages arrive shortened or empty while still carrying a cursor; exactly-once and "
              "stable order are then judged relative to registered minus hidden."),
        design_ref="DESIGN.md section 6 C17",
        note="Trusted: TLC; projection of pages through the public API; the harness' reference codec for the cursor format (defines 'malformed'); 5 ids per server; 20 s real-time deadline for hang detection.",
        technique="TLA+ spec + TLC exhaustive; transition-cover replay and trace validation on the real server/client; seeded cursor fuzzing judged by the monitor",
    ),
})

CHECKS.update({
    "C09": dict(
        engine="StreamCli", category="model_checking",
        text=('StreamCli.tla states C09 over observations (ExactlyOnceInOrder, ResumeCursor, RealResponseWithinBudget, CleanFailure, BoundedRetries, NoTruncatedSurfaced) and models handleSSE/processStream/connectSSE/scanEvents per body and per reconnect attempt; reconnect answers are values (200, transport error, each of the transient statuses 429/500/502/503/504, non-transient 404/403/501) and the server may be stuck (every resumption 200 with a body that ends at offset 0, for ever). TLC proves the invariants and termination exhaustively for the repaired design (also against the stuck server and over the whole status class) and exports every single-cut and two-cut behaviour, a three-cut family, interleaved progress scripts, runs of 1..MaxRetries+1 empty resumed bodies (MaxRetries 1-3) with a recovering and with a stuck server, and every answer sequence over the status class. These behaviours, plus EVERY byte offset of reference SSE bodies x {read error, clean EOF}, are executed on a real Client/StreamableClientTransport with a scripted RoundTripper under synctest; the TLA+ monitor StreamCliMon judges each observation. End to end: a real Client/StreamableClientTransport and a real StreamableHTTPHandler with an event store exchange messages through a scripted in-process network (cuts at and inside events, failed or held reconnects, server-initiated stream close); StreamE2E.tla - the abstract composed model, checked exhaustively for 2 streams, <= 4 writes, <= 3 cuts, MaxRetries 2 - generates the scenarios and is run in lock step with the real execution (drift), and the monitor StreamE2EMon attributes every deviation to the server (C08.E2E.*), the client (C09.E2E.*) or both.'),
        design_ref="DESIGN.md section 6 C09, 5.5",
        note="Trusted: TLC; the scripted server's resume semantics; the harness' byte-to-class classifier (cross-checked by zero drift); the conservative reading of the retry budget; synctest quiescence. A hang = call pending after one virtual hour of a stuck server; BoundedRetries counts fruitless bodies leniently (a content-complete event at a clean EOF may count as progress).",
        technique="TLA+ spec + TLC exhaustive design check; TLC-generated fault scripts and a complete byte-offset enumeration replayed on the real client under virtual time; TLA+ monitor",
    ),
    "C19": dict(
        engine="Codec", category="exploration",
        text=("CodecDefs.tla enumerates the message, wire-shape, content-value, required-member and case-sensitivity class products and transcribes DecodeMessage (Classify) and the "
              "encode/decode rules as code-shaped expectations; TLC checks the tables' design and exports the complete products (67k cases). The Go harness concretises every class with "
              "seeded values, runs the real EncodeMessage/DecodeMessage, ioConn over pipes, writeEvent/scanEvents, the protocol types' JSON methods and real sessions, and records "
              "per-member comparison results that the TLA+ monitor CodecMon judges (RoundTrip, Preserve, CaseSensitive, RequiredPresent, NeverPanics); byte-level fidelity itself is "
              "compared in Go, classes (not all values) are exhaustive; plus seeded fuzzing of ten decoders. CodecWrite.tla is a state machine of k concurrent writers over a non-atomic io.Writer (whole frames on every plan of writers x pieces x interleaving; it must tear without the guard) whose plans are driven on the real ioConn over a gated chunking writer (FramesIntact); decode-lifetime and burst tables state that a decoded message stays intact however its input buffer is reused afterwards (Lifetime.*, BurstIntact)."),
        design_ref="DESIGN.md section 6 C19, section 7",
        note="Trusted: TLC; the harness' field-wise JSON comparator (exact numbers via big.Rat); seeded representatives per class; reader-goroutine panics surface only as a process crash.",
        technique="TLA+ decision tables enumerated by TLC; all cases replayed on the real codec and framing; TLA+ monitor; seeded decoder fuzzing",
    ),
})

_stream_note = "Trusted: TLC + CommunityModules; testing/synctest; the harness (recording ResponseWriter, store wrapper and gates, goroutine-state polling while a gate is held); MemoryEventStore honouring its contract (C20); seam-level scheduling plus gates; small-scope constants."
CHECKS.update({
    "C08": dict(
        engine="StreamSrv", category="model_checking",
        text=("StreamSrv.tla models streamableServerConn at lock granularity (routing under c.mu; store-then-deliver and replay/re-attach under the stream lock; detach; finished-stream "
              "replay) and is model-checked exhaustively for resumption exactness, dense and stable event ids, store-before-deliver and obtainability of the final response (1 session, "
              "request and standalone stream, <=3 writes, <=3 resumes, writes and replays held inside the lock, with and without priming events). TLC-generated environment scripts "
              "(transition cover, simulation) plus seeded random ones run on the real StreamableHTTPHandler under synctest; every SSE event of every exchange is judged by the TLA+ "
              "monitor StreamSrvMon against the ground-truth append order, and every recorded trace must be explained step by step by the specification. End to end: a real Client/StreamableClientTransport and a real StreamableHTTPHandler with an event store exchange messages through a scripted in-process network (cuts at and inside events, failed or held reconnects, server-initiated stream close); StreamE2E.tla - the abstract composed model, checked exhaustively for 2 streams, <= 4 writes, <= 3 cuts, MaxRetries 2 - generates the scenarios and is run in lock step with the real execution (drift), and the monitor StreamE2EMon attributes every deviation to the server (C08.E2E.*), the client (C09.E2E.*) or both."),
        design_ref="DESIGN.md section 6 C08, 5.4", note=_stream_note,
        technique="TLA+/TLC exhaustive model checking; transition-cover and simulation replay on the real handler; TLA+ monitor; strict trace validation",
    ),
    "C10": dict(
        engine="StreamSrv", category="model_checking",
        text=("Same specification with 2-3 sessions re-using JSON-RPC ids, 2 concurrent requests per session, SSE/JSON, stateful/stateless, with and without a store. TLC checks "
              "exhaustively that a response only appears on the exchange or resumed stream of its request, that nested messages go to the request stream (or the standalone stream in "
              "JSON mode or outside any request), and that nothing crosses sessions; the same replay on the real handler, monitor (C10.* clauses) and strict validation apply."),
        design_ref="DESIGN.md section 6 C10, 5.4", note=_stream_note + " Responses the SDK makes itself (untagged errors) are attributed by JSON-RPC id only.",
        technique="TLA+/TLC exhaustive model checking; replay on the real handler; TLA+ monitor; strict trace validation",
    ),
    "C11": dict(
        engine="HttpSess", category="model_checking",
        text=("The streamable HTTP session table (minting, lookup + user check, DELETE, onClose, failed-initialize cleanup, refs/idle-timer incl. the fired-but-not-run window, graceful "
              "close under a running tool, stateless mode) is an explicit TLA+ state machine whose C11 invariants TLC checks exhaustively on bounded configurations. TLC generates the "
              "histories (transition cover of the 3041-state settled graph plus seeded simulations with requests at exactly the idle deadline) that are replayed on the real "
              "StreamableHTTPHandler + auth.RequireBearerToken in virtual time; a TLA+ monitor judges every response, handler start and Server.Sessions() snapshot; every settled trace "
              "must also be a behaviour of the model. The environment includes the configured EventStore entering and leaving fault modes (SessionClosed/Append failing; every method failing): "
              "every termination path and every request on the terminated id is replayed in every store mode (edge cover of the one-session x store-mode graph; thorough also two sessions)."),
        design_ref="DESIGN.md section 6 C11, 5.6",
        note="Trusted: TLC; testing/synctest; the in-process ResponseWriter driver; the harness' id/user bookkeeping; bounds of 2-3 ids, timeout 3-4 ticks, 2-3 concurrent slow POSTs.",
        technique="TLA+ spec + TLC exhaustive; graph-cover and simulation generation; conformance replay; TLA+ monitor; strict trace validation",
    ),
    "C18": dict(
        engine="Notify", category="model_checking",
        text=("Notify.tla - the debounce timer states (incl. the fired-but-not-run window), the legacy and subscribed fan-out, the capability gate, URI subscriptions, single subscriptions/listen requests over several URIs with the SubscribeHandler refusing an environment-chosen subset (nothing of a failed request stays subscribed: SubsOnlyCurrent), ownership of list-changed subscriptions by the listen that made them, session lifecycle, "
              "and the paged client cache with a generation-checked two-step fill and two-step notification handling - is checked exhaustively by TLC for all six clauses on bounded configurations, and bound to "
              "the real mcp.Server and mcp.Client by replaying TLC-generated environment scripts (exhaustive timing-window, cache-race, subscription and several-URI-listen sets incl. a held UnsubscribeHandler, seeded simulations; the repaired defects stay as regression scenarios and as switched-off witnesses TLC must still refute) under synctest, with "
              "the TLA+ monitor NotifyMon judging the observation log; a per-step comparison of server maps, the pending-timer reference and delivery counts is reported as drift. The model also carries feature-set sizes incl. empty and where listChanged comes from (explicit entry / Has* option / inferred from the registered features) with entitlement = what the session was told at its handshake, and the cold-cache race (first call, cold again after invalidation / TTL expiry; witness ColdBump=FALSE) for one page and several."),
        design_ref="DESIGN.md section 6 C18, 5.8",
        note="Trusted: TLC; synctest's virtual clock; net.Pipe in-memory transports; the harness middleware gates and log order; the in-package state snapshot reader and the in-package call of ClientSession.subscriptionsListen for several-URI requests.",
        technique="TLA+ spec + TLC exhaustive; lead replay; scenario conformance on real sessions with a TLA+ monitor",
    ),
})

# Round 5 (DESIGN.md section 14): sentences appended to the level texts above; REPLACE replaces a text as a whole.
APPEND = {
    "C03": (" Fan-out satellite (Fanout.tla, FanoutMon): ONE goroutine executes TLC-generated programs of fan-out notifications (Client.AddRoots/RemoveRoots, "
            "Server.ResourceUpdated to legacy sessions and 2026-07-28 listen streams), per-session notifications (NotifyProgress, Log) and calls over 2-3 real "
            "sessions while the environment holds messages in the send path and makes notification handlers slow; the per-session ordering statement is checked "
            "exhaustively by TLC (2 sessions x <= 4 ops, 3 sessions x <= 3 ops), asynchronous-fan-out what-ifs must fail, and all 1 138 (thorough ~11 600) generated "
            "scenarios are pinned under synctest and judged by C03.FanoutObservedInOrder / FanoutNotificationCompletesFirst. Corner scripts keep a backlog of "
            "notifications queued at shutdown (reader end / Close / read error)."),
    "C05": (" ConnNotify.tla additionally carries an inductive invariant (transport closed only when idle and it stays idle; the epilogue never misses the idle "
            "moment) that Apalache discharges for 4 senders: a safety result unbounded in the length of behaviours."),
    "C07": (" Interleavings: NegotiateConc.tla cuts a connect into the steps at which it touches the Server (Server.Connect computes the transport's version list / "
            "first request dispatched / handler answers / client finishes and uses the session) and interleaves them in every order for 2 connections in progress on "
            "ONE Server behind pipes (with/without ProtocolVersionSupporter), SSE, stateful and stateless endpoints at once (4 200 scenarios; thorough also 3 "
            "connections, 3 585). TLC checks the five clauses per connection plus NonInterference (outcome = the one-connection table) and must find a what-if with a "
            "server-wide list violating NoModernOverLegacyTransport / Exact. Every scenario (quick: 680) is pinned with gates on one real Server and every connection "
            "is judged by the same monitor clauses on its own case. Interleavings inside a step are not enumerated."),
    "C15": (" Interleavings: OAuthFlowConc.tla models 2 (thorough: 3) Authorize calls in flight on one handler, cut into the blocks between the points where the SDK "
            "enters the environment; the environment delivers to each fetcher its own callback, another attempt's callback, a stale one or a wrong iss; TLC checks the "
            "per-attempt C15 clauses, six what-if configurations (one per-attempt datum kept in a handler cell) must each fail, and every complete 2-attempt schedule "
            "(1 694 quick / 5 792 thorough, plus ~46k sampled 3-attempt schedules) is pinned with gates on the real handler and judged per attempt by OAuthFlowConcMon."),
}
SSE_TXT = (" The legacy HTTP+SSE transport is covered by a satellite (SSESat.tla: a composed model of one or two real session pairs over SSEHandler / "
           "SSEServerTransport / SSEClientTransport and the jsonrpc2 connections on both ends, with overlapping request ids, nested calls, notifications both ways, "
           "cuts, failed POSTs, Close from either side and network holds; 7 exhaustive configurations up to 820k states, termination under weak fairness, four "
           "sensitivity leads, ten witnesses): transition covers of its seam graphs, TLC-simulated histories, 33 corner scripts and seeded random scripts run on a real "
           "mcp.Client + SSEClientTransport against a real SSEHandler + mcp.Server through a scripted RoundTripper under synctest, judged by the %s.Sse* clauses of SSESatMon.")
for _k in ("C01", "C02", "C03", "C05"):
    APPEND[_k] = APPEND.get(_k, "") + SSE_TXT % _k
APPEND["C05"] += (" The streamable-HTTP shutdown machinery is covered by a second satellite (HttpClose.tla: one real client session and one real server session over "
                  "StreamableHTTPHandler as a composed machine - session table, per-request exchanges and handlers, standalone GET / SSE goroutine with back-off, nested "
                  "calls, DELETE fates, idle timer, stateless ephemeral sessions; exhaustive safety and liveness on small constants, a recorded lead and two design "
                  "switches): transition cover of the seam graphs, -simulate histories (each compared step by step with the model's projected state), 48 hand-written races "
                  "and seeded random scripts on a real Client/StreamableClientTransport against a real Server/StreamableHTTPHandler with the two-stage drain and a goroutine "
                  "census, judged by the seven C05.Http* clauses of HttpCloseMon.")
APPEND["C09"] = (" The two budgets of MaxRetries (attempts per reconnection; resumptions in a row without a new event id) are explicit and crossed: after a resumable first "
                 "cut the environment answers each attempt refused / transient status / 200 empty / 200 with a retry-only event (bare, `event: close`+retry as the SDK server "
                 "writes it, with the resumed id) / 200 with the rest - every sequence for MaxRetries 1-2, the grid 0..MaxRetries+1 fruitless resumptions x 1..MaxRetries "
                 "failed attempts at every position for MaxRetries 2, 3 and (thorough) the default 5 with the option unset, against a server that is stuck once the script "
                 "ends; WithinBudgetsNeverFails and BoundedRetries judge them (only a new id is progress); budget-grid coverage is asserted (a missing cell is a machinery error). A reconnect may also be answered with a non-transient status whose body is a JSON-RPC error object (id of the pending call / another id / null): every call pending on that stream must still end (CleanFailure).")
APPEND["C12"] = (" Client-side histories have the tools/list listing split into request / server answer / delivery per page, list_changed delivered at any point, and the "
                 "cache generation counter transcribed (HeaderMirrorHist.tla): every history <= 6 (thorough <= 8) steps is model-checked (a cold-cache what-if without "
                 "generation bump must fail), the racy informed ones are replayed on the real client and the real stateless server with gates in the RoundTripper; Informed = "
                 "last held answer current, or notified and re-listed afterwards.")
APPEND["C19"] = (" CodecSSE.tla is a state machine of a byte stream that breaks under the reader: SSE events (8 shapes; LF, CRLF and CR line ends; comments) and "
                 "newline-delimited frames; a channel cuts the stream after every byte class and ends it with io.EOF, io.ErrUnexpectedEOF or another read error. The "
                 "specification's reader satisfies ScDelivered / ScNoGaps on every state and is chunk-independent; the code-shaped reader breaks them only in its two lead "
                 "classes; a witness reader must break them. Every (stream, cut, end) is run at every byte offset with three chunkings of the Reads on the real scanEvents, "
                 "streamableClientConn.processStream and ioConn.Read, and is judged by CodecMon.")
APPEND["C13"] = (" Transport dimension: KeepAlive.tla Part 1b tabulates 46 concrete ways a ping is answered or fails over a stream connection, the streamable HTTP "
                 "client, the streamable HTTP server pinging its client and the legacy SSE client, and what each is for the property (miss tolerated up to the threshold vs. "
                 "outcome d = connection dead / session terminated, may end at once), with grounds (property text / SDK doc / MCP spec / none = permissive); KeepAliveTr.tla "
                 "runs the same loop on all consumable class scripts <= threshold+1 (2 598 cases quick, 32 826 thorough, 307k states) and the harness plays them on real "
                 "sessions over the real StreamableClientTransport / SSEClientTransport (scripted RoundTripper), a real Server behind StreamableHTTPHandler.ServeHTTP and "
                 "scripted stream connections; KeepAliveMon takes every ping's verdict from the model's table.")
APPEND["C06"] = (" Handlers with a duration: LifecycleRun.tla adds events send(letter, held)/release(n) over a code-shaped dispatch queue (calls released before their "
                 "handler, notifications/initialize in the queue) and the clause PingAlwaysServed (every delivered legacy ping answered at the next quiescence unless a "
                 "notification/initialize handler entered earlier is still running); TLC enumerates every script (4 phase prefixes x parked message x messages sent meanwhile x "
                 "releases; 1.9k quick / ~27k thorough), refutes two what-ifs in which a feature call holds the queue, and the scripts are replayed with parked "
                 "tool/prompt/completion/notification handlers under synctest (monitor LifecycleRunMon). HTTP: LifecycleHttp.tla is the decision table endpoint/session phase x "
                 "Mcp-Protocol-Version header class x body _meta class x method (1,080 cases, header and body crossed), HHolds(c, HExpected(c)) checked by TLC, every case run in "
                 "process on stateful and stateless handlers (monitor LifecycleHttpMon). LifecycleInd.tla carries an inductive invariant over all 833 letters and unbounded "
                 "sequence length that Apalache discharges (opt-in hook, ~2 min).")
APPEND["C17"] = (" Identifiers carry a class per feature kind (size x flavour, 58 classes: tool names up to the 128-byte limit; prompt names, resource URIs and URI templates "
                 "short / 150-200 B / ~1 KB / 4-6.5 KB; percent-escapes, query strings, non-ASCII, JSON-escaped characters, template expressions) and the class of the identifier "
                 "that ended the last non-final page - the unique id inside the cursor - is a state variable; a second TLC graph (kind x page size x class map; thorough adds one "
                 "class among short identifiers at every position and page size 4) is edge-covered so that every class ends a non-final page, and is removed behind its cursor, "
                 "for every kind and page size (174 triples quick / 232 thorough, counted again in the log of the real run); the strict trace spec also pins the class of every "
                 "boundary identifier and the size range of every concrete id.")
REPLACE = {
    "C14": ("BearerDefs.tla holds the value classes, the code-shaped Expected and the declarative property Holds (iff admission, status by cause, challenge content, "
            "same token info); Bearer.tla holds the case space of 92 354 cases: the core product of 81 600 (header shapes x verifier outcomes incl. error-with-info x "
            "scope lists incl. duplicates x expiry around the skew boundary x options) plus five slices (time, header, scope-list, challenge, verifier-duration). The time slice crosses 14 expiration classes (boundary +-1 ns, "
            "hours, +-3Q, just beyond the int64-ns Duration range, year 1 / year 9999 / extreme time.Time values, zero time) with 10 skew classes (0, 1 ns, seconds, "
            "days-to-years, 3Q, MaxInt64, negative ones, MinInt64) on an exact three-scale integer arithmetic, where 'expired' means Expiration + skew before now in the "
            "integers. The header slice covers two Authorization lines and Unicode-space separators, for which only the 'only if' half is demanded. The scope slice covers "
            "look-alike and unsplit granted scopes and a duplicated required list. The challenge slice covers URL forms with query, comma and percent-escapes, read back "
            "with an RFC 9110 auth-param parser. TLC checks Holds(c, Expected(c)) on every case and that the parts are disjoint, and exports them; every case is run "
            "through the real middleware under the synctest virtual clock (frozen, except in the verifier-duration slice of 570 cases, where the scripted verifier takes d - seconds; the token's remaining life -1 ns / exactly / +1 ns; life plus seconds - so a presentation has two instants: the handler must run only if the token is unexpired within skew at the instant the handler is entered, and admission is demanded only when it is unexpired at both arrival and decision) on seeded representatives (1 for the core and 3 for the slices in quick, 4 and 24 in thorough), each "
            "checked against its class in exact arithmetic, presented twice to one middleware instance with a cached TokenInfo, and the TLA+ monitor evaluates Holds on "
            "both outcomes. Exhaustive over the abstract space in both tiers."),
}
NOTE_REPLACE = {
    "C14": ("Trusted: TLC; concretisation of the abstract classes and the challenge parser in the harness; synctest virtual clock (instants checked against multiples of d). Negative ClockSkew is judged by the "
            "documented arithmetic (rejected only if Expiration + ClockSkew is before now)."),
}
for _k, _v in REPLACE.items():
    CHECKS[_k]["text"] = _v
for _k, _v in NOTE_REPLACE.items():
    CHECKS[_k]["note"] = _v
for _k, _v in APPEND.items():
    CHECKS[_k]["text"] += _v

CHECKS["C05"]["technique"] += "; Apalache inductive invariant and TLAPS proof (all parameter values) for the notification-admission sub-model ConnNotify.tla; transport satellites (HTTP+SSE, streamable-HTTP shutdown) with their own TLA+ models, TLC runs and monitors"
for _k in ("C01", "C02", "C03"):
    CHECKS[_k]["technique"] += "; transport satellites (HTTP+SSE" + (", fan-out" if _k == "C03" else "") + (", streamable HTTP" if _k != "C01" else "") + ") with their own TLA+ models, TLC runs and monitors"
CHECKS["C04"]["technique"] += "; streamable-HTTP satellite judged by StreamSrvMon"
NOT_YET = "check not built yet in this round (planned with the same technique; see DESIGN.md section 6)"

def main():
    props = [json.loads(l) for l in open(os.path.join(VERIF, "properties.jsonl"))]
    checks, na, engines = [], [], {}
    for p in props:
        pid = p["id"]
        if pid in CHECKS and os.path.exists(os.path.join(HERE, "checks", pid.lower() + ".py")):
            c = CHECKS[pid]
            checks.append({
                "property_id": pid,
                "quick_cmd": "bin/check %s --tier quick" % pid,
                "thorough_cmd": "bin/check %s --tier thorough" % pid,
                "evidence_file": "/verif/evidence/%s.json" % pid,
                "replay_cmd_template": "bin/check %s --replay {path}" % pid,
                "engine": c["engine"],
                "level_claimed": {"category": c["category"], "text": c["text"], "design_ref": c["design_ref"]},
                "level_note": c["note"],
                "technique": c["technique"],
            })
            engines.setdefault(c["engine"], []).append(pid)
        else:
            na.append({"property_id": pid, "reason": CHECKS.get(pid, {}).get("na", NOT_YET)})
    hooks_commits = []
    hc = os.path.join(VERIF, "HOOK_COMMITS.txt")
    if os.path.exists(hc):
        hooks_commits = [l.split()[0] for l in open(hc) if l.strip() and not l.startswith("#")]
    m = {
        "version": 1,
        "setup_cmd": "bin/setup",
        "hooks": {
            "guard": "verif",
            "enable": "go test -tags verif -overlay <harness overlay> (harness _test.go files live in /verif/harness and are injected, nothing is written under /repo)",
            "baseline_off_cmd": "cd /repo && go test -json -vet=off -count=1 -timeout 25m ./...",
            "source_commits": hooks_commits,
            "add_only": True,
        },
        "engines": [{"name": k, "path": "/verif/spec/%s.tla" % k, "serves_properties": v,
                     "kind_free_text": "TLA+ specification checked with TLC; bound to the Go code by replay and trace validation"}
                    for k, v in sorted(engines.items())],
        "checks": checks,
        "notes": "All checks: exit 0 held / exit 1 VIOLATION (real-code behaviour only) / exit 2 machinery error. Known findings in KNOWN_FINDINGS.txt.",
        "not_applicable": na,
    }
    with open(os.path.join(VERIF, "MANIFEST.json"), "w") as fh:
        json.dump(m, fh, indent=1)
    print("MANIFEST: %d checks, %d not_applicable" % (len(checks), len(na)))

if __name__ == "__main__":
    main()
