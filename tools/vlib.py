"""Shared runner library for the /verif checks (Python 3 stdlib only).

Provides: scratch directories, a TLC runner with output parsing, a `go test`
runner that injects harness files into /repo packages with -overlay, ndjson
helpers, the known-findings matcher and the evidence writer.

Exit-code contract of a check (see DESIGN.md section 3):
  0  property held on everything explored (KNOWN-FINDING lines allowed)
  1  VIOLATION property=<id> replay=<path>   (only from real-code behaviour)
  2  machinery error (TLC crash, build failure, timeout, vacuity, dead driver)
"""
import json, os, re, shutil, subprocess, sys, tempfile, time, hashlib, atexit

VERIF = os.path.dirname(os.path.dirname(os.path.abspath(__file__)))
REPO = os.environ.get("VERIF_REPO", "/repo")
SPEC = os.path.join(VERIF, "spec")
HARNESS = os.path.join(VERIF, "harness")
OUT = os.path.join(VERIF, "out")
EVID = os.path.join(VERIF, "evidence")
if os.path.realpath(REPO) != "/repo":
    # a scratch copy of the repository (seeded changes): keep /verif/evidence and /verif/out/<id> for runs against /repo
    # itself, and give every scratch copy its own artefact directory so that several of them can be checked side by side
    OUT = os.path.join(OUT, "_scratch", os.path.basename(os.path.realpath(REPO)))
    EVID = os.path.join(OUT, "_scratch_evidence")
TLA_CP = "/opt/veriftools/tla/tla2tools.jar:/opt/veriftools/tla/CommunityModules-deps.jar"
NCPU = os.cpu_count() or 4


class MachineryError(Exception):
    pass


# --------------------------------------------------------------------------
# scratch

_scratch = []


def run_apalache_inductive(module, cinit, indinit, inv, init="Init", timeout=240):
    """Inductive-invariant check with Apalache (unbounded in the length of behaviours for the instance fixed by `cinit`):
    (1) Init => inv at length 0, (2) indinit /\ Next => inv' at length 1.  Returns a dict with "status":
    "proved" | "refuted" (the invariant is not inductive / does not hold initially: a MODEL-level result, never a verdict
    about the code) | "unavailable" (apalache-mc missing, timeout, tool error: reported, not fatal)."""
    exe = shutil.which("apalache-mc")
    res = {"module": module, "invariant": inv, "instance": cinit, "status": "unavailable", "wall_s": 0.0}
    if not exe:
        res["detail"] = "apalache-mc not on PATH"
        return res
    wd = scratch("apa-")
    for f in os.listdir(SPEC):
        if f.endswith(".tla"):
            shutil.copy(os.path.join(SPEC, f), wd)
    t0 = time.time()
    steps = (("base", init, 0), ("step", indinit, 1))
    for name, ini, length in steps:
        cmd = [exe, "check", "--out-dir=" + os.path.join(wd, "out"), "--cinit=" + cinit, "--init=" + ini, "--inv=" + inv,
               "--length=%d" % length, module + ".tla"]
        try:
            p = subprocess.run(cmd, cwd=wd, stdout=subprocess.PIPE, stderr=subprocess.STDOUT, timeout=timeout, text=True,
                               errors="replace", env=dict(os.environ, TMPDIR=wd))     # the launcher's mktemp litter stays in the scratch directory
        except subprocess.TimeoutExpired:
            res["detail"] = "%s: timeout after %ds" % (name, timeout)
            res["wall_s"] = round(time.time() - t0, 2)
            return res
        out = p.stdout
        if "The outcome is: NoError" in out:
            continue
        res["wall_s"] = round(time.time() - t0, 2)
        if "The outcome is: Error" in out and "violated" in out:
            res["status"] = "refuted"
            res["detail"] = "%s case: %s" % (name, " ".join(l.strip() for l in out.splitlines() if "violated" in l)[:300])
        else:
            res["detail"] = "%s case: tool error: %s" % (name, out[-300:])
        return res
    res["status"] = "proved"
    res["wall_s"] = round(time.time() - t0, 2)
    return res


def run_tlapm(module, timeout=600, threads=4):
    """Check the TLAPS proofs of SPEC/<module>.tla (parameters unbounded).  Returns a dict with "status":
    "proved" (all obligations) | "failed" (some obligation not proved: a MODEL-level result, never a verdict about the
    code) | "unavailable" (tlapm missing, timeout, tool error: reported, not fatal)."""
    exe = shutil.which("tlapm")
    res = {"module": module, "status": "unavailable", "obligations": 0, "wall_s": 0.0}
    if not exe:
        res["detail"] = "tlapm not on PATH"
        return res
    wd = scratch("tlaps-")
    for f in os.listdir(SPEC):
        if f.endswith(".tla"):
            shutil.copy(os.path.join(SPEC, f), wd)
    t0 = time.time()
    try:
        p = subprocess.run([exe, "--threads", str(threads), module + ".tla"], cwd=wd, stdout=subprocess.PIPE, stderr=subprocess.STDOUT,
                           timeout=timeout, text=True, errors="replace")
    except subprocess.TimeoutExpired:
        res["detail"] = "timeout after %ds" % timeout
        res["wall_s"] = round(time.time() - t0, 2)
        return res
    res["wall_s"] = round(time.time() - t0, 2)
    m = re.search(r"All (\d+) obligations? proved", p.stdout)
    if m:
        res["status"], res["obligations"] = "proved", int(m.group(1))
        return res
    m = re.search(r"(\d+)/(\d+) obligations? failed", p.stdout)
    if m:
        res["status"], res["obligations"] = "failed", int(m.group(2))
        res["detail"] = "%s of %s obligations failed" % (m.group(1), m.group(2))
    else:
        res["detail"] = "tool error: " + p.stdout[-300:]
    return res


def scratch(prefix="verif-"):
    d = tempfile.mkdtemp(prefix=prefix)
    _scratch.append(d)
    return d


def _cleanup():
    if os.environ.get("VERIF_KEEP"):
        return
    for d in _scratch:
        shutil.rmtree(d, ignore_errors=True)


atexit.register(_cleanup)


def outdir(pid):
    d = os.path.join(OUT, pid)
    os.makedirs(d, exist_ok=True)
    return d


# --------------------------------------------------------------------------
# TLC


class TLCResult:
    def __init__(self):
        self.ok = False
        self.violation = None  # name of violated invariant / property
        self.error = None  # other error text
        self.generated = 0
        self.distinct = 0
        self.depth = 0
        self.stdout = ""
        self.printed = []  # lines printed by PrintT that parse as JSON
        self.coverage = {}  # action -> (distinct, total)
        self.wall = 0.0
        self.postcondition_failed = False


_re_states = re.compile(r"(\d+) states generated, (\d+) distinct states found")
_re_depth = re.compile(r"depth of the complete state graph search is (\d+)")
_re_inv = re.compile(r"Invariant (\S+) is violated")
_re_prop = re.compile(r"(Temporal properties were violated|Action property (\S+) is violated|property (\S+) (?:is|was) violated)")
_re_cov = re.compile(r"^<(\w+) line \d+, col \d+ to line \d+, col \d+ of module (\w+)>: (\d+):(\d+)")


def run_tlc(module, cfg, *, workdir=None, files=(), workers=None, timeout=600, heap_gb=4,
            simulate=None, depth=None, seed=None, coverage=False, deadlock=None, extra_files=None,
            dump_json_lines=True, java_opts=(), extra_args=()):
    """Run TLC on SPEC/<module>.tla with SPEC/<cfg> in a private scratch copy.

    files / extra_files: dict name->content or list of paths to copy next to the spec
    (e.g. the ndjson trace the trace spec reads).
    """
    wd = workdir or scratch("tlc-")
    # copy all specs (small) so EXTENDS resolves
    for f in os.listdir(SPEC):
        if f.endswith(".tla") or f.endswith(".cfg"):
            shutil.copy(os.path.join(SPEC, f), wd)
    if extra_files:
        for name, src in extra_files.items():
            dst = os.path.join(wd, name)
            if isinstance(src, (bytes, str)) and not (isinstance(src, str) and os.path.exists(src)):
                mode = "wb" if isinstance(src, bytes) else "w"
                with open(dst, mode) as fh:
                    fh.write(src)
            else:
                if os.path.abspath(src) != os.path.abspath(dst):
                    shutil.copy(src, dst)
    meta = os.path.join(wd, "meta-%d" % (time.time_ns() % 10**9))
    cmd = ["java", "-XX:+UseParallelGC", "-Xss64m", "-Xmx%dg" % heap_gb]
    cmd += list(java_opts)
    cmd += ["-cp", TLA_CP, "tlc2.TLC", "-metadir", meta, "-config", cfg]
    if simulate is not None:
        cmd += ["-simulate", simulate]
        if depth:
            cmd += ["-depth", str(depth)]
    if seed is not None:
        cmd += ["-seed", str(seed)]
    cmd += ["-workers", str(workers or NCPU)]
    if coverage:
        cmd += ["-coverage", "1"]
    if deadlock is False:
        cmd += ["-deadlock"]
    cmd += list(extra_args)
    cmd += [module]
    t0 = time.time()
    res = TLCResult()
    try:
        p = subprocess.run(cmd, cwd=wd, stdout=subprocess.PIPE, stderr=subprocess.STDOUT,
                           timeout=timeout, text=True, errors="replace")
        out = p.stdout
        rc = p.returncode
    except subprocess.TimeoutExpired as e:
        out = (e.stdout or b"")
        if isinstance(out, bytes):
            out = out.decode(errors="replace")
        res.stdout = out
        res.error = "timeout after %ds" % timeout
        res.wall = time.time() - t0
        subprocess.run(["pkill", "-f", meta], check=False)
        return res
    res.wall = time.time() - t0
    res.stdout = out
    for m in _re_states.finditer(out):
        res.generated, res.distinct = int(m.group(1)), int(m.group(2))
    m = _re_depth.search(out)
    if m:
        res.depth = int(m.group(1))
    m = _re_inv.search(out)
    if m:
        res.violation = m.group(1)
    else:
        m = _re_prop.search(out)
        if m:
            res.violation = m.group(2) or m.group(3) or "temporal"
    if "Deadlock reached" in out and res.violation is None:
        res.violation = "Deadlock"
    if "The postcondition" in out and "false" in out.lower() and "postcondition" in out.lower():
        if re.search(r"(P|p)ostcondition.*(violated|false)", out):
            res.postcondition_failed = True
    if dump_json_lines:
        for line in out.splitlines():
            s = line.strip()
            if s.startswith('"') and s.endswith('"') and len(s) > 1:
                # PrintT(ToJson(x)) prints a TLA+ string: quoted, with \" escapes
                try:
                    inner = json.loads(s)
                    if isinstance(inner, str) and inner[:1] in "[{":
                        res.printed.append(json.loads(inner))
                except Exception:
                    pass
            elif s[:1] in "[{":
                try:
                    res.printed.append(json.loads(s))
                except Exception:
                    pass
    if coverage:
        for line in out.splitlines():
            m = _re_cov.match(line.strip())
            if m:
                res.coverage[m.group(1)] = (int(m.group(3)), int(m.group(4)))
    finished = "Model checking completed. No error has been found." in out or \
        (simulate is not None and rc == 0)
    if res.violation is None and not res.postcondition_failed and finished and rc == 0:
        res.ok = True
    elif res.violation is None and not res.postcondition_failed:
        # TLC error that is not a property violation
        errs = [l for l in out.splitlines() if l.startswith("Error:") or "Exception" in l]
        res.error = "; ".join(errs[:5]) or ("tlc exit %d" % rc)
    return res


def tlc_must_pass(res, what):
    if res.error:
        tail = "\n".join(res.stdout.splitlines()[-40:])
        raise MachineryError("TLC %s: %s\n%s" % (what, res.error, tail))


# --------------------------------------------------------------------------
# go test with overlay

GO_ENV = {
    "GOTOOLCHAIN": "auto",
    "GOPROXY": "off",
    "GOFLAGS": "-mod=readonly",
}


def go_binary():
    """Resolve the go command for /repo: the cached toolchain named by go.mod if present (run with
    GOTOOLCHAIN=local, so no toolchain switch and no checksum lookup is needed), else `go`."""
    try:
        txt = open(os.path.join(REPO, "go.mod")).read()
        m = re.search(r"^toolchain go(\S+)", txt, re.M) or re.search(r"^go (\S+)", txt, re.M)
        ver = m.group(1)
        if ver.count(".") == 1:
            ver += ".0"
        modcache = os.environ.get("GOMODCACHE") or os.path.expanduser("~/go/pkg/mod")
        cand = os.path.join(modcache, "golang.org", "toolchain@v0.0.1-go%s.linux-amd64" % ver, "bin", "go")
        if os.path.exists(cand):
            return cand, "local"
    except Exception:
        pass
    return "go", "auto"


def go_test(pkg, run, harness_files, *, env=None, tags="verif", timeout=900, race=False,
            extra_args=(), parallel=None, count=1, overlay_extra=None, capture=True):
    """Run `go test` in REPO/<pkg> with harness files injected through -overlay.

    harness_files: list of paths relative to HARNESS (e.g. 'mcp/c20_eventstore_test.go').
    The files are mapped into REPO/<pkg>/zz_verif_<basename>.
    Returns (returncode, output, wall).
    """
    wd = scratch("go-")
    overlay = {"Replace": {}}
    for rel in harness_files:
        src = os.path.join(HARNESS, rel)
        if not os.path.exists(src):
            raise MachineryError("missing harness file " + src)
        dst = os.path.join(REPO, pkg, "zz_verif_" + os.path.basename(rel))
        overlay["Replace"][dst] = src
    if overlay_extra:
        overlay["Replace"].update(overlay_extra)
    ov = os.path.join(wd, "overlay.json")
    with open(ov, "w") as fh:
        json.dump(overlay, fh)
    gobin, tc = go_binary()
    cmd = [gobin, "test", "-mod=readonly", "-overlay", ov, "-vet=off", "-count=%d" % count,
           "-timeout", "%ds" % timeout, "-run", run]
    if tags:
        cmd += ["-tags", tags]
    if race:
        cmd += ["-race"]
    if parallel:
        cmd += ["-parallel", str(parallel)]
    cmd += list(extra_args)
    cmd += ["./" + pkg]
    e = dict(os.environ)
    e.update(GO_ENV)
    e["GOTOOLCHAIN"] = tc
    e.pop("GOWORK", None)
    e.pop("GOSUMDB", None)
    if env:
        e.update({k: str(v) for k, v in env.items()})
    t0 = time.time()
    # The test binary is a grandchild: run everything in its own process group so that a timeout kills the binary too
    # (a synctest bubble can, rarely, spin inside the go1.25.0 runtime and then ignores -test.timeout). One retry: the
    # spin does not depend on the code under test.
    import signal
    out = ""
    for attempt in range(2):
        p = subprocess.Popen(cmd, cwd=REPO, env=e, stdout=subprocess.PIPE, stderr=subprocess.STDOUT, text=True,
                             errors="replace", start_new_session=True)
        try:
            out, _ = p.communicate(timeout=timeout + 120)
            return p.returncode, out, time.time() - t0
        except subprocess.TimeoutExpired:
            try:
                os.killpg(p.pid, signal.SIGKILL)
            except ProcessLookupError:
                pass
            try:
                out, _ = p.communicate(timeout=30)
            except Exception:
                out = ""
            out = (out or "") + "\n[verif] go test timed out (attempt %d), process group killed" % (attempt + 1)
    return 124, out, time.time() - t0


def go_must_build(rc, out, what):
    """Distinguish machinery errors (build failure) from test failures."""
    if "[build failed]" in out or "[setup failed]" in out or rc == 124:
        raise MachineryError("go %s: build/timeout failure\n%s" % (what, "\n".join(out.splitlines()[-40:])))


# --------------------------------------------------------------------------
# ndjson


def read_ndjson(path):
    rows = []
    with open(path) as fh:
        for line in fh:
            line = line.strip()
            if line:
                rows.append(json.loads(line))
    return rows


def write_ndjson(path, rows):
    with open(path, "w") as fh:
        for r in rows:
            fh.write(json.dumps(r, separators=(",", ":"), sort_keys=True))
            fh.write("\n")


def sha(obj):
    return hashlib.sha1(json.dumps(obj, sort_keys=True).encode()).hexdigest()[:12]


# --------------------------------------------------------------------------
# known findings


def load_known():
    """KNOWN_FINDINGS.txt lines:
         known: property=C02 sig=<signature> <what fails>
         fixed: property=C02 <commit> <what failed>
    """
    known = {}
    path = os.path.join(VERIF, "KNOWN_FINDINGS.txt")
    if not os.path.exists(path):
        return known
    for line in open(path):
        line = line.strip()
        m = re.match(r"known:\s+property=(\S+)\s+sig=(\S+)\s+(.*)$", line)
        if m:
            known.setdefault(m.group(1), {})[m.group(2)] = m.group(3)
    return known


# --------------------------------------------------------------------------
# verdict / evidence


class Verdict:
    """Collects violations (real-code only), known findings, drift and coverage."""

    def __init__(self, pid, tier, seed, level="model_checking"):
        self.pid, self.tier, self.seed, self.level = pid, tier, seed, level
        self.t0 = time.time()
        self.violations = []  # (sig, description, replay_obj)
        self.drift = []
        self.cov = {"states": 0, "transitions": 0, "traces_validated_against_impl": 0, "samples": [],
                    "evaluations": 0, "distinct_nontrivial": 0, "rule": "", "tlc_runs": []}
        self.assumptions = []
        self.known = load_known().get(pid, {})
        self.known_hit = {}

    def add_tlc(self, name, res):
        self.cov["states"] += res.distinct
        self.cov["transitions"] += res.generated
        self.cov["tlc_runs"].append({"config": name, "distinct": res.distinct, "generated": res.generated,
                                     "depth": res.depth, "wall_s": round(res.wall, 2),
                                     "result": "ok" if res.ok else (res.violation or res.error)})

    def violation(self, sig, desc, replay=None):
        if sig in self.known:
            if sig not in self.known_hit:
                self.known_hit[sig] = desc
            return
        self.violations.append((sig, desc, replay))

    def sample(self, s, limit=6):
        if len(self.cov["samples"]) < limit:
            self.cov["samples"].append(s)

    def finish(self):
        wall = time.time() - self.t0
        os.makedirs(EVID, exist_ok=True)
        for sig, desc in sorted(self.known_hit.items()):
            print("KNOWN-FINDING: property=%s sig=%s %s" % (self.pid, sig, self.known[sig]))
        for d in self.drift[:20]:
            print("DRIFT: property=%s %s" % (self.pid, d))
        replay_paths = []
        seen = set()
        # drop violation files of earlier runs (the file given to --replay is kept)
        import glob as _glob
        keep = os.path.abspath(os.environ.get("VERIF_REPLAY_FILE", "")) if os.environ.get("VERIF_REPLAY_FILE") else None
        for old in _glob.glob(os.path.join(outdir(self.pid), "violation-*.json")):
            if os.path.abspath(old) != keep and os.path.getmtime(old) < self.t0:
                os.remove(old)
        for sig, desc, replay in self.violations:
            if sig in seen:
                continue
            seen.add(sig)
            path = os.path.join(outdir(self.pid), "violation-%s.json" % sha([sig]))
            with open(path, "w") as fh:
                json.dump({"property": self.pid, "sig": sig, "desc": desc, "seed": self.seed,
                           "tier": self.tier, "replay": replay}, fh, indent=1, default=str)
            replay_paths.append(path)
            if len(replay_paths) <= 12:
                print("VIOLATION property=%s replay=%s" % (self.pid, path))
                print("  sig=%s %s" % (sig[:200], desc[:300]))
            elif len(replay_paths) == 13:
                print("  ... further violations are only written to %s" % outdir(self.pid))
        cov = dict(self.cov)
        if not cov["samples"]:
            cov["samples"] = ["(none)"]
        cov["known_findings_hit"] = sorted(self.known_hit)
        cov["drift"] = self.drift[:20]
        ev = {"property_id": self.pid, "tier": self.tier, "seed": self.seed, "level": self.level,
              "coverage": cov, "assumptions": self.assumptions, "wall_s": round(wall, 2),
              "violations": len(seen)}
        evdir = EVID if not self.pid.startswith("X") else os.path.join(EVID, "extra")   # X..: specification growth beyond the listed properties
        os.makedirs(evdir, exist_ok=True)
        with open(os.path.join(evdir, self.pid + ".json"), "w") as fh:
            json.dump(ev, fh, indent=1, default=str)
        return 1 if seen else 0


def parse_args(argv):
    import argparse
    ap = argparse.ArgumentParser()
    ap.add_argument("pid")
    ap.add_argument("--tier", default=os.environ.get("VERIF_TIER", "quick"))
    ap.add_argument("--replay", default=None)
    a = ap.parse_args(argv)
    seed = int(os.environ.get("VERIF_SEED", "1") or "1")
    if a.tier not in ("quick", "thorough"):
        a.tier = "quick"
    if a.replay:
        os.environ["VERIF_REPLAY_FILE"] = a.replay
    return a.pid, a.tier, seed, a.replay


# --------------------------------------------------------------------------
# monitors and strict trace validation over an observation log


def run_monitor(module, cfg, obs_path, *, timeout=900, heap_gb=6):
    """Evaluate a TLA+ monitor over obs_path. Returns (fails, res) where fails is a list of
    {"monfail": inv, "line": l} (1-based line numbers in obs_path). Raises MachineryError when
    the monitor did not consume the whole log."""
    res = run_tlc(module, cfg, extra_files={"obs.ndjson": obs_path}, workers=1, timeout=timeout, heap_gb=heap_gb)
    fails = [p for p in res.printed if isinstance(p, dict) and "monfail" in p]
    hwm = [p for p in res.printed if isinstance(p, dict) and "hwm" in p]
    if res.error or hwm or res.violation or not res.ok:
        tail = "\n".join(res.stdout.splitlines()[-30:])
        raise MachineryError("monitor %s did not consume the log (%s %s %s)\n%s" % (module, res.error, hwm, res.violation, tail))
    return fails, res


def run_strict(module, cfg, obs_path, *, timeout=900, heap_gb=6, workers=1, java_opts=()):
    """Strict trace validation. Returns (accepted, hwm_line, res). hwm_line is the 1-based index of
    the first line that could not be explained (None when accepted)."""
    res = run_tlc(module, cfg, extra_files={"obs.ndjson": obs_path}, workers=workers, timeout=timeout,
                  heap_gb=heap_gb, java_opts=java_opts)
    hwm = [p for p in res.printed if isinstance(p, dict) and "hwm" in p]
    if res.ok and not hwm:
        return True, None, res
    if hwm:
        return False, hwm[0]["hwm"], res
    if res.violation:
        return False, -1, res
    tail = "\n".join(res.stdout.splitlines()[-30:])
    raise MachineryError("strict %s failed to run: %s\n%s" % (module, res.error, tail))


def split_traces(rows):
    """Split an observation log at reset lines. Returns list of (trace_id, first_line_no, rows)."""
    out, cur, cur_id, start = [], None, None, 0
    for i, r in enumerate(rows, 1):
        if r.get("ev") == "reset":
            if cur is not None:
                out.append((cur_id, start, cur))
            cur, cur_id, start = [r], r.get("trace", "?"), i
        else:
            if cur is None:
                cur, cur_id, start = [], "?", i
            cur.append(r)
    if cur is not None:
        out.append((cur_id, start, cur))
    return out


def trace_of_line(traces, line):
    for tid, start, rows in traces:
        if start <= line < start + len(rows):
            return tid, start, rows
    return None, None, None
