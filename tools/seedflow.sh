#!/bin/bash
# tools/seedflow.sh <seed_id> [<PID> ...]: confirm a delivered seeded change from /tmp/seed5/out/<seed_id>, then run the
# property's own check (and any further ones named) against it; log under /tmp/seed5/log/
s=$1; shift
pid=${s%%-*}
mkdir -p /tmp/seed5/log
cd /verif
python3 tools/seeded.py confirm /tmp/seed5/out/$s $s > /tmp/seed5/log/$s.confirm 2>&1
if grep -q '^CONFIRMED' /tmp/seed5/log/$s.confirm; then
  python3 tools/seeded.py detect $s $pid "$@" > /tmp/seed5/log/$s.detect 2>&1
  echo "$s confirmed; detect: $(jq -c 'to_entries|map({(.key): [.value.exit, .value.violations, (.value.first_sigs[0]//""|.[0:90])]})' /tmp/seed5/log/$s.detect 2>/dev/null | head -c 400)" >> /tmp/seed5/log/SUMMARY
else
  echo "$s NOT CONFIRMED: $(tr '\n' ' ' < /tmp/seed5/log/$s.confirm | tail -c 400)" >> /tmp/seed5/log/SUMMARY
fi
