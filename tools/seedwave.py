#!/usr/bin/env python3
"""tools/seedwave.py <first_m> <ID> [<ID>...]: one scratch worktree of /repo and one prompt file per property under /tmp/seed5
(the prompt holds only the property record; nothing from /verif)."""
import json, os, subprocess, sys
HERE = os.path.dirname(os.path.abspath(__file__))
BASE = "/tmp/seed5"
KINDS = {2: "one should need a particular interleaving or a fault / crash at a particular point; the other a multi-step sequence, an "
            "unusual input or configuration, or two cooperating sites in a code path that is NOT the most obvious one for this property."}
def main():
    k0 = int(sys.argv[1]); ids = sys.argv[2:]
    props = {json.loads(l)["id"]: json.loads(l) for l in open(os.path.join(HERE, "..", "properties.jsonl"))}
    tmpl = open(os.path.join(HERE, "SEED_PROMPT.md")).read()
    os.makedirs(BASE + "/out", exist_ok=True)
    for pid in ids:
        wt = "%s/wt-%s" % (BASE, pid)
        if not os.path.exists(wt):
            subprocess.check_call(["git", "-C", "/repo", "worktree", "add", "-q", "--detach", wt, "HEAD"])
        n = 2
        outs = ["  %s/out/%s-m%d" % (BASE, pid, k0 + i) for i in range(n)]
        p = props[pid]
        rec = {k: p[k] for k in ("id", "title", "statement", "quantifier", "why_tests_cant", "anchors") if k in p}
        txt = (tmpl.replace("{WT}", wt).replace("{PROPERTY}", json.dumps(rec, indent=1)).replace("{N}", str(n))
               .replace("{KINDS}", KINDS[n]).replace("{OUTDIRS}", "\n".join(outs)).replace("{ID}", pid))
        open("%s/prompt-%s.txt" % (BASE, pid), "w").write(txt)
        print(pid, wt)
main()
