"""Wire part of C02: request shapes / id echo / batches on the ndjson transport (spec/WireDefs.tla)."""
import json, os
import vlib


def sig_of(clause, e):
    c = e["c"]
    if c["t"] == "httpbatch":
        return "httpbatch[%s]%s:%s:status=%s,answered=%s" % (",".join(c["members"]), "/json" if c.get("json") else "", clause, e.get("status"), e.get("answered"))
    if c["t"] == "httpshape":
        return "httpshape=%s,%s,%s%s:%s:status=%s,count=%d,code=%d" % (c["method"], c["idc"] if c["hasId"] else "noid", c["params"], "/json" if c.get("json") else "", clause, e.get("status"), e["count"], e["code"])
    if c["t"] == "batch":
        what = {"BatchNeverFailsConnection": "teardown", "BatchReplyWhenAllAnswered": "no-flush" if not e["flushes"] else "wrong-flush",
                "BatchReplyComplete": "incomplete", "BatchNoStrayResponses": "stray", "NoCrash": "panic",
                "BatchIdsReusable": "id-not-reusable", "BatchInOrder": "out-of-order"}.get(clause, clause)
        return "batch[%s]:%s" % (",".join(c["members"]), what)
    if clause == "ExactlyOneSameId" and e["count"] == 0 and e["otherResp"] == 1:
        return "id-class=%s:altered" % c["idc"]
    return "shape=%s,%s,%s:%s:count=%d,code=%d" % (c["method"], c["idc"] if c["hasId"] else "noid", c["params"], clause, e["count"], e["code"])


# clauses of the wire monitor that belong to C03 (in-order dispatch); everything else is C02
ORDER_CLAUSES = {"BatchInOrder"}


def run_wire(v, tier, seed, replay_case=None, only_order=False):
    """only_order: run the batch cases only and report the in-order clause (C03); otherwise everything but that clause (C02)."""
    out = vlib.outdir(v.pid)
    wd = vlib.scratch("tlc-")
    cfg = "Wire_quick.cfg" if tier == "quick" else "Wire_thorough.cfg"
    res = vlib.run_tlc("Wire", cfg, workdir=wd, workers=1, timeout=900)
    vlib.tlc_must_pass(res, "Wire")
    if not res.ok:
        raise vlib.MachineryError("Wire.tla evaluation failed: %s" % (res.violation or res.stdout[-1500:]))
    info = [p for p in res.printed if isinstance(p, dict) and "shapes" in p][0]
    v.add_tlc("Wire(enumerate %s)" % cfg, res)
    v.cov["wire_cases"] = info
    cases = os.path.join(out, "wire_cases.ndjson")
    if replay_case is not None:
        vlib.write_ndjson(cases, [replay_case])
    else:
        os.replace(os.path.join(wd, "cases.ndjson"), cases)
    if replay_case is None and only_order:
        vlib.write_ndjson(cases, [c for c in vlib.read_ndjson(cases) if c["t"] == "batch"])
    elif replay_case is None:
        # the streamable HTTP cases run in the same harness pass
        with open(cases, "a") as fh:
            fh.write(open(os.path.join(wd, "httpcases.ndjson")).read())
    ncases = sum(1 for _ in open(cases))
    obs = os.path.join(out, "wire_obs.ndjson")
    rc, gout, wall = vlib.go_test("mcp", "^TestVerif_C02Wire$", ["mcp/c02_wire_test.go"],
                                  env={"VERIF_IN": cases, "VERIF_OUT": obs, "VERIF_SEED": seed}, timeout=1500)
    vlib.go_must_build(rc, gout, "C02 wire")
    if rc != 0:
        raise vlib.MachineryError("C02 wire harness failed:\n" + gout[-3000:])
    rows = vlib.read_ndjson(obs)
    if len(rows) != ncases:
        raise vlib.MachineryError("wire harness ran %d of %d cases" % (len(rows), ncases))
    fails, mres = vlib.run_monitor("WireMon", "WireMon.cfg", obs)
    v.add_tlc("WireMon", mres)
    for f in fails:
        e = rows[f["line"] - 1]
        if (f["monfail"] in ORDER_CLAUSES) != only_order and f["monfail"] != "NoCrash":
            v.cov.setdefault("wire_other_property_clauses_failed", {})
            v.cov["wire_other_property_clauses_failed"][f["monfail"]] = v.cov["wire_other_property_clauses_failed"].get(f["monfail"], 0) + 1
            continue
        if f["monfail"] == "drift":
            v.drift.append("wire outcome differs from WireDefs!Expected: %s -> %s" % (json.dumps(e["c"]), json.dumps({k: e[k] for k in ("count", "otherResp", "code", "alive", "flushes", "singles")})))
        else:
            v.violation(sig_of(f["monfail"], e), "wire clause %s fails on the real server: sent %s" % (f["monfail"], e.get("sent", "")[:200]),
                        {"wire_case": e["c"], "obs": e})
    v.cov["wire_cases_run"] = len(rows)
    v.cov["wire_exhaustive"] = replay_case is None
    for r in rows[:: max(1, len(rows) // 3)][:3]:
        v.sample({"wire_case": r["c"], "count": r["count"], "code": r["code"], "flushes": r["flushes"]})
    return rows
