"""Wire part shared by C01/C02/C03 on the ndjson transport (spec/WireDefs.tla): request shapes / id echo / batches incl. the
timing of id re-use (C02), in-order handling of batch members (C03), reply framings of the SDK's own calls (C01)."""
import json, os, random
import vlib


def sig_of(clause, e):
    c = e["c"]
    if c["t"] == "httpbatch":
        return "httpbatch[%s]%s:%s:status=%s,answered=%s%s" % (",".join(c["members"]), "/json" if c.get("json") else "", clause, e.get("status"), e.get("answered"), ",post-hangs" if e.get("hung") else "")
    if c["t"] == "httpshape":
        return "httpshape=%s,%s,%s%s:%s:status=%s,count=%d,code=%d%s" % (c["method"], c["idc"] if c["hasId"] else "noid", c["params"], "/json" if c.get("json") else "", clause, e.get("status"), e["count"], e["code"], ",post-hangs" if e.get("hung") else "")
    if c["t"] == "framing":
        fr = "+".join(("[%s]" % ",".join(f["items"])) if f["arr"] else f["items"][0] for f in c["frames"])
        what = clause
        if clause == "CompletesAnyFraming":
            what = "blocked=" + ",".join(str(i + 1) for i, x in enumerate(e["outcome"]) if x == "blocked")
        elif clause == "OwnResponseAnyFraming":
            what = "not-own=" + ",".join("%d:%s" % (i + 1, x) for i, x in enumerate(e["outcome"]) if x not in ("own", "blocked"))
        elif clause == "FramedCallAnswered":
            what = "peer-call-answers=%d,other=%d" % (e["qAnswers"], e["qOther"])
        return "framing:%s:%d:%s:%s" % (c["side"], c["ncalls"], fr, what)
    if c["t"] == "batch":
        what = {"BatchNeverFailsConnection": "teardown", "BatchReplyWhenAllAnswered": "no-flush" if not e["flushes"] else "wrong-flush",
                "BatchReplyComplete": "incomplete", "BatchNoStrayResponses": "stray", "NoCrash": "panic",
                "BatchIdsReusable": "id-not-reusable", "BatchInOrder": "out-of-order"}.get(clause, clause)
        if clause == "BatchIdsReusable" and c.get("reuse") == "received":
            what += "@reply-received-write-not-returned"
        return "batch[%s]:%s" % (",".join(c["members"]), what)
    if clause == "ExactlyOneSameId" and e["count"] == 0 and e["otherResp"] == 1:
        return "id-class=%s:altered" % c["idc"]
    return "shape=%s,%s,%s:%s:count=%d,code=%d" % (c["method"], c["idc"] if c["hasId"] else "noid", c["params"], clause, e["count"], e["code"])


# attribution of the clauses of the wire monitor: in-order dispatch is C03, completion of the SDK's own calls is C01,
# everything else is C02
ORDER_CLAUSES = {"BatchInOrder"}
CALL_CLAUSES = {"CompletesAnyFraming", "OwnResponseAnyFraming"}


def part_of(clause):
    return "C03" if clause in ORDER_CLAUSES else "C01" if clause in CALL_CLAUSES else "C02"


def has_item(c, item):
    return any(item in f["items"] for f in c["frames"])


def pick_framings(rows, part, tier, seed):
    """The framing cases a part runs.  C01: every framing (thorough); quick: every framing for <= 2 calls, every
    framing of 3 bare responses, and a seeded sample of the 3-call framings with a notification / a call mixed in.
    C02: the framings that contain a call to the SDK side (the space was enumerated for fewer calls, see frame_calls)."""
    if part == "C02":
        return [c for c in rows if has_item(c, "q")], True
    if tier != "quick":
        return rows, True
    keep = [c for c in rows if c["ncalls"] <= 2 or not (has_item(c, "q") or has_item(c, "n"))]
    rest = [c for c in rows if not (c["ncalls"] <= 2 or not (has_item(c, "q") or has_item(c, "n")))]
    rnd = random.Random(seed)
    return keep + rnd.sample(rest, min(len(rest), 1200)), False


def frame_calls(part, tier):
    return {"C01": 3, "C02": 1 if tier == "quick" else 2, "C03": 0}[part]


def run_wire(v, tier, seed, replay_case=None, only_order=False, part=None):
    """part C03 (= only_order): the batch cases only, reporting the in-order clause; part C01: the reply framings, reporting
    the clauses on the SDK's own calls; part C02: shapes, batches, streamable HTTP and the framings that hold a call to the
    SDK side, reporting every other clause."""
    part = part or ("C03" if only_order else "C02")
    if part not in ("C01", "C02", "C03"):
        part = "C02"
    only_order = part == "C03"
    out = vlib.outdir(v.pid)
    wd = vlib.scratch("tlc-")
    base = "Wire_quick.cfg" if tier == "quick" else "Wire_thorough.cfg"
    # the configuration of this part: the batch bound of the tier (none for C01), the framing bound of the part
    cfgtxt = open(os.path.join(vlib.SPEC, base)).read()
    maxbatch = 0 if part == "C01" else int(cfgtxt.split("MaxBatch =")[1].split()[0])
    cfg = "Wire_%s_%s.cfg" % (part, tier)
    res = vlib.run_tlc("Wire", cfg, workdir=wd, workers=1, timeout=900,
                       extra_files={cfg: "CONSTANT MaxBatch = %d\nCONSTANT FrameCalls = %d\n" % (maxbatch, frame_calls(part, tier))})
    vlib.tlc_must_pass(res, "Wire")
    if not res.ok:
        raise vlib.MachineryError("Wire.tla evaluation failed: %s" % (res.violation or res.stdout[-1500:]))
    info = [p for p in res.printed if isinstance(p, dict) and "shapes" in p][0]
    if info["shapeLeads"] or info["batchLeads"] or info["framingLeads"] or info["reuseLeads"]:
        raise vlib.MachineryError("Wire.tla: the code-shaped design breaks a clause of the property: %s" % info)
    v.add_tlc("Wire(enumerate %s)" % cfg, res)
    v.cov["wire_cases"] = info
    cases = os.path.join(out, "wire_cases.ndjson")
    sampled = False
    if replay_case is not None:
        vlib.write_ndjson(cases, [replay_case])
    else:
        frows, complete = ([], True) if only_order else pick_framings(vlib.read_ndjson(os.path.join(wd, "framecases.ndjson")), part, tier, seed)
        sampled = not complete
        if part == "C01":
            rows = frows
        elif only_order:
            # the timing of a later re-use of the ids does not bear on the order in which the members are handled
            rows = [c for c in vlib.read_ndjson(os.path.join(wd, "cases.ndjson")) if c["t"] == "batch" and c["reuse"] == "returned"]
        else:
            # the streamable HTTP cases run in the same harness pass
            rows = vlib.read_ndjson(os.path.join(wd, "cases.ndjson")) + vlib.read_ndjson(os.path.join(wd, "httpcases.ndjson")) + frows
        vlib.write_ndjson(cases, rows)
        if not only_order:
            v.cov["wire_framings"] = {"enumerated": info["framings"], "run": len(frows),
                                      "complete_for_calls_up_to": frame_calls(part, tier) if complete else 2}
    ncases = sum(1 for _ in open(cases))
    obs = os.path.join(out, "wire_obs.ndjson")
    rc, gout, wall = vlib.go_test("mcp", "^TestVerif_C02Wire$", ["mcp/c02_wire_test.go"],
                                  env={"VERIF_IN": cases, "VERIF_OUT": obs, "VERIF_SEED": seed}, timeout=1500)
    vlib.go_must_build(rc, gout, "C02 wire")
    if rc != 0:
        import re
        m = re.search(r"^(panic: .*|fatal error: .*)$", gout, re.M)
        sdk_frame = re.search(r"go-sdk/(mcp|internal/\w+|jsonrpc|auth|oauthex)\.", gout) and re.search(r"/(mcp|internal/\w+)/[a-z_0-9]+\.go:\d+", gout)
        if m and sdk_frame and "test timed out" not in gout:
            # the SDK crashed the process (a panic on one of its own goroutines): real-code behaviour, attributed to the case in flight
            inflight = {}
            try:
                inflight = json.loads(open(obs + ".progress").read().split("\n")[0])
            except Exception:
                pass
            v.violation("crash:%s[%s]:%s" % (inflight.get("t", "?"), ",".join(inflight.get("members") or []) or inflight.get("method", ""), m.group(1)[:60]),
                        "the SDK crashed the process while wire case %s was in flight: %s" % (json.dumps(inflight)[:300], m.group(1)[:200]),
                        {"wire_case": inflight, "output": gout[-3000:]})
            return []
        raise vlib.MachineryError("C02 wire harness failed:\n" + gout[-3000:])
    rows = vlib.read_ndjson(obs)
    if len(rows) != ncases:
        raise vlib.MachineryError("wire harness ran %d of %d cases" % (len(rows), ncases))
    fails, mres = vlib.run_monitor("WireMon", "WireMon.cfg", obs)
    v.add_tlc("WireMon", mres)
    nper = {}
    for f in fails:
        e = rows[f["line"] - 1]
        if f["monfail"] == "drift" and part != "C03":
            pass
        elif part_of(f["monfail"]) != part and f["monfail"] != "NoCrash":
            v.cov.setdefault("wire_other_property_clauses_failed", {})
            v.cov["wire_other_property_clauses_failed"][f["monfail"]] = v.cov["wire_other_property_clauses_failed"].get(f["monfail"], 0) + 1
            continue
        if f["monfail"] == "drift":
            keys = ("outcome", "doneAfter", "notifs", "qAnswers", "qOther", "alive") if e["c"]["t"] == "framing" else ("count", "otherResp", "code", "alive", "flushes", "singles")
            v.drift.append("wire outcome differs from WireDefs!Expected: %s -> %s" % (json.dumps(e["c"]), json.dumps({k: e[k] for k in keys})))
        else:
            # one broken mechanism fails hundreds of enumerated cases: the first 30 per clause become violations
            # (known findings are always matched), the rest is counted
            sig = sig_of(f["monfail"], e)
            if sig not in v.known:
                nper[f["monfail"]] = nper.get(f["monfail"], 0) + 1
                if nper[f["monfail"]] > 30:
                    v.cov["wire_further_failing_cases"] = v.cov.get("wire_further_failing_cases", 0) + 1
                    continue
            v.violation(sig, "wire clause %s fails on the real %s: sent %s %s" % (f["monfail"], (e["c"].get("side") or "server") + " session", e.get("sent", "")[:200].replace("\n", " // "), e.get("detail", "")[:200]),
                        {"wire_case": e["c"], "obs": e})
    v.cov["wire_cases_run"] = len(rows)
    v.cov["wire_exhaustive"] = replay_case is None and not sampled
    # the window "reply received, Write not returned" must really have been pinned by the harness
    window = [r for r in rows if r["c"]["t"] == "batch" and r["c"].get("reuse") == "received"]
    if window:
        v.cov["wire_reuse_inside_write_window"] = sum(1 for r in window if r.get("reuseHeld"))
        if not v.cov["wire_reuse_inside_write_window"]:
            raise vlib.MachineryError("wire harness: no batch reply was held inside Write (%d cases ask for it)" % len(window))
    for r in rows[:: max(1, len(rows) // 3)][:3]:
        v.sample({"wire_case": r["c"], "outcome": r["outcome"], "doneAfter": r["doneAfter"]} if r["c"]["t"] == "framing" else
                 {"wire_case": r["c"], "count": r["count"], "code": r["code"], "flushes": r["flushes"]})
    return rows
