#!/usr/bin/env python3
"""Seeded-change workflow.
  tools/seeded.py confirm <src_dir> <seed_id>       confirm a sub-agent's change (build, vet, full tests pass; demo fails with / passes
                                                     without) in a scratch copy of /repo and store it under /verif/seeded/<seed_id>/
  tools/seeded.py detect <seed_id> <PID> [<PID>...]  apply the stored patch to a scratch copy and run the given checks (quick tier)
"""
import json, os, re, shutil, subprocess, sys, tempfile, time
HERE = os.path.dirname(os.path.abspath(__file__))
sys.path.insert(0, HERE)
import vlib

SEEDED = os.path.join(vlib.VERIF, "seeded")


def sh(cmd, cwd, timeout=1500, env=None):
    e = dict(os.environ)
    e.pop("VERIF_REPO", None)
    if env:
        e.update(env)
    p = subprocess.run(cmd, cwd=cwd, shell=True, stdout=subprocess.PIPE, stderr=subprocess.STDOUT, text=True, timeout=timeout, env=e)
    return p.returncode, p.stdout


def scratch_repo():
    d = tempfile.mkdtemp(prefix="repo-seed-")
    shutil.rmtree(d)
    shutil.copytree("/repo", d, symlinks=True)
    sh("git checkout -q -- . && git clean -fdq", d)
    return d


def demo_pkg(demo_path, meta=None):
    """Package directory the demonstration has to be copied into: named in its header comment (or meta.json),
    otherwise derived from its package clause."""
    txt = open(demo_path).read()
    blob = txt[:3000] + " " + json.dumps(meta or {})
    for pat in (r"(?:copy|copied|copying)\b[^\n]{0,60}?\binto\b[^\n]{0,40}?`?((?:mcp|auth|oauthex|jsonrpc|internal/[\w/]+))/?`?",
                r"\binto `?((?:mcp|auth|oauthex|jsonrpc|internal/[\w/]+))/`?"):
        m = re.search(pat, blob)
        if m:
            return m.group(1).strip("/")
    m = re.search(r"^package\s+(\w+)", txt, re.M)
    pk = (m.group(1) if m else "mcp").replace("_test", "")
    return {"mcp": "mcp", "auth": "auth", "oauthex": "oauthex", "jsonrpc2": "internal/jsonrpc2", "authutil": "internal/authutil", "jsonrpc": "jsonrpc"}.get(pk, "mcp")


def confirm(src, seed_id):
    patch = os.path.join(src, "patch.diff")
    demo = os.path.join(src, "demo_test.go")
    meta = json.load(open(os.path.join(src, "meta.json"))) if os.path.exists(os.path.join(src, "meta.json")) else {}
    repo = scratch_repo()
    res = {"confirmed_at_repo_commit": sh("git rev-parse --short HEAD", "/repo")[1].strip()}
    try:
        pkg = demo_pkg(demo, meta)
        tests = re.findall(r"^func (Test\w+)\(", open(demo).read(), re.M)
        run = "^(" + "|".join(tests) + ")$"
        dst = os.path.join(repo, pkg, "zz_seed_demo_test.go")
        gobin, tc = vlib.go_binary()
        env = {"GOTOOLCHAIN": tc, "GOFLAGS": "-mod=readonly", "GOPROXY": "off"}
        # without the change: demo passes
        shutil.copy(demo, dst)
        rc0, out0 = sh("%s test -vet=off -count=3 -run '%s' ./%s" % (gobin, run, pkg), repo, env=env)
        res["demo_without_change"] = "pass" if rc0 == 0 else "FAIL"
        os.remove(dst)
        rc, out = sh("git apply --whitespace=nowarn %s" % patch, repo)
        if rc != 0:
            res["apply"] = "FAILED: " + out[-300:]
            return res, False
        res["apply"] = "ok"
        rc, out = sh("%s build ./... && %s vet ./mcp ./internal/... ./auth ./oauthex" % (gobin, gobin), repo, env=env)
        res["build_vet"] = "ok" if rc == 0 else "FAILED: " + out[-300:]
        rc, out = sh("%s test -vet=off -count=1 ./... 2>&1 | grep -v 'no test files'" % gobin, repo, env=env, timeout=2400)
        failed = [l for l in out.splitlines() if l.startswith("FAIL") or l.startswith("--- FAIL")]
        if failed:  # flaky under load? once more
            rc, out = sh("%s test -vet=off -count=1 ./... 2>&1 | grep -v 'no test files'" % gobin, repo, env=env, timeout=2400)
            failed = [l for l in out.splitlines() if l.startswith("FAIL") or l.startswith("--- FAIL")]
        if failed:
            # load-dependent flakes of the repository's own suite (they also fail on the unchanged tree under load): a test
            # that failed in both full runs is re-run ALONE three times with the change; it must pass every time
            names = sorted(set(re.findall(r"^--- FAIL: (Test\w+)", out, re.M)))
            alone_ok = bool(names)
            for nme in names:
                rca, outa = sh("%s test -vet=off -count=3 -run '^%s$' ./... 2>&1 | grep -v 'no test files'" % (gobin, nme), repo, env=env, timeout=1200)
                if rca != 0 or "FAIL" in outa:
                    alone_ok = False
            if alone_ok:
                res["existing_tests_note"] = "failed under load in two full runs, pass alone x3 with the change: " + ", ".join(names)
                failed = []
        res["existing_tests_with_change"] = "pass" if not failed else "FAIL: " + "; ".join(failed[:5])
        shutil.copy(demo, dst)
        rc1, out1 = sh("%s test -vet=off -count=3 -run '%s' ./%s" % (gobin, run, pkg), repo, env=env)
        res["demo_with_change"] = "fail" if rc1 != 0 else "PASSES (not a demonstration)"
        ok = (rc0 == 0 and rc1 != 0 and res["build_vet"] == "ok" and not failed)
    finally:
        shutil.rmtree(repo, ignore_errors=True)
    if ok:
        d = os.path.join(SEEDED, seed_id)
        os.makedirs(d, exist_ok=True)
        shutil.copy(patch, os.path.join(d, "patch.diff"))
        shutil.copy(demo, os.path.join(d, "demo_test.go"))
        meta["confirmed"] = res
        meta["demo_package"] = pkg
        json.dump(meta, open(os.path.join(d, "meta.json"), "w"), indent=1)
    return res, ok


def detect(seed_id, pids, tier="quick"):
    d = os.path.join(SEEDED, seed_id)
    repo = scratch_repo()
    results = {}
    try:
        rc, out = sh("git apply --whitespace=nowarn %s" % os.path.join(d, "patch.diff"), repo)
        if rc != 0:
            return {"apply": "FAILED " + out[-200:]}
        for pid in pids:
            t0 = time.time()
            rc, out = sh("bin/check %s --tier %s" % (pid, tier), vlib.VERIF, env={"VERIF_REPO": repo}, timeout=3000)
            viol = [l for l in out.splitlines() if l.startswith("VIOLATION")]
            sigs = [l.strip()[:160] for l in out.splitlines() if l.strip().startswith("sig=")]
            drift = sum(1 for l in out.splitlines() if l.startswith("DRIFT"))
            mach = [l[:200] for l in out.splitlines() if l.startswith("MACHINERY")]
            results[pid] = {"exit": rc, "violations": len(viol), "first_sigs": sigs[:3], "drift_lines": drift, "machinery": mach[:1],
                            "wall_s": round(time.time() - t0, 1)}
    finally:
        shutil.rmtree(repo, ignore_errors=True)
    mp = os.path.join(d, "meta.json")
    meta = json.load(open(mp))
    meta.setdefault("detection", {}).update(results)
    json.dump(meta, open(mp, "w"), indent=1)
    return results


def table():
    """Markdown table of every seeded change: what it needs and which check catches it (from meta.json)."""
    import glob
    rows = ["| seeded change | breaks / needs | caught by |", "|---|---|---|"]
    for d in sorted(glob.glob(os.path.join(SEEDED, "*"))):
        mp = os.path.join(d, "meta.json")
        if not os.path.exists(mp):
            continue
        m = json.load(open(mp))
        det = m.get("detection", {})
        caught = []
        missed = []
        for pid, r in sorted(det.items()):
            if not isinstance(r, dict):
                continue
            if r.get("exit") == 1:
                sig = (r.get("first_sigs") or [""])[0]
                sig = sig.replace("sig=", "").split(" ")[0][:70]
                caught.append("%s (`%s`)" % (pid, sig.replace("|", "/")))
            else:
                missed.append(pid)
        own = os.path.basename(d).split("-")[0]
        if caught:
            res = "; ".join(caught)
        elif m.get("detection_note"):
            res = "**not caught** — " + m["detection_note"]
        else:
            res = "**not caught**"
        if own in missed and caught:
            res += " (own check %s misses it)" % own
        title = (m.get("title") or "").replace("|", "/").strip()
        needs = (m.get("needs_to_manifest") or "").replace("|", "/").replace("\n", " ").strip()
        if len(needs) > 220:
            needs = needs[:217] + "..."
        rows.append("| %s %s | %s | %s |" % (os.path.basename(d), title[:110], needs, res))
    return "\n".join(rows)


if __name__ == "__main__":
    if sys.argv[1] == "table":
        print(table())
    elif sys.argv[1] == "confirm":
        r, ok = confirm(sys.argv[2], sys.argv[3])
        print(json.dumps(r, indent=1)); print("CONFIRMED" if ok else "NOT CONFIRMED")
    elif sys.argv[1] == "detect":
        print(json.dumps(detect(sys.argv[2], sys.argv[3:]), indent=1))
