"""Modern pair scenarios for C05 (spec/PairSub.tla generates the application scripts, spec/PairSubMon.tla judges):
a real 2026-07-28 ClientSession and a real ServerSession over the in-memory transport, with subscriptions/listen
streams (resource subscriptions, list-changed) and transports whose writes start failing midway.
Shaped like conncheck.run_pair."""
import os, random, re, tempfile
import vlib

HARNESS_FILES = ["mcp/conn_harness_test.go", "mcp/conn_pairsub_test.go"]

# hand-written: longer than the enumeration bound, each names the situation it is about
HAND = [
    # the cancellation of an open listen stream cannot be written while the read side stays alive, then Close
    ("pairsub.listenCancelWriteFails.lc.err", [["setup", "lc"], ["cwfail", "err"], ["cclose", "c1"]]),
    ("pairsub.listenCancelWriteFails.lc.rej", [["setup", "lc"], ["cwfail", "rej"], ["cclose", "c1"]]),
    ("pairsub.listenCancelWriteFails.sub.rej", [["setup", "nolc"], ["csub", "u1"], ["csub", "u2"], ["cwfail", "rej"], ["cunsub", "u1"], ["cclose", "c1"]]),
    # Close of the server while a tool handler runs and listens are parked; traffic goes on
    ("pairsub.serverCloseBusy", [["setup", "lc"], ["csub", "u1"], ["ccall", "k1"], ["sclose", "s1"], ["csub", "u2"], ["supd", "u1"], ["sadd", "x"], ["rel", "k1"]]),
    ("pairsub.clientCloseBusy", [["setup", "lc"], ["csub", "u1"], ["ccall", "k1"], ["cclose", "c1"], ["supd", "u1"], ["sadd", "x"], ["csub", "u2"], ["rel", "k1"]]),
    # notifications arrive at a closing client whose cancellations were lost
    ("pairsub.closingClientGetsNotifications", [["setup", "lc"], ["csub", "u1"], ["ccall", "k1"], ["cwfail", "rej"], ["cclose", "c1"], ["supd", "u1"], ["sadd", "x"], ["rel", "k1"]]),
    # both sides close, the server cannot write, the handler is released last
    ("pairsub.bothCloseServerMute", [["setup", "lc"], ["csub", "u1"], ["ccall", "k1"], ["swfail", "err"], ["sclose", "s1"], ["cclose", "c1"], ["rel", "k1"]]),
    ("pairsub.bothCloseServerRefuses", [["setup", "lc"], ["csub", "u1"], ["ccall", "k1"], ["swfail", "rej"], ["cclose", "c1"], ["sclose", "s1"], ["rel", "k1"]]),
    ("pairsub.resubscribeThenVanish", [["setup", "nolc"], ["csub", "u1"], ["cunsub", "u1"], ["csub", "u1"], ["supd", "u1"], ["cpeergone"], ["cclose", "c1"]]),
]


def compact(steps):
    """Compact form of a script for signatures: op[:arg] joined by commas."""
    return ",".join(":".join(str(x) for x in s[:2]) if s[0] in ("setup", "csub", "cunsub", "supd", "cwfail", "swfail") else s[0] for s in steps)


def class_of(clause, steps, event):
    """Failures that are identified by their abstract class alone (one known-finding line covers them), else None.
    A Subscribe issued on a client session after its Close has begun parks a watcher goroutine
    (callSubscriptionsListen.func1) that nothing cancels any more; every script with a csub after cclose shows it."""
    if clause == "C05.PairSubNoLeakAfterClose":
        ops = [s[0] for s in steps]
        left = event.get("goroutines") or []
        if "cclose" in ops and "csub" in ops[ops.index("cclose"):] and left and all(g.endswith("mcp.callSubscriptionsListen.func1") for g in left):
            return "class:csub-after-cclose"
    return None


def enumerate_scripts(v, tier, seed):
    def tlc(cfg):
        wd = tempfile.mkdtemp(prefix="pairsub-")
        vlib._scratch.append(wd)
        res = vlib.run_tlc("PairSub", cfg, workers=4, timeout=900, heap_gb=6, workdir=wd)
        vlib.tlc_must_pass(res, cfg)
        if not res.ok:
            raise vlib.MachineryError("PairSub %s: %s" % (cfg, res.violation or res.error))
        v.add_tlc(cfg + "(enumerate application scripts, modern pair)", res)
        out = [p["steps"] for p in res.printed if isinstance(p, dict) and "steps" in p]
        if not out:
            raise vlib.MachineryError("PairSub produced no scripts with " + cfg)
        return sorted(out)
    if tier == "quick":
        scripts = tlc("PairSub_quick.cfg")
        # plus a seeded sample of the thorough tier's (deeper) scripts
        deep = tlc("PairSub_thorough.cfg")
        have = {repr(s) for s in scripts}
        deep = [s for s in deep if repr(s) not in have]
        rnd = random.Random(seed)
        extra = rnd.sample(deep, min(QUICK_SAMPLE, len(deep)))
        v.cov["pairsub_sampled_from_thorough"] = len(extra)
        return scripts + extra
    return tlc("PairSub_thorough.cfg")


QUICK_SAMPLE = 1500


def run_pairsub(v, pid, tier, seed, replay_steps=None):
    out = vlib.outdir(pid)
    scen = os.path.join(out, "pairsub_scenarios.ndjson")
    if replay_steps is not None:
        rows = [{"id": "replay", "steps": replay_steps}]
    else:
        rows = [{"id": "pairsub%d" % i, "steps": s} for i, s in enumerate(enumerate_scripts(v, tier, seed))]
        rows += [{"id": i, "steps": s} for i, s in HAND]
    vlib.write_ndjson(scen, rows)
    obs = os.path.join(out, "pairsub_obs.ndjson")
    if os.path.exists(obs):
        os.remove(obs)
    env = {"VERIF_IN": scen, "VERIF_OUT": obs, "VERIF_SEED": seed, "VERIF_CS": "0"}
    if os.environ.get("VERIF_DEBUG_STACK"):
        env["VERIF_DEBUG_STACK"] = os.environ["VERIF_DEBUG_STACK"]
    rc, gout, wall = vlib.go_test("mcp", "^TestVerif_ConnPairSub$", HARNESS_FILES, env=env, timeout=600)
    vlib.go_must_build(rc, gout, pid + " pairsub")
    orows = []
    if os.path.exists(obs):
        for line in open(obs):
            try:
                orows.append(__import__("json").loads(line))
            except ValueError:
                break  # last line cut short by a crash of the test process
    if rc != 0 and not any(r.get("ev") == "panic" for r in orows):
        m = re.search(r"^(panic: .*|fatal error: .*)$", gout, re.M)
        if m and "go-sdk" in gout and orows:
            # the SDK crashed the test process (a panic in one of its goroutines cannot be recovered by the harness):
            # real-code behaviour, attributed to the script in flight
            orows.append({"ev": "panic", "msg": m.group(1)[:300], "where": "process crash", "seq": 0, "t": 0})
        else:
            raise vlib.MachineryError("pairsub harness failed:\n" + gout[-3000:])
    vlib.write_ndjson(obs, orows)
    v.cov["pairsub_go_test_wall_s"] = round(wall, 1)
    fails, mres = vlib.run_monitor("PairSubMon", "PairSubMon.cfg", obs, timeout=1800, heap_gb=8)
    v.add_tlc("PairSubMon", mres)
    traces = vlib.split_traces(orows)
    by_id = {r["id"]: r for r in rows}
    other = {}
    for f in fails:
        clause = f["monfail"]
        tid, start, trows = vlib.trace_of_line(traces, f["line"])
        if clause.startswith(pid + ".") or clause.startswith("X."):
            steps = by_id.get(tid, {}).get("steps", [])
            sig = "%s:pairsub/%s" % (clause, class_of(clause, steps, orows[f["line"] - 1]) or compact(steps))
            v.violation(sig, "%s failed on a real modern client/server pair (trace %s)" % (clause, tid), {"pairsub_steps": steps})
        else:
            other[clause] = other.get(clause, 0) + 1
    ran = {tid for tid, _, trs in traces if any(r.get("ev") == "final" for r in trs)}
    if replay_steps is None and len(ran) < len(rows) and not any(r.get("ev") == "panic" for r in orows):
        raise vlib.MachineryError("pairsub: only %d of %d scripts ran to the end" % (len(ran), len(rows)))
    v.cov["pairsub_scenarios"] = len(traces)
    v.cov["pairsub_other_property_clauses_failed"] = other
    v.cov["pairsub_failed_writes"] = sum(1 for r in orows if r.get("ev") == "wr.fail")
    v.cov["pairsub_listen_streams_opened"] = sum(1 for r in orows if r.get("ev") == "h.sub") + sum(1 for r in orows if r.get("ev") == "ready" and r.get("lc"))
    v.cov["evaluations"] = v.cov.get("evaluations", 0) + sum(len(r["steps"]) for r in rows)
    v.cov["traces_validated_against_impl"] = v.cov.get("traces_validated_against_impl", 0) + len(traces)
    v.cov["distinct_nontrivial"] = v.cov.get("distinct_nontrivial", 0) + len(traces)
    return traces
