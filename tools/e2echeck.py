"""END-TO-END part of C08 and C09: a real mcp.Client + StreamableClientTransport against a real
StreamableHTTPHandler + mcp.Server with an event store, through an in-process RoundTripper the scenario controls.

  spec/StreamE2E.tla      abstract composed model (ground truth per stream, client cursor, deliveries, retry budget);
                          TLC checks ExactlyOnceInOrder / CallCompletes / NoCrossStream ... exhaustively on small constants
  spec/StreamE2EMC.tla    constant sets of the configurations;   spec/StreamE2EGen.tla  the same actions with a history
  spec/StreamE2EMon.tla   the monitor: clauses C08.E2E.* (what the server owes), C09.E2E.* (what the client owes), both
                          prefixes for what cannot be attributed; runs the model along the executed steps (drift)
  harness/mcp/c09_e2e_test.go   the real code under testing/synctest

`run_e2e(v, pid, tier, seed, replay_scn=None)` adds violations / drift / coverage for pid in {"C08", "C09"} to an existing
vlib.Verdict (modelled on satellite() in tools/checks/c08.py): files in vlib.outdir(pid) with prefix "e2e_", replay
object key "e2e_scenario"."""
import json, os, random, re, threading, time
import vlib, graphwalk

HARNESS = ["mcp/c09_e2e_test.go"]
VERS_PRIME = "2025-11-25"
VERS_NOPRIME = ["2025-06-18", "2025-03-26"]
MR = 2
INVS = ("TypeOK ExactlyOnceInOrder WholeAtRest CallCompletes NoCrossStream BrokenOnlyWhenExhausted DrainedWhole NoDeadEnd")
WITNESSES = ["W_NoReplay", "W_NoGiveUpAttempts", "W_NoGiveUpNoProgress", "W_NoUnresumable", "W_NoOkAfterCuts", "W_NoRefail",
             "W_NoNestedReplayed"]

MC = {"quick": ["StreamE2E_mc_q.cfg"],
      "thorough": ["StreamE2E_mc_t1.cfg", "StreamE2E_mc_t2.cfg", "StreamE2E_mc_t3.cfg"]}
# (config, prime?, at most so many paths of the transition cover are run - a seeded sample when there are more)
COVER = {"quick": [("StreamE2E_cover_rp.cfg", True, 110), ("StreamE2E_cover_rn.cfg", False, 110),
                   ("StreamE2E_cover_sp.cfg", True, 110), ("StreamE2E_cover_sn.cfg", False, 110)],
         "thorough": [("StreamE2E_cover_rp.cfg", True, None), ("StreamE2E_cover_rn.cfg", False, None),
                      ("StreamE2E_cover_sp.cfg", True, 2200), ("StreamE2E_cover_sn.cfg", False, 2200),
                      ("StreamE2E_cover_tp.cfg", True, 1200), ("StreamE2E_cover_tn.cfg", False, 1200)]}

# hand-written scenarios: the shapes the bounded generators reach only with luck
CORNERS = [
    # two resumptions of one stream, with a write while detached and a live event in between (seeded change C09-m1)
    ("recut-after-replay", "call|r1 emit|r1 arm|r1|0|bnd|eof emit|r1 rok|r1 emit|r1 arm|r1|0|bnd|err emit|r1 rok|r1 ret|r1"),
    ("recut-after-replay-sa", "emit|sa arm|sa|0|bnd|err emit|sa emit|sa rok|sa emit|sa arm|sa|0|bnd|eof emit|sa rok|sa emit|sa"),
    ("three-resumptions", "call|r1 arm|r1|0|bnd|eof emit|r1 rok|r1 emit|r1 arm|r1|0|bnd|eof emit|r1 emit|r1 rok|r1 emit|r1 "
                          "arm|r1|0|bnd|err emit|r1 rok|r1 emit|r1 ret|r1"),
    # a cut in the middle of a replay, then the rest
    ("cut-mid-replay", "call|r1 emit|r1 arm|r1|0|bnd|eof emit|r1 emit|r1 emit|r1 arm|r1|1|bnd|err rok|r1 rok|r1 ret|r1"),
    ("cut-mid-replay-inside", "call|r1 emit|r1 arm|r1|0|bnd|err emit|r1 emit|r1 arm|r1|1|in|err rok|r1 emit|r1 rok|r1 ret|r1"),
    ("cut-mid-replay-sa", "emit|sa emit|sa arm|sa|0|bnd|eof emit|sa emit|sa emit|sa arm|sa|2|in|err rok|sa rok|sa emit|sa"),
    # the response written while nobody is attached; resumption of a finished stream, cut again
    ("response-while-detached", "call|r1 emit|r1 arm|r1|0|bnd|eof emit|r1 ret|r1 rok|r1"),
    ("finished-stream-recut", "call|r1 emit|r1 arm|r1|0|bnd|eof emit|r1 emit|r1 ret|r1 arm|r1|1|bnd|eof rok|r1 arm|r1|1|in|err rok|r1 rok|r1"),
    ("cut-after-response-event", "call|r1 emit|r1 arm|r1|1|bnd|eof ret|r1"),
    ("cut-inside-response", "call|r1 emit|r1 arm|r1|0|in|err ret|r1 rok|r1"),
    # nested server->client requests across a cut
    ("nested-request-replayed", "call|r1 arm|r1|0|bnd|err sreq|r1 rok|r1 emit|r1 sreq|r1 arm|r1|0|bnd|eof rok|r1 ret|r1"),
    ("nested-request-cut-inside", "call|r1 emit|r1 arm|r1|0|in|err sreq|r1 rfail|r1|503 rok|r1 ret|r1"),
    # the server notices the disconnect late: its next write fails on the dead connection
    ("late-notice-write-fails", "call|r1 emit|r1 arm|r1|0|bnd|eofL emit|r1 emit|r1 rok|r1 emit|r1 arm|r1|0|bnd|errL ret|r1 rok|r1"),
    ("late-notice-sa", "emit|sa arm|sa|0|bnd|errL emit|sa emit|sa rfail|sa|terr rok|sa emit|sa"),
    # the retry budget: attempts of one reconnect, bodies without progress
    ("one-failed-attempt-each", "call|r1 emit|r1 arm|r1|0|bnd|eof rfail|r1|503 rok|r1 emit|r1 arm|r1|0|bnd|err rfail|r1|terr rok|r1 "
                                "emit|r1 arm|r1|0|bnd|eof rfail|r1|429 rok|r1 ret|r1"),
    ("attempts-exhausted", "call|r1 emit|r1 arm|r1|0|bnd|eof rfail|r1|500 rfail|r1|terr"),
    ("session-gone", "call|r1 emit|r1 arm|r1|0|bnd|err rfail|r1|404"),
    ("no-progress-thrice", "call|r1 emit|r1 arm|r1|0|bnd|eof emit|r1 arm|r1|0|bnd|eof rok|r1 arm|r1|0|bnd|err rok|r1 arm|r1|0|bnd|eof rok|r1"),
    ("no-progress-twice-then-progress", "call|r1 emit|r1 arm|r1|0|bnd|eof emit|r1 arm|r1|0|bnd|eof rok|r1 arm|r1|0|in|err rok|r1 rok|r1 "
                                        "arm|r1|0|bnd|eof rok|r1 ret|r1"),
    ("no-progress-interleaved", "call|r1 emit|r1 arm|r1|0|bnd|eof emit|r1 arm|r1|0|bnd|eof rok|r1 arm|r1|0|bnd|err rok|r1 rok|r1 emit|r1 "
                                "arm|r1|0|bnd|eof emit|r1 arm|r1|0|bnd|eof rok|r1 rok|r1 ret|r1"),
    ("no-progress-interleaved-sa", "emit|sa arm|sa|0|bnd|err emit|sa arm|sa|0|bnd|eof rok|sa arm|sa|0|in|err rok|sa rok|sa emit|sa "
                                   "arm|sa|0|bnd|eof emit|sa arm|sa|0|bnd|err rok|sa rok|sa emit|sa"),
    ("headerless-resumption-lost", "call|r1 emit|r1 arm|r1|0|bnd|eof rok|r1 arm|r1|0|bnd|err rok|r1 emit|r1 ret|r1"),
    # the handler closes its own stream (CloseSSEStream): the client comes back with its cursor
    ("server-closes-stream", "call|r1 emit|r1 sclose|r1 emit|r1 rok|r1 emit|r1 sclose|r1 rfail|r1|503 rok|r1 ret|r1"),
    ("server-closes-stream-at-once", "call|r1 sclose|r1 emit|r1 rok|r1 sclose|r1 ret|r1 rok|r1"),
    # before the first id
    ("cut-before-first-event", "arm|r1|0|bnd|eof call|r1 emit|r1 ret|r1"),
    ("cut-inside-first-event", "arm|r1|0|in|err call|r1 emit|r1 ret|r1"),
    ("standalone-cut-before-first", "arm|sa|0|in|err emit|sa emit|sa rok|sa emit|sa"),
    # two calls and the standalone stream interleaved
    ("two-calls-interleaved", "call|r1 call|r2 emit|r1 emit|r2 arm|r1|0|bnd|eof emit|sa emit|r1 arm|r2|1|in|err emit|r2 emit|r2 "
                              "rok|r2 rok|r1 arm|sa|0|bnd|err emit|sa ret|r2 rok|sa ret|r1"),
    ("two-calls-one-gives-up", "call|r1 call|r2 emit|r1 arm|r2|0|bnd|eof emit|r2 rok|r2 arm|r1|0|bnd|err rfail|r1|503 emit|r2 rok|r1 ret|r1 ret|r2"),
]


def steps_of(text):
    return [s.split("|") for s in text.split()]


def mk_scenario(sid, prime, steps, rnd):
    return {"id": sid, "version": VERS_PRIME if prime else rnd.choice(VERS_NOPRIME), "mr": MR, "steps": steps}


def label_step(name, a):
    if name == "Call":
        return ["call", a[0]]
    if name == "ServerWrite":
        return ["sreq" if a[1] == "q" else "emit", a[0]]
    if name == "HandlerReturn":
        return ["ret", a[0]]
    if name == "Cut":
        return ["arm", a[0], str(a[1]), a[2], a[3]]
    if name == "ReconnectFails":
        return ["rfail", a[0], str(a[1])]
    if name == "ReconnectOk":
        return ["rok", a[0]]
    if name == "ServerClose":
        return ["sclose", a[0]]
    raise vlib.MachineryError("unknown action label %s" % name)


def run_jobs(jobs, budget):
    """jobs: (name, workers, callable). Never more than `budget` TLC workers at once."""
    results, errs, cond, used = {}, [], threading.Condition(), [0]

    def one(name, w, fn):
        with cond:
            while used[0] + w > budget:
                cond.wait()
            used[0] += w
        try:
            results[name] = fn()
        except Exception as ex:   # re-raised by the caller
            errs.append(ex)
        finally:
            with cond:
                used[0] -= w
                cond.notify_all()
    ths = [threading.Thread(target=one, args=j) for j in jobs]
    [t.start() for t in ths]
    return ths, results, errs


def cover_paths(cfgname, seed):
    wd = vlib.scratch("tlc-")
    dot = os.path.join(wd, "g.dot")
    res = vlib.run_tlc("StreamE2EMC", cfgname, workdir=wd, workers=2, timeout=900, heap_gb=4,
                       extra_args=["-dump", "dot,actionlabels", dot])
    vlib.tlc_must_pass(res, cfgname)
    init, edges = graphwalk.parse_dot(dot)
    os.remove(dot)
    paths, total = graphwalk.cover(init, edges, maxlen=18, seed=seed)
    return res, paths, total, len(edges)


def simulate(cfgname, num, depth, seed):
    res = vlib.run_tlc("StreamE2EGen", cfgname, workers=1, timeout=900, heap_gb=3, simulate="num=%d" % num, depth=depth, seed=seed)
    if res.error or res.violation:
        raise vlib.MachineryError("StreamE2EGen simulation failed: %s %s\n%s" % (res.error, res.violation, res.stdout[-1500:]))
    m = re.search(r"The number of states generated: (\d+)", res.stdout)
    if m:
        res.generated = res.distinct = int(m.group(1))
    beh, last = [], None
    for p in res.printed:
        if not isinstance(p, dict) or "steps" not in p:
            continue
        if last is not None and (len(p["steps"]) <= len(last["steps"]) or p["steps"][:len(last["steps"])] != last["steps"]):
            beh.append(last)
        last = p
    if last is not None:
        beh.append(last)
    return res, beh


def random_scenario(rnd, i):
    """seeded scripts beyond the model's bounds (more writes, more cuts, three calls); steps that do not apply are skipped by
    the harness and by the model alike"""
    streams = ["r1", "sa"] + (["r2"] if rnd.random() < .5 else []) + (["r3"] if rnd.random() < .15 else [])
    reqs = [s for s in streams if s != "sa"]
    steps, called = [], set()
    n = 8 + rnd.randrange(22)
    while len(steps) < n:
        k = rnd.randrange(20)
        s = rnd.choice(streams)
        if k < 2:
            r = rnd.choice(reqs)
            if r not in called:
                called.add(r)
                steps.append(["call", r])
        elif k < 8:
            steps.append(["emit", s])
        elif k < 9 and s != "sa":
            steps.append(["sreq", s])
        elif k < 13:
            mode = rnd.choice(["bnd", "bnd", "in"])
            how = rnd.choice(["err", "errL"] if mode == "in" else ["eof", "err", "eofL", "errL"])
            steps.append(["arm", s, str(rnd.choice([0, 0, 0, 1, 1, 2, 3])), mode, how])
        elif k < 16:
            steps.append(["rok", s])
        elif k < 17:
            steps.append(["rfail", s, rnd.choice(["terr", "503", "500", "429", "502", "504"])])
        elif k < 18 and s != "sa" and s in called:
            steps.append(["ret", s])
        elif k < 19 and s != "sa" and s in called:
            steps.append(["sclose", s])
    return mk_scenario("rand%d" % i, rnd.random() < .5, steps, rnd)


# --------------------------------------------------------------------------


def steps_of_trace(trows):
    out = []
    for r in trows:
        if r.get("ev") == "step":
            out.append([r.get("op")] + [r.get(k) for k in ("a1", "a2", "a3", "a4") if r.get(k) not in (None, "")])
        elif r.get("ev") == "script.end":
            break
    return out


def signature(clause, trows, upto, e):
    """<clause>:<prime|noprime>:<req|sa>:<effect>:resumes=<successful resumptions of that stream before the failure>.
    Labelling only (the verdict is the monitor's): effect says what went wrong with the stream's deliveries."""
    head = trows[0] if trows else {}
    before = trows[:upto + 1]
    wr, rd, wire = {}, {}, {}
    for r in before[:-1] if e.get("ev") == "c.rd" else before:
        ev = r.get("ev")
        if ev == "h.emit":
            wr.setdefault(r["s"], []).append(r["tag"])
        elif ev == "c.rd" and r.get("kind") in ("n", "q", "resp"):
            rd.setdefault(r["s"], []).append(r["tag"])
        elif ev == "x.ev" and r.get("kind") != "prime":
            wire.setdefault(r["s"], []).append(r["tag"])
    s = e.get("s") or e.get("r") or ""
    effect = ""
    name = clause.split(".")[-1]
    if e.get("ev") == "quiesce":
        # the stream the clause is about: the first one whose deliveries are not the whole of what was written / received
        ref = wire if name in ("DeliverOnce", "HandlerSeesOnce") else wr
        bad = [x for x in sorted(set(wr) | set(rd)) if rd.get(x, []) != ref.get(x, [])]
        calls = {r["r"]: "pending" for r in before if r.get("ev") == "call.begin"}
        calls.update({r["r"]: r["outcome"] for r in before if r.get("ev") == "call.end"})
        if name == "CallCompletes":
            bad = [r for r in sorted(calls) if calls[r] == "pending"]
            effect = "hang"
        elif name in ("ExactlyOnceInOrder", "DeliverOnce"):
            effect = "incomplete"
            if bad and len(set(rd.get(bad[0], []))) < len(rd.get(bad[0], [])):
                effect = "dup"
        s = bad[0] if bad else ""
    elif e.get("ev") == "c.rd" and name in ("ExactlyOnceInOrder", "DeliverOnce"):
        ref = wire if name == "DeliverOnce" else wr
        tag = e.get("tag")
        effect = "dup" if tag in rd.get(s, []) else ("gap" if tag in ref.get(s, []) else "alien")
    elif e.get("ev") == "call.end":
        effect = "result=" + str(e.get("outcome"))
    elif e.get("ev") == "x.ev":
        x = next((r for r in before if r.get("ev") == "x.begin" and r.get("x") == e.get("x")), {})
        effect = "on-resumed-exchange" if x.get("kind") == "get" else "on-first-exchange"
    resumes = sum(1 for r in before if r.get("ev") == "rc.dec" and r.get("d") == "ok" and r.get("s") == s)
    kind = "sa" if s == "sa" else ("req" if s else "any")
    return ":".join(x for x in (clause, "prime" if head.get("prime") else "noprime", kind, effect, "resumes=%d" % min(resumes, 3)) if x)


def run_e2e(v, pid, tier, seed, replay_scn=None, design=True):
    """Adds the end-to-end violations of property pid (clauses prefixed pid + ".E2E.") to v; returns the traces.
    design=False skips the exhaustive TLC checks of the model (experiments with changed code only)."""
    assert pid in ("C08", "C09")
    v.assumptions += [
        "e2e: seam-level scheduling - between two environment actions both SDK halves run to quiescence (two virtual minutes, then "
        "every goroutine blocked); ground truth per stream = the order of the server-side emits (one write at a time per stream)",
        "e2e: a cut ends the client's read of that response body (clean EOF or read error, at an event boundary or - read error only - "
        "inside an event) and makes the server's writes to that exchange fail; the server's request context ends at once, or (how = "
        "eofL/errL) at its next failed write or when the client's reconnect is let through; a clean EOF inside an event is left to "
        "the C09 check (recorded findings)",
        "e2e: every reconnect GET is held by the RoundTripper until the scenario answers it (transport error, 429/500/503, 404, or "
        "let through to the real handler); MaxRetries = %d" % MR,
        "e2e: the retry budget is read conservatively for the verdict - the real result / the whole stream is owed unless, in the "
        "stretch without progress the client was in when it gave up, a reconnect had seen MaxRetries failed attempts, or MaxRetries "
        "bodies in a row had ended without a new event id, or a reconnect was answered with a non-transient status; the exact "
        "boundary is StreamE2E.tla's and is compared as drift",
        "e2e: TLC exhaustive results are for 2 streams (one call + the standalone stream, or two calls), <= 4 writes, <= 3 cuts, "
        "<= 3 failed attempts, MaxRetries 2",
    ]
    out = vlib.outdir(pid)
    rnd = random.Random(seed * 15485863 + int(pid[1:]))
    t0 = time.time()
    cov = {}
    ths, results, errs = [], {}, []
    rows = []
    if replay_scn is not None:
        rows = [replay_scn]
    else:
        # 1. design: exhaustive check of the composed model; lead: the model tells the seeded renumbering bug apart;
        #    witnesses.  Started now, joined before the verdict (they do not feed the replay).
        jobs = []
        for cfg in (MC[tier] if design else []):
            jobs.append(("mc:" + cfg, 4 if tier == "thorough" else 3,
                         (lambda c: lambda: vlib.run_tlc("StreamE2EMC", c, workers=4 if tier == "thorough" else 3, timeout=1500,
                                                         heap_gb=6 if tier == "thorough" else 3))(cfg)))
        if design:
            jobs.append(("lead", 1, lambda: vlib.run_tlc("StreamE2EMC", "StreamE2E_lead.cfg", workers=1, timeout=600, heap_gb=2)))
        if tier == "thorough" and design:
            base = open(os.path.join(vlib.SPEC, "StreamE2E_wit.cfg")).read()
            for w in WITNESSES:
                jobs.append(("wit:" + w, 1, (lambda w: lambda: vlib.run_tlc(
                    "StreamE2EMC", "wit.cfg", workdir=vlib.scratch("tlc-"), workers=1, timeout=600, heap_gb=2,
                    extra_files={"wit.cfg": base + "\nINVARIANT %s\n" % w}))(w)))
        ths, results, errs = run_jobs(jobs, 6 if tier == "thorough" else 5)
        try:
            # 2. scenarios generated by TLC from the model
            nsim = 140 if tier == "quick" else 2500
            gths, gres, gerrs = run_jobs(
                [("cov:" + c, 2, (lambda c: lambda: cover_paths(c, seed))(c)) for (c, _, _) in COVER[tier]] +
                [("sim", 1, lambda: simulate("StreamE2E_gen.cfg", nsim, 26, seed))], 5)
            [t.join() for t in gths]
            if gerrs:
                raise gerrs[0]
            for i, (c, prime, limit) in enumerate(COVER[tier]):
                res, paths, total, nodes = gres["cov:" + c]
                v.add_tlc(c + "(e2e state graph)", res)
                cov["graph_edges"] = cov.get("graph_edges", 0) + total
                cov["graph_nodes"] = cov.get("graph_nodes", 0) + nodes
                cov["cover_paths_total"] = cov.get("cover_paths_total", 0) + len(paths)
                if limit is not None and len(paths) > limit:
                    paths = rnd.sample(paths, limit)
                for j, p in enumerate(paths):
                    rows.append(mk_scenario("cov%d.%d" % (i, j), prime, [label_step(n, a) for (n, a) in p], rnd))
            cov["cover_scenarios_run"] = len(rows)
            cov["cover_complete"] = cov["cover_scenarios_run"] == cov["cover_paths_total"]
            res, beh = gres["sim"]
            v.add_tlc("StreamE2E_gen.cfg(simulate)", res)
            seen = set()
            for i, b in enumerate(beh):
                key = json.dumps(b, sort_keys=True)
                if key in seen:
                    continue
                seen.add(key)
                rows.append(mk_scenario("sim%d" % i, bool(b["prime"]), b["steps"], rnd))
            cov["simulated_scenarios"] = len(seen)
            for name, text in CORNERS:
                for prime in (True, False):
                    rows.append(mk_scenario("corner-%s-%s" % (name, "p" if prime else "n"), prime, steps_of(text), rnd))
            for i in range(60 if tier == "quick" else 1500):
                rows.append(random_scenario(rnd, i))
        except Exception:
            [t.join() for t in ths]
            raise
    t_gen = time.time() - t0

    # 3. the real code
    scen = os.path.join(out, "e2e_scenarios.ndjson")
    vlib.write_ndjson(scen, rows)
    obs = os.path.join(out, "e2e_obs.ndjson")
    for f in (obs, obs + ".progress"):
        if os.path.exists(f):
            os.remove(f)
    try:
        rc, gout, wall = vlib.go_test("mcp", "^TestVerif_E2E$", HARNESS, timeout=1500,
                                      env={"VERIF_IN": scen, "VERIF_OUT": obs, "VERIF_SEED": seed})
        vlib.go_must_build(rc, gout, pid + " e2e")
    except Exception:
        [t.join() for t in ths]
        raise
    orows = vlib.read_ndjson(obs) if os.path.exists(obs) else []
    by_id = {r["id"]: r for r in rows}
    if rc != 0:
        [t.join() for t in ths]
        if "panic:" in gout or "fatal error:" in gout:
            last = None
            if os.path.exists(obs + ".progress"):
                lines = open(obs + ".progress").read().splitlines()
                last = json.loads(lines[-1]) if lines else None
            v.violation("%s.E2E.NoPanic:process" % pid, "the SDK panicked while an end-to-end scenario was running",
                        {"e2e_scenario": last, "output": gout[-4000:]})
            return []
        raise vlib.MachineryError("E2E harness failed:\n" + gout[-3000:])
    if os.path.exists(obs + ".progress"):
        os.remove(obs + ".progress")
    if not orows:
        raise vlib.MachineryError("E2E harness produced no observations:\n" + gout[-2000:])
    t_go = time.time() - t0 - t_gen

    # 4. the monitor: the verdict
    try:
        fails, mres = vlib.run_monitor("StreamE2EMon", "StreamE2EMon.cfg", obs, timeout=1800, heap_gb=8)
    finally:
        [t.join() for t in ths]
    v.add_tlc("StreamE2EMon", mres)
    traces = vlib.split_traces(orows)
    other, drift, nviol = {}, 0, 0
    seen_sig, first_of = {}, set()
    for f in fails:
        clause = f["monfail"]
        tid, start, trows = vlib.trace_of_line(traces, f["line"])
        e = orows[f["line"] - 1]
        if clause == "X.CloseStuck":
            # the scenario has been judged by then; noted, the run goes on
            v.drift.append("e2e trace %s: ClientSession.Close had not returned one virtual hour after the scenario's end" % tid)
            continue
        if clause.startswith("X."):
            raise vlib.MachineryError("e2e harness sanity clause %s failed in trace %s at line %d: %s" % (clause, tid, f["line"], json.dumps(e)[:300]))
        if clause == "drift":
            drift += 1
            v.drift.append("e2e trace %s: after step %s the real code and StreamE2E.tla differ: %s" % (
                tid, [e.get(k) for k in ("op", "a1", "a2", "a3", "a4", "applied")], json.dumps(e.get("snap"))[:240]))
            continue
        if not clause.startswith(pid + "."):
            other[clause] = other.get(clause, 0) + 1
            continue
        fk = (tid, clause, e.get("s") or e.get("r") or "")
        if fk in first_of:
            continue
        first_of.add(fk)
        sig = signature(clause, trows, f["line"] - start, e)
        k = seen_sig.setdefault(sig, [0, clause, tid, e, f["line"], len(trows)])
        k[0] += 1
        if len(trows) < k[5]:   # report the shortest scenario of the class
            k[1:] = [clause, tid, e, f["line"], len(trows)]
    for sig, (n, clause, tid, e, line, _) in sorted(seen_sig.items()):
        sc = by_id.get(tid)
        ev = {k: x for k, x in e.items() if k != "snap"}
        v.violation(sig, "%s failed at line %d (trace %s, event %s %s) [%d failures with this signature]" % (
            clause, line, tid, e.get("ev"), e.get("tag") or e.get("x") or e.get("r") or "", n), {"e2e_scenario": sc, "event": ev})
        nviol += 1

    # the design checks must have passed
    if replay_scn is None:
        if errs:
            raise errs[0]
        for name, res in sorted(results.items()):
            if name.startswith("mc:"):
                vlib.tlc_must_pass(res, name)
                v.add_tlc(name[3:], res)
                if not res.ok:
                    raise vlib.MachineryError("StreamE2E.tla violates %s on %s (a lead, not a verdict)" % (res.violation, name[3:]))
            elif name == "lead":
                if res.violation != "ExactlyOnceInOrder":
                    raise vlib.MachineryError("StreamE2E.tla does not tell the renumbering lead apart (%s)" % (res.error or res.violation))
            elif name.startswith("wit:"):
                if res.violation != name[4:]:
                    raise vlib.MachineryError("vacuity: witness %s not reachable (%s)" % (name[4:], res.error or res.violation))
        cov["vacuity_witnesses_reached"] = sum(1 for n in results if n.startswith("wit:"))

    # coverage
    nsteps, distinct, nontrivial, cuts, recon, gaveup = 0, set(), 0, 0, 0, 0
    for tid, start, trows in traces:
        st = steps_of_trace(trows)
        nsteps += len(st)
        key = vlib.sha([trows[0].get("prime"), st])
        c = sum(1 for r in trows if r.get("ev") == "x.cut")
        cuts += c
        recon += sum(1 for r in trows if r.get("ev") == "rc.hold")
        gaveup += 1 if any(r.get("ev") == "quiesce" and r["snap"].get("broken") for r in trows) else 0
        if key not in distinct:
            distinct.add(key)
            if c:
                nontrivial += 1
    cov.update({"scenarios_run": len(traces), "steps_executed": nsteps, "distinct_scenarios": len(distinct),
                "distinct_with_a_cut": nontrivial, "cuts": cuts, "reconnect_attempts_seen": recon, "scenarios_client_gave_up": gaveup,
                "drift_steps": drift, "other_prefix_clauses_failed": other,
                "phase_wall_s": {"tlc_generate": round(t_gen, 1), "go": round(t_go, 1), "monitor": round(mres.wall, 1),
                                 "total": round(time.time() - t0, 1)}})
    v.cov["e2e"] = cov
    v.cov["traces_validated_against_impl"] = v.cov.get("traces_validated_against_impl", 0) + len(traces)
    return traces
