"""Transition cover of a TLC state graph dumped with `-dump dot,actionlabels`.

parse_dot(path) -> (init_nodes, edges) with edges: dict src -> list of (label, dst)
cover(init, edges, maxlen, seed) -> list of paths; each path is a list of
(action_name, [args]) such that every edge of the graph is traversed by at
least one path that starts in an initial state.
"""
import re, random, json
from collections import deque

_edge = re.compile(r'^(-?\d+) -> (-?\d+) \[label="((?:[^"\\]|\\.)*)"')
_node = re.compile(r'^(-?\d+) \[label="((?:[^"\\]|\\.)*)"(,style = filled)?')


def parse_label(lbl):
    lbl = lbl.replace('\\"', '"').replace("\\\\", "\\")
    m = re.match(r"^(\w+)(?:\((.*)\))?$", lbl, re.S)
    if not m:
        return (lbl, [])
    name, argstr = m.group(1), m.group(2)
    if argstr is None or argstr == "":
        return (name, [])
    return (name, split_args(argstr))


def split_args(s):
    """Split a TLA+ argument list at top-level commas; convert ints, strings, booleans;
    leave anything else as raw text."""
    out, depth, cur, instr = [], 0, "", False
    for ch in s:
        if instr:
            cur += ch
            if ch == '"':
                instr = False
            continue
        if ch == '"':
            instr = True
            cur += ch
        elif ch in "([{<":
            depth += 1
            cur += ch
        elif ch in ")]}>":
            depth -= 1
            cur += ch
        elif ch == "," and depth == 0:
            out.append(cur.strip())
            cur = ""
        else:
            cur += ch
    if cur.strip():
        out.append(cur.strip())
    return [conv(a) for a in out]


def conv(a):
    if re.match(r"^-?\d+$", a):
        return int(a)
    if a.startswith('"') and a.endswith('"'):
        return a[1:-1]
    if a == "TRUE":
        return True
    if a == "FALSE":
        return False
    return a


def parse_dot(path, keep_state=False):
    init, edges, states = [], {}, {}
    with open(path) as fh:
        for line in fh:
            m = _edge.match(line)
            if m:
                edges.setdefault(m.group(1), []).append((m.group(3), m.group(2)))
                continue
            m = _node.match(line)
            if m:
                edges.setdefault(m.group(1), [])
                if m.group(3):
                    init.append(m.group(1))
                if keep_state:
                    states[m.group(1)] = m.group(2)
    # de-duplicate parallel edges
    for k in edges:
        edges[k] = sorted(set(edges[k]))
    if keep_state:
        return init, edges, states
    return init, edges


def cover(init, edges, maxlen=30, seed=1, max_paths=None, skip_selfloops=False):
    rnd = random.Random(seed)
    # shortest path tree from the initial states
    pred = {}
    dq = deque()
    for i in init:
        pred[i] = None
        dq.append(i)
    while dq:
        u = dq.popleft()
        for (lbl, v) in edges.get(u, []):
            if v not in pred:
                pred[v] = (u, lbl)
                dq.append(v)

    def path_to(n):
        p = []
        while pred[n] is not None:
            u, lbl = pred[n]
            p.append((u, lbl, n))
            n = u
        p.reverse()
        return p

    uncovered = {}
    total = 0
    for u in pred:  # reachable nodes only
        outs = [(lbl, v) for (lbl, v) in edges.get(u, []) if not (skip_selfloops and v == u)]
        if outs:
            uncovered[u] = set(outs)
            total += len(outs)
    paths = []
    while uncovered and (max_paths is None or len(paths) < max_paths):
        # pick the uncovered node closest to init among a sample
        start = min(rnd.sample(sorted(uncovered), min(len(uncovered), 8)), key=lambda n: len(path_to(n)))
        steps = path_to(start)
        for (u, lbl, v) in steps:
            if u in uncovered and (lbl, v) in uncovered[u]:
                uncovered[u].discard((lbl, v))
                if not uncovered[u]:
                    del uncovered[u]
        cur = start
        while len(steps) < maxlen:
            if cur in uncovered:
                lbl, v = rnd.choice(sorted(uncovered[cur]))
                uncovered[cur].discard((lbl, v))
                if not uncovered[cur]:
                    del uncovered[cur]
            else:
                # bounded BFS to a node with uncovered edges
                seen = {cur: None}
                q = deque([cur])
                tgt = None
                while q and len(seen) < 2000:
                    x = q.popleft()
                    if x in uncovered and x != cur:
                        tgt = x
                        break
                    for (l2, y) in edges.get(x, []):
                        if y not in seen:
                            seen[y] = (x, l2)
                            q.append(y)
                if tgt is None:
                    break
                hop = []
                n = tgt
                while seen[n] is not None:
                    x, l2 = seen[n]
                    hop.append((x, l2, n))
                    n = x
                hop.reverse()
                if len(steps) + len(hop) >= maxlen:
                    break
                steps.extend(hop)
                cur = tgt
                continue
            steps.append((cur, lbl, v))
            cur = v
        paths.append([parse_label(lbl) for (_, lbl, _) in steps])
    return paths, total


if __name__ == "__main__":
    import sys
    init, edges = parse_dot(sys.argv[1])
    paths, total = cover(init, edges, maxlen=int(sys.argv[2]) if len(sys.argv) > 2 else 30)
    print(json.dumps({"nodes": len(edges), "edges": total, "paths": len(paths),
                      "steps": sum(len(p) for p in paths)}))
    for p in paths[:3]:
        print(json.dumps(p))
