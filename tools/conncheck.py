"""Shared driver for the connection-layer checks C01–C05 (scenario harness + ConnMon)."""
import json, os
import vlib


def run_scenarios(pid, scen_rows, seed, nrandom, timeout=900, extra_env=None):
    """Run scenario scripts (+ nrandom seeded random ones) on the real code. Returns (obs_path, rows)."""
    out = vlib.outdir(pid)
    scen = os.path.join(out, "scenarios.ndjson")
    vlib.write_ndjson(scen, scen_rows)
    obs = os.path.join(out, "obs.ndjson")
    env = {"VERIF_IN": scen, "VERIF_OUT": obs, "VERIF_SEED": seed, "VERIF_RANDOM": nrandom}
    if extra_env:
        env.update(extra_env)
    rc, gout, wall = vlib.go_test("mcp", "^TestVerif_Conn$", ["mcp/conn_harness_test.go"], env=env, timeout=timeout)
    vlib.go_must_build(rc, gout, pid)
    rows = []
    if os.path.exists(obs):
        for line in open(obs):
            try:
                rows.append(json.loads(line))
            except Exception:
                break  # truncated last line after a crash
    if rc != 0 and not any(r.get("ev") == "panic" for r in rows):
        m = re.search(r"^(panic: .*|fatal error: .*)$", gout, re.M)
        if m and ("go-sdk" in gout):
            # the SDK crashed the process: real-code behaviour. Attribute it to the scenario in flight.
            rows.append({"ev": "panic", "msg": m.group(1)[:300], "where": "process crash", "seq": 0, "t": 0})
            vlib.write_ndjson(obs, rows)
        else:
            raise vlib.MachineryError("Conn harness failed:\n" + gout[-3000:])
    return obs, rows, gout


# clauses whose failures are identified by the abstract class alone (used for known findings)
CLASS_CLAUSES = {"C02.DupInflightIdAnswered"}


def steps_of(trows):
    return [[r.get("op"), r.get("a1"), r.get("a2")] for r in trows if r.get("ev") == "step"]


def judge(v, pid, obs, rows, scen_by_id):
    """Run ConnMon over obs; attribute failures whose clause starts with `pid.` to v."""
    fails, mres = vlib.run_monitor("ConnMon", "ConnMon.cfg", obs, timeout=1800, heap_gb=8)
    v.add_tlc("ConnMon", mres)
    traces = vlib.split_traces(rows)
    other = {}
    for f in fails:
        clause = f["monfail"]
        tid, start, trows = vlib.trace_of_line(traces, f["line"])
        e = rows[f["line"] - 1]
        head = trows[0] if trows else {}
        sc = scen_by_id.get(tid)
        if sc is None and head.get("scj"):
            sc = json.loads(head["scj"])          # generated in the harness: the reset line carries the complete scenario
        if sc is None:
            sc = {"id": tid, "side": head.get("side"), "gated": head.get("gated"), "steps": steps_of(trows)}
        if clause.startswith(pid + ".") or clause.startswith("X."):
            if clause in CLASS_CLAUSES:
                sig = "%s:%s" % (clause, sc.get("side"))
            else:
                sig = "%s:%s" % (clause, abstract_sig(sc, trows, f["line"] - start))
            v.violation(sig, "%s failed at line %d (trace %s, event %s)" % (clause, f["line"], tid, e.get("ev")),
                        {"scenario": sc, "event": e})
        else:
            other[clause] = other.get(clause, 0) + 1
    v.cov["other_property_clauses_failed"] = other
    return traces


def abstract_sig(sc, trows, upto):
    """Abstract signature of a failing scenario: side, write mode and the op kinds up to the failure."""
    ops = []
    for r in trows[:upto + 1]:
        if r.get("ev") == "step":
            a2 = r.get("a2") or ""
            ops.append(r.get("op") + (":" + a2 if a2 and r.get("op") in ("req", "wret", "resp") else ""))
    return "%s/%s/%s" % (sc.get("side"), "gated" if sc.get("gated") else "auto", ",".join(ops))


def coverage(v, traces, rule_extra=""):
    distinct, nontrivial = set(), 0
    evals = 0
    for tid, start, trows in traces:
        steps = steps_of(trows)
        evals += len(steps)
        key = vlib.sha([trows[0].get("side"), trows[0].get("gated"), steps, [r.get("fn") for r in trows if r.get("ev") == "cs"] if trows[0].get("cs") else 0])
        if key in distinct:
            continue
        distinct.add(key)
        ops = {s[0] for s in steps}
        if ops & {"cancel", "close", "eof", "rderr", "pcancel", "reqdup"} or any(s[0] == "wret" and s[2] != "ok" for s in steps):
            nontrivial += 1
    v.cov["evaluations"] = evals
    v.cov["traces_validated_against_impl"] = len(traces)
    v.cov["distinct_nontrivial"] = nontrivial
    v.cov["rule"] = ("scenarios = environment-action scripts (TLC-generated from Conn.tla, hand-written corner cases, seeded random), each run "
                     "on a real session under synctest; distinct by (side, write mode, step list); non-trivial = contains a cancellation, "
                     "Close, reader error/EOF, peer cancel, duplicate id or failing write" + rule_extra)


# --------------------------------------------------------------------------
# TLC-generated scenarios (spec/ConnGen.tla, simulation mode)

import re, glob, shutil, subprocess


def tlc_scenarios(cfg, num, depth, seed, prefix, timeout=600, module="ConnGen", csdir=False):
    """Simulate ConnGen under cfg and convert every behaviour's environment-action history into a
    gated scenario for both sides. Returns (scenarios, tlc_result)."""
    wd = vlib.scratch("tlc-")
    sim = os.path.join(wd, "sim")
    os.makedirs(sim)
    res = vlib.run_tlc(module, cfg, workdir=wd, workers=1, timeout=timeout, heap_gb=4,
                       simulate="file=%s/b,num=%d" % (sim, num), depth=depth, seed=seed)
    if res.error or res.violation:
        raise vlib.MachineryError("ConnGen simulation failed: %s %s\n%s" % (res.error, res.violation, res.stdout[-1500:]))
    m = re.search(r"The number of states generated: (\d+)", res.stdout)
    if m:
        res.generated = res.distinct = int(m.group(1))
    scen, seen = [], set()
    for i, f in enumerate(sorted(glob.glob(os.path.join(sim, "b_*")))):
        txt = open(f).read()
        j = txt.rfind("/\\ hist = <<")
        if j < 0:
            continue
        k = txt.find(">>", j)
        hist = re.findall(r'"([^"]*)"', txt[j:k])
        steps = []
        for h in hist:
            parts = h.split("|")
            steps.append(parts)
            if parts[0] == "wret" and parts[-1] == "stall":
                steps.append(["sleep", "6"])
        key = json.dumps(steps)
        if not steps or key in seen:
            continue
        seen.add(key)
        for side in ("client", "server"):
            sc = {"id": "%s%d.%s" % (prefix, i, side), "side": side, "gated": True, "steps": steps}
            if csdir:
                # lock-step replay: the script names every critical section; nothing runs in between
                sc.update({"cs": True, "csdir": True, "csseed": seed})
            scen.append(sc)
    return scen, res


def strict(v, rows):
    """Strict validation of the recorded traces against Conn.tla (binding / drift). Traces that use
    the generic outgoing-notification step are not modelled by Conn.tla and are skipped."""
    tr = vlib.split_traces(rows)
    keep = [(tid, t) for (tid, s, t) in tr if not any(x.get("ev") in ("notify.begin", "notifybad.begin", "callbad.begin") or (x.get("ev") == "rd.deliver" and x.get("kind") in ("init", "listen")) for x in t)]
    bad = {tid for (tid, s, t) in tr if any(x.get("ev") in ("panic", "setup.error") for x in t)}
    keep = [(tid, t) for (tid, t) in keep if tid not in bad]
    out = vlib.outdir(v.pid)
    for old in glob.glob(os.path.join(out, "drift-*.ndjson")):
        os.remove(old)
    accepted = 0
    for attempt in range(6):
        cur = [r for (tid, t) in keep for r in t]
        sp = os.path.join(out, "obs_strict.ndjson")
        vlib.write_ndjson(sp, cur)
        ok, hwm, res = vlib.run_strict("ConnTrace", "ConnTrace.cfg", sp, timeout=1800, heap_gb=8,
                                       java_opts=["-Dtlc2.tool.queue.IStateQueue=StateDeque"])
        v.add_tlc("ConnTrace(strict)", res)
        if ok:
            accepted = len(keep)
            break
        if res.violation and (hwm is None or hwm < 1):
            v.drift.append("a Conn.tla invariant (%s) is violated on a state of a recorded trace" % res.violation)
            break
        t2 = vlib.split_traces(cur)
        tid, start, trows = vlib.trace_of_line(t2, hwm)
        v.drift.append("trace %s: line %d not explained by Conn.tla: %s" % (tid, hwm - start, json.dumps(cur[hwm - 1])[:240]))
        vlib.write_ndjson(os.path.join(out, "drift-%s-%d.ndjson" % (v.seed, attempt)), trows)
        keep = [(t, x) for (t, x) in keep if t != tid]
    v.cov["strict_traces_explained_by_spec"] = accepted
    v.cov["strict_traces_skipped"] = len(tr) - len(keep)
    return accepted


# --------------------------------------------------------------------------
# pair scenarios: two real sessions (spec/PairEnv.tla generates the application scripts)

def run_pair(v, pid, tier, seed, replay_steps=None):
    out = vlib.outdir(pid)
    scen = os.path.join(out, "pair_scenarios.ndjson")
    if replay_steps is not None:
        rows = [{"id": "replay", "steps": replay_steps}]
    else:
        cfg = "PairEnv_quick.cfg" if tier == "quick" else "PairEnv_thorough.cfg"
        res = vlib.run_tlc("PairEnv", cfg, workers=4, timeout=900, heap_gb=6)
        vlib.tlc_must_pass(res, cfg)
        v.add_tlc(cfg + "(enumerate application scripts)", res)
        rows = [{"id": "pair%d" % i, "steps": p["steps"]} for i, p in enumerate(x for x in res.printed if isinstance(x, dict) and "steps" in x)]
        if not rows:
            raise vlib.MachineryError("PairEnv produced no scripts")
        # hand-written: the nested-call-into-a-closing-endpoint schedules (DESIGN.md section 9 lead 9)
        rows += [{"id": "pair.lead9.client", "steps": [["ccall", "k1", "nest"], ["cclose", "c1"], ["rel", "k1", "nest"], ["swait", "sw"]]},
                 {"id": "pair.closeDeliversResponse", "steps": [["ccall", "k1", "nest"], ["rel", "k1", "nest"], ["sclose", "s1"], ["cwait", "cw"]]},
                 # both read loops have read the peer's call(s) but not yet accepted them when both sides close
                 {"id": "pair.crossingCalls1.bothClose", "steps": [["park"], ["ccall", "k1", "plain"], ["scall", "q1"], ["cclose", "c1"], ["sclose", "s1"], ["unpark"]]},
                 {"id": "pair.crossingCalls2.bothClose", "steps": [["park"], ["ccall", "k1", "plain"], ["scall", "q1"], ["ccall", "k2", "plain"], ["scall", "q2"], ["cclose", "c1"], ["sclose", "s1"], ["unpark"]]},
                 {"id": "pair.crossingCalls2.clientCloses", "steps": [["park"], ["ccall", "k1", "plain"], ["scall", "q1"], ["ccall", "k2", "plain"], ["scall", "q2"], ["cclose", "c1"], ["unpark"], ["swait", "sw"]]}]
    vlib.write_ndjson(scen, rows)
    obs = os.path.join(out, "pair_obs.ndjson")
    rc, gout, wall = vlib.go_test("mcp", "^TestVerif_ConnPair$", ["mcp/conn_harness_test.go", "mcp/conn_pair_test.go"],
                                  env={"VERIF_IN": scen, "VERIF_OUT": obs, "VERIF_SEED": seed, "VERIF_CS": "0"}, timeout=600)
    vlib.go_must_build(rc, gout, pid + " pair")
    orows = vlib.read_ndjson(obs) if os.path.exists(obs) else []
    if rc != 0 and not any(r.get("ev") == "panic" for r in orows):
        raise vlib.MachineryError("pair harness failed:\n" + gout[-3000:])
    fails, mres = vlib.run_monitor("PairMon", "PairMon.cfg", obs, timeout=1800, heap_gb=8)
    v.add_tlc("PairMon", mres)
    traces = vlib.split_traces(orows)
    by_id = {r["id"]: r for r in rows}
    other = {}
    for f in fails:
        clause = f["monfail"]
        tid, start, trows = vlib.trace_of_line(traces, f["line"])
        if clause.startswith(pid + ".") or clause.startswith("X."):
            steps = by_id.get(tid, {}).get("steps", [])
            sig = "%s:pair/%s" % (clause, ",".join(":".join(s[:1] + s[2:3]) if s[0] in ("ccall", "rel") else s[0] for s in steps))
            v.violation(sig, "%s failed on a real client/server pair (trace %s)" % (clause, tid), {"pair_steps": steps})
        else:
            other[clause] = other.get(clause, 0) + 1
    v.cov["pair_scenarios"] = len(traces)
    v.cov["pair_other_property_clauses_failed"] = other
    v.cov["evaluations"] = v.cov.get("evaluations", 0) + sum(len(r["steps"]) for r in rows)
    v.cov["traces_validated_against_impl"] = v.cov.get("traces_validated_against_impl", 0) + len(traces)
    v.cov["distinct_nontrivial"] = v.cov.get("distinct_nontrivial", 0) + len(traces)
    return traces


# --------------------------------------------------------------------------
# the repository's own tests as a trace corpus (spec/ConnSnap.tla)

CORPUS_PKGS = {"quick": ["mcp"], "thorough": ["mcp", "internal/jsonrpc2", "examples/server/distributed", "auth"]}
SNAP_CLAUSE_PIDS = {"C01": ("C01.",), "C05": ("C05.",)}


def repo_corpus(v, pid, tier, replay_rows=None):
    """Run the repository's own test packages with the guarded hooks on and the file tracer
    installed (VERIF_TRACE_DIR); every critical section of every connection those tests create is
    logged under the connection's state lock.  TLC then evaluates the snapshot-level monitor
    ConnSnap.tla over all of them.  Test failures of the repository's tests are not this check's
    business (some are timing-sensitive); only the recorded histories are judged."""
    import collections
    if replay_rows is not None:
        rows = replay_rows
    else:
        d = vlib.scratch("cstr-")
        rows = []
        for pkg in CORPUS_PKGS[tier]:
            if not os.path.isdir(os.path.join(vlib.REPO, pkg)):
                continue
            sub = os.path.join(d, pkg.replace("/", "_"))
            os.makedirs(sub)
            rc, outp, wall = vlib.go_test(pkg, ".", [], env={"VERIF_TRACE_DIR": sub}, timeout=900)
            vlib.go_must_build(rc, outp, "repo tests of " + pkg)
            for i, f in enumerate(sorted(glob.glob(os.path.join(sub, "cs-*.ndjson")))):
                for ln in open(f, errors="replace"):
                    try:
                        r = json.loads(ln)
                    except ValueError:
                        continue          # a line cut short by a test process that was killed
                    r["c"] = "%s.%d.%s" % (pkg, i, r["c"])
                    rows.append(r)
        if len(rows) < 1000:
            raise vlib.MachineryError("repository test corpus: only %d critical sections recorded (tracer hook missing?)" % len(rows))
    out = vlib.outdir(pid)
    sp = os.path.join(out, "obs_corpus.ndjson")
    vlib.write_ndjson(sp, rows)
    fails, res = vlib.run_monitor("ConnSnap", "ConnSnap.cfg", sp, timeout=1500, heap_gb=8)
    v.add_tlc("ConnSnap(monitor over the repository's own tests)", res)
    conns = collections.OrderedDict()
    for r in rows:
        conns.setdefault(r["c"], []).append(r)
    ndrift = 0
    for f in fails:
        r = rows[f["line"] - 1]
        hist = conns[r["c"]]
        if f["monfail"] == "drift":
            ndrift += 1
            if ndrift <= 3:
                v.drift.append("repo-test corpus: a critical section of %s is not a step of Conn.tla's projection: %s" % (r["fn"], json.dumps(r["s"])[:200]))
            continue
        if not f["monfail"].startswith(SNAP_CLAUSE_PIDS[pid]):
            continue
        v.violation("corpus:" + f["monfail"] + ":" + r["fn"].split(".")[-1],
                    "%s violated by a connection of the repository's own tests at a critical section of %s: %s" % (f["monfail"], r["fn"], json.dumps(r["s"])),
                    {"corpus_rows": hist[:400]})
    os.remove(sp)
    v.cov["corpus_critical_sections"] = len(rows)
    v.cov["corpus_connections"] = len(conns)
    v.cov["corpus_by_function"] = dict(collections.Counter(r["fn"].split(".")[-1] for r in rows))
    v.cov["evaluations"] = v.cov.get("evaluations", 0) + len(rows)
    return len(rows)
